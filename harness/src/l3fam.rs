//! L3 "family programs": whole source programs through the real CLI (assembler, data loader, driver run
//! loop, interpreter, printer) for one instruction family.  A program is a sequence of blocks; each block
//! establishes a complete machine state with MOV / PUSH / POPF (all registers, DS/ES/SS, the whole flag
//! word), pre-stores operand memory, executes ONE generated instruction of the family (or a small jump /
//! loop structure) and prints what the reference says is defined afterwards: registers, flags, and the
//! memory the reference wrote.  The expected output is computed by the machine-level reference model on a
//! dense 1 MiB image; stdout is tokenised and compared event by event.
//!
//! This is what ties the in-process verdicts of C01-C07 (L0/L1) to the driver's real run loop: a shortcut or
//! special case in driver.rs (REPEAT handling, a "fast path" for some instruction text, the appended hlt)
//! is invisible to L1 and decided here.
use crate::asm::*;
use crate::cli::*;
use crate::clicheck::*;
use crate::common::*;
use crate::emu::*;
use crate::l1::FormSet;
use crate::machine::*;
use crate::progs::*;
use crate::pt;
use crate::refmodel::*;
use proptest::prelude::*;
use serde_json::json;

#[derive(Clone, Copy, Debug, PartialEq, Eq)]
pub enum Fam {
    Set(FormSet),
    Jumps,
}

#[derive(Clone, Debug)]
pub struct Block {
    /// AX BX CX DX SP BP SI DI
    pub regs: [u16; 8],
    /// DS ES SS
    pub segs: [u16; 3],
    pub flags: u16,
    pub insn: Insn,
    /// values for the pre-stores / small choices
    pub vals: Vec<u16>,
    /// jump blocks: 0 forward target, 1 self-targeting (loop family), 2 counted backward loop (loop family)
    pub jkind: u8,
}

#[derive(Clone, Debug)]
pub struct FCase {
    pub fam: Fam,
    pub blocks: Vec<Block>,
    pub label_off: u16,
    pub choices: Vec<u8>,
}

fn segv() -> BoxedStrategy<u16> {
    prop_oneof![
        4 => proptest::sample::select(vec![0u16, 0, 1, 0x10, 0x1000, 0x2100, 0xF000, 0xFFF0, 0xFFFF]),
        1 => any::<u16>(),
    ]
    .boxed()
}

fn jump_insn_s() -> BoxedStrategy<Insn> {
    let mut all: Vec<&'static str> = JCC_SPELLINGS.iter().copied().filter(|m| *m != "jmp").collect();
    all.extend(LOOP_SPELLINGS.iter().copied());
    // the loop family twice as often (CX and ZF both matter)
    all.extend(LOOP_SPELLINGS.iter().copied());
    proptest::sample::select(all).prop_map(|mn| Insn::new(mn, vec![Opd::Name(String::new())])).boxed()
}

pub fn block_s(fam: Fam) -> BoxedStrategy<Block> {
    let insn = match fam {
        Fam::Set(s) => crate::l1::insn_strategy(s),
        Fam::Jumps => jump_insn_s(),
    };
    (proptest::collection::vec(pt::u16s(), 8), (segv(), segv(), segv()), pt::flagword(), insn, proptest::collection::vec(pt::u16s(), 10), 0u8..4)
        .prop_map(|(r, (d, e, s), flags, insn, vals, jkind)| {
            let mut regs = [0u16; 8];
            regs.copy_from_slice(&r);
            Block { regs, segs: [d, e, s], flags, insn, vals, jkind }
        })
        .boxed()
}

pub fn case_s(fam: Fam) -> BoxedStrategy<FCase> {
    (proptest::collection::vec(block_s(fam), 2..6), crate::l1::label_off_s(), choices_s(40))
        .prop_map(move |(blocks, label_off, choices)| FCase { fam, blocks, label_off: label_off.min(4000), choices })
        .boxed()
}

fn mov16(r: R16, v: u16) -> Insn {
    Insn::new("mov", vec![Opd::R16(r), Opd::Imm(v, ImmKind::SW)])
}
fn movsr(s: Seg, r: R16) -> Insn {
    Insn::new("mov", vec![Opd::Sr(s), Opd::R16(r)])
}

/// mnemonics touched by an open known finding are replaced by a sibling of the same operand form, so that
/// L3 programs are built from instructions no open finding touches (the findings are decided at L0/L1)
fn avoid_open(insn: &Insn, q: &Quirks) -> Insn {
    let mut i = insn.clone();
    match i.mn {
        "inc" | "dec" if q.incdec_cf => i.mn = "not",
        "neg" if q.neg0_sf => i.mn = "not",
        "imul" if q.bimul_flags && Machine::width_of(&i.ops[0]) == Some(8) => i.mn = "mul",
        "jle" if q.jle_and => i.mn = "jl",
        "jng" if q.jle_and => i.mn = "jnge",
        "lea" if q.lea_phys => i.mn = "mov",
        _ => {}
    }
    i
}

pub struct Built {
    pub prog: Program,
    pub events: Vec<Ev>,
    /// block index that produced each expected event
    pub ev_block: Vec<usize>,
    /// for a flag dump: the flag bits the reference leaves undefined at that point (not compared)
    pub ev_undef: Vec<u16>,
    pub classes: Vec<String>,
    pub nontrivial: bool,
    /// canonical text of the tested instruction of every block
    pub tested: Vec<String>,
    /// more than ~2000 instruction executions (long loops / repetitions): not run under single-stepping
    pub long_loop: bool,
    /// a tested POPF sets the trap flag: the driver prompts until the next block clears it
    pub sets_tf: bool,
}

struct Runner {
    mach: Machine,
    labels: Vec<(String, u16)>,
}
impl Runner {
    /// execute one instruction on the reference machine; returns (number of acceptable results, first result)
    fn exec(&mut self, insn: &Insn) -> (usize, Expect) {
        let env = Env { data_labels: &self.labels, current: 0, string_straddle_both: false };
        let mut acc = self.mach.exec(insn, &env, &Quirks::none());
        let n = acc.len();
        (n, acc.remove(0))
    }
    fn apply(&mut self, e: Expect) {
        self.mach.regs = e.regs;
        self.mach.mem = e.mem;
        self.mach.call_stack = e.call_stack;
    }
    fn run(&mut self, insn: &Insn) -> Outcome {
        let (_, e) = self.exec(insn);
        let o = e.outcome.clone();
        self.apply(e);
        o
    }
    fn dense(&self) -> &Vec<u8> {
        self.mach.mem.dense.as_ref().unwrap()
    }
}

fn changed_windows(before: &[u8], after: &[u8]) -> Vec<(u32, u32)> {
    let mut addrs: Vec<u32> = Vec::new();
    const CH: usize = 4096;
    for c in 0..(before.len() / CH) {
        let s = c * CH;
        if before[s..s + CH] != after[s..s + CH] {
            for i in s..s + CH {
                if before[i] != after[i] {
                    addrs.push(i as u32);
                }
            }
        }
    }
    let mut out: Vec<(u32, u32)> = Vec::new();
    for a in addrs {
        let lo = a.saturating_sub(1);
        let hi = (a + 2).min(0xFFFFF);
        match out.last_mut() {
            Some((_, h)) if lo <= *h + 1 => *h = (*h).max(hi),
            _ => out.push((lo, hi)),
        }
    }
    // long runs (rep stos over hundreds of bytes) are printed whole up to 600 bytes, then the two ends
    let mut res = Vec::new();
    for (lo, hi) in out.into_iter().take(4) {
        if hi - lo > 600 {
            res.push((lo, lo + 40));
            res.push((hi - 40, hi));
        } else {
            res.push((lo, hi));
        }
    }
    res
}

pub fn build(c: &FCase, openq: &Quirks) -> Built {
    let mut data: Vec<DataDecl> = Vec::new();
    if c.label_off > 0 {
        data.push(DataDecl::Item { label: None, word: false, kind: DataKind::Zeros(c.label_off) });
    }
    data.push(DataDecl::Item { label: Some(LBL.to_string()), word: true, kind: DataKind::Val(0) });
    let image = data_image(&data);
    let labels = data_label_offsets(&data);
    let mut regs0 = Regs::default();
    regs0.r[FLAGS] = 0xF000;
    regs0.r[CS] = 0xFFFF;
    let mut rn = Runner { mach: Machine::new(regs0), labels };
    rn.mach.mem.dense = Some(std::sync::Arc::new(image));
    let mut procs: Vec<Item> = Vec::new();
    let mut code: Vec<Item> = vec![Item::Label("start".into())];
    let mut events: Vec<Ev> = Vec::new();
    let mut ev_block: Vec<usize> = Vec::new();
    let mut ev_undef: Vec<u16> = Vec::new();
    let mut classes: Vec<String> = Vec::new();
    let mut tested: Vec<String> = Vec::new();
    let mut nontrivial = false;
    let mut work: u64 = 0;
    let mut sets_tf = false;
    'blocks: for (k, b) in c.blocks.iter().enumerate() {
        let mut insn = avoid_open(&b.insn, openq);
        let mut r = b.regs;
        if insn.prefix.is_some() {
            r[2] = if b.vals[7] % 37 == 5 {
                // the whole 16-bit count: more repetitions in one instruction than any 16-bit tally of them holds
                classes.push("l3/rep-cx-ffff".into());
                0xFFFF
            } else if b.vals[7] & 7 != 0 {
                r[2] % 24
            } else {
                r[2] % 1500
            };
            work += r[2] as u64;
        }
        if insn.mn == "popf" {
            // one POPF in three loads a word with the trap flag set: the instructions up to the next block's POPF are then
            // single-stepped by the driver (prompts answered 'n', chatter removed) and the flag word must stay as loaded
            if b.vals[8] % 3 == 0 {
                r[0] |= TF;
                sets_tf = true;
            } else {
                r[0] &= !TF;
            }
        }
        // operand idioms that text-level shortcuts key on: immediates 0 / 1 / all ones, both operands the same register
        match b.vals[9] % 16 {
            0 | 1 | 2 => {
                let pick = [0u16, 1, 0xFFFF][(b.vals[9] % 16) as usize];
                let is_shift = matches!(insn.mn, "sal" | "shl" | "sar" | "shr" | "rol" | "ror" | "rcl" | "rcr");
                for o in insn.ops.iter_mut() {
                    if let Opd::Imm(v, k) = o {
                        if insn.mn != "int" {
                            *v = match k {
                                ImmKind::SB | ImmKind::UB => pick & 0xFF,
                                _ => pick,
                            };
                            if is_shift {
                                *v = pick & 1;
                            }
                        }
                    }
                }
            }
            3 => {
                if insn.ops.len() == 2 {
                    if let (Opd::R16(a), Opd::R16(_)) = (insn.ops[0].clone(), insn.ops[1].clone()) {
                        insn.ops[1] = Opd::R16(a);
                    }
                    if let (Opd::R8(a), Opd::R8(_)) = (insn.ops[0].clone(), insn.ops[1].clone()) {
                        if !matches!(insn.mn, "sal" | "shl" | "sar" | "shr" | "rol" | "ror" | "rcl" | "rcr") {
                            insn.ops[1] = Opd::R8(a);
                        }
                    }
                }
            }
            _ => {}
        }
        let is_loop = matches!(insn.mn, "loop" | "loope" | "loopz" | "loopne" | "loopnz");
        // 3 = the same jump line executed three times (inside a procedure called three times) with CX = a, b, a: only
        // MOV / CALL / RET lie between the executions, so the flag word is the same each time
        // 4 = a conditional jump closing a loop whose only changing state is a byte in memory (registers, and from the
        // second pass on often the flags too, are the same every time the jump is taken)
        let jkind = if c.fam == Fam::Jumps { if b.jkind == 3 { 3 } else if is_loop { b.jkind } else if b.jkind == 2 && !insn.mn.eq_ignore_ascii_case("jcxz") && !insn.mn.eq_ignore_ascii_case("jmp") { 4 } else { 0 } } else { 0 };
        if jkind == 4 {
            work += 3000;
        }
        if jkind == 1 || jkind == 2 {
            r[2] = if b.vals[7] & 7 != 0 { r[2] % 40 } else { r[2] % 3000 };
            work += 2 * (if r[2] == 0 { 65536 } else { r[2] as u64 });
        }
        work += 40;
        let mut emit = |rn: &mut Runner, code: &mut Vec<Item>, i: Insn| {
            rn.run(&i);
            code.push(Item::Ins(i));
        };
        // ---- machine state
        emit(&mut rn, &mut code, mov16(R16::AX, b.segs[2]));
        emit(&mut rn, &mut code, movsr(Seg::SS, R16::AX));
        emit(&mut rn, &mut code, mov16(R16::SP, r[4]));
        emit(&mut rn, &mut code, mov16(R16::AX, b.flags & !TF));
        emit(&mut rn, &mut code, Insn::new("push", vec![Opd::R16(R16::AX)]));
        emit(&mut rn, &mut code, Insn::new("popf", vec![]));
        // DS and ES are loaded from a register or, in every other block, through the stack (PUSH AX / POP DS)
        emit(&mut rn, &mut code, mov16(R16::AX, b.segs[0]));
        if b.vals[5] & 0x10 == 0 {
            emit(&mut rn, &mut code, movsr(Seg::DS, R16::AX));
        } else {
            emit(&mut rn, &mut code, Insn::new("push", vec![Opd::R16(R16::AX)]));
            emit(&mut rn, &mut code, Insn::new("pop", vec![Opd::Sr(Seg::DS)]));
        }
        emit(&mut rn, &mut code, mov16(R16::AX, b.segs[1]));
        if b.vals[5] & 0x20 == 0 {
            emit(&mut rn, &mut code, movsr(Seg::ES, R16::AX));
        } else {
            emit(&mut rn, &mut code, Insn::new("push", vec![Opd::R16(R16::AX)]));
            emit(&mut rn, &mut code, Insn::new("pop", vec![Opd::Sr(Seg::ES)]));
        }
        for (i, reg) in [R16::BX, R16::CX, R16::DX, R16::BP, R16::SI, R16::DI].iter().enumerate() {
            let idx = [1usize, 2, 3, 5, 6, 7][i];
            emit(&mut rn, &mut code, mov16(*reg, r[idx]));
        }
        emit(&mut rn, &mut code, mov16(R16::AX, r[0]));
        // ---- operand memory
        let strings = matches!(insn.mn, "movs" | "lods" | "stos" | "cmps" | "scas");
        if strings {
            let w = match insn.ops.first() {
                Some(Opd::Wd(W::W)) => 2i32,
                _ => 1,
            };
            let dir: i32 = if b.flags & DF != 0 { -1 } else { 1 };
            // a small alphabet so that equal and unequal elements occur at every position
            let alpha = [b.vals[0], b.vals[0], b.vals[1], b.vals[0]];
            for e in 0..4i32 {
                let d = e * w * dir;
                let sv = alpha[(b.vals[2] as usize + e as usize) % 4];
                let dv = alpha[(b.vals[3] as usize + e as usize * (1 + (b.vals[4] as usize & 1))) % 4];
                let kind = if w == 2 { ImmKind::SW } else { ImmKind::SB };
                let ww = if w == 2 { W::W } else { W::B };
                let mask = if w == 2 { 0xFFFF } else { 0xFF };
                emit(&mut rn, &mut code, Insn::new("mov", vec![Opd::Mem(ww, Mem { seg: None, shape: Shape::Indexed(R16::SI, d) }), Opd::Imm(sv & mask, kind)]));
                emit(&mut rn, &mut code, Insn::new("mov", vec![Opd::Mem(ww, Mem { seg: Some(Seg::ES), shape: Shape::Indexed(R16::DI, d) }), Opd::Imm(dv & mask, kind)]));
            }
            // the accumulator equals one of the alphabet values so that SCAS finds / misses it
            if matches!(insn.mn, "scas") {
                emit(&mut rn, &mut code, mov16(R16::AX, alpha[(b.vals[5] % 4) as usize]));
            }
        } else if let Some((_, m)) = insn.mem_operand() {
            if b.vals[6] & 3 != 0 {
                emit(&mut rn, &mut code, Insn::new("mov", vec![Opd::Mem(W::W, m), Opd::Imm(b.vals[0], ImmKind::SW)]));
            }
        } else if insn.label_operand().is_some() {
            if b.vals[6] & 3 != 0 {
                emit(&mut rn, &mut code, Insn::new("mov", vec![Opd::Lab(W::W, LBL.to_string()), Opd::Imm(b.vals[0], ImmKind::SW)]));
            }
        }
        // a second DS between the pre-store and the tested instruction, loaded through the stack or from memory: whatever
        // was derived from the old DS (a resolved label address, say) must not survive it
        if (insn.label_operand().is_some() || insn.mem_operand().is_some()) && !strings && b.vals[6] & 0x0C == 0x04 {
            let ds2 = b.segs[1] ^ 0x0101;
            emit(&mut rn, &mut code, mov16(R16::AX, ds2));
            if b.vals[6] & 0x10 == 0 {
                emit(&mut rn, &mut code, Insn::new("push", vec![Opd::R16(R16::AX)]));
                emit(&mut rn, &mut code, Insn::new("pop", vec![Opd::Sr(Seg::DS)]));
            } else {
                // through a word in the stack segment
                emit(&mut rn, &mut code, Insn::new("push", vec![Opd::R16(R16::AX)]));
                emit(&mut rn, &mut code, Insn::new("pop", vec![Opd::R16(R16::AX)]));
                emit(&mut rn, &mut code, Insn::new("mov", vec![Opd::Mem(W::W, Mem { seg: Some(Seg::SS), shape: Shape::Direct(0x0010) }), Opd::R16(R16::AX)]));
                emit(&mut rn, &mut code, Insn::new("mov", vec![Opd::Sr(Seg::DS), Opd::Mem(W::W, Mem { seg: Some(Seg::SS), shape: Shape::Direct(0x0010) })]));
            }
            emit(&mut rn, &mut code, mov16(R16::AX, r[0]));
            classes.push("l3/ds-changed-between-two-uses-of-an-operand".into());
        }
        if insn.mn == "xlat" {
            // the table cell XLAT reads
            let off = r[1].wrapping_add(r[0] & 0xFF);
            emit(&mut rn, &mut code, Insn::new("mov", vec![Opd::Mem(W::B, Mem { seg: None, shape: Shape::Direct(off) }), Opd::Imm(b.vals[0] & 0xFF, ImmKind::SB)]));
        }
        if insn.mn == "popf" {
            emit(&mut rn, &mut code, Insn::new("push", vec![Opd::R16(R16::AX)]));
        }
        // ---- the tested instruction
        let before = rn.dense().clone();
        let mut dc_regs = 0u16;
        let mut undef = 0u16;
        if c.fam == Fam::Jumps {
            let t = format!("t_{}", k);
            insn.ops = vec![Opd::Name(t.clone())];
            tested.push(format!("{} ({})", insn.mn, ["forward", "self", "backward", "revisited", "backward, memory-counted"][jkind as usize]));
            classes.push(format!("l3/jump/{}", ["forward", "self-target", "backward-loop", "revisited-line", "backward-memory-counted"][jkind as usize]));
            match jkind {
                0 => {
                    code.push(Item::Ins(insn.clone()));
                    let o = rn.run(&insn);
                    let fall = mov16(R16::BP, 0x1111);
                    code.push(Item::Ins(fall.clone()));
                    code.push(Item::Label(t));
                    if matches!(o, Outcome::Next) {
                        rn.run(&fall);
                        classes.push("l3/jump/not-taken".into());
                    } else {
                        classes.push("l3/jump/taken".into());
                    }
                }
                1 => {
                    code.push(Item::Label(t));
                    code.push(Item::Ins(insn.clone()));
                    let mut n = 0u32;
                    while !matches!(rn.run(&insn), Outcome::Next) {
                        n += 1;
                        if n > 70_000 {
                            break;
                        }
                    }
                    if n >= 1 {
                        classes.push("l3/jump/self-target-repeated".into());
                    }
                }
                4 => {
                    let cell = Opd::Mem(W::B, Mem { seg: None, shape: Shape::Direct(0x0040 + (b.vals[1] & 0x0F)) });
                    emit(&mut rn, &mut code, Insn::new("mov", vec![cell.clone(), Opd::Imm(4 + (b.vals[0] % 3), ImmKind::SB)]));
                    let body = Insn::new("sub", vec![cell, Opd::Imm(1, ImmKind::SB)]);
                    code.push(Item::Label(t));
                    code.push(Item::Ins(body.clone()));
                    code.push(Item::Ins(insn.clone()));
                    let mut n = 0u32;
                    loop {
                        rn.run(&body);
                        if matches!(rn.run(&insn), Outcome::Next) {
                            break;
                        }
                        n += 1;
                        if n > 600 {
                            break;
                        }
                    }
                    if n >= 3 {
                        classes.push("l3/jump/backward-memory-counted-taken-3-times-or-more".into());
                    }
                }
                3 => {
                    let pn = format!("r_{}", k);
                    let fall = Insn::new("add", vec![Opd::R16(R16::BP), Opd::Imm(1, ImmKind::SW)]);
                    procs.push(Item::Proc { name: pn.clone(), body: vec![Item::Ins(insn.clone()), Item::Ins(fall.clone()), Item::Label(t)] });
                    let nz = (b.vals[0] | 1) & 0x7FFF;
                    let (a, bb) = if b.vals[2] & 1 == 0 { (0u16, nz) } else { (nz, 0u16) };
                    let mut outcomes = Vec::new();
                    for cxv in [a, bb, a] {
                        let m = mov16(R16::CX, cxv);
                        rn.run(&m);
                        code.push(Item::Ins(m));
                        code.push(Item::Ins(Insn::new("call", vec![Opd::Name(pn.clone())])));
                        let taken = !matches!(rn.run(&insn), Outcome::Next);
                        if !taken {
                            rn.run(&fall);
                        }
                        outcomes.push(taken);
                    }
                    if outcomes[0] != outcomes[1] {
                        classes.push("l3/jump/revisited-line-with-different-outcomes".into());
                    }
                }
                _ => {
                    let body = Insn::new("add", vec![Opd::R16(R16::BP), Opd::Imm(1, ImmKind::SW)]);
                    code.push(Item::Label(t));
                    code.push(Item::Ins(body.clone()));
                    code.push(Item::Ins(insn.clone()));
                    let mut n = 0u32;
                    loop {
                        rn.run(&body);
                        if matches!(rn.run(&insn), Outcome::Next) {
                            break;
                        }
                        n += 1;
                        if n > 70_000 {
                            break;
                        }
                    }
                    if n >= 2 {
                        classes.push("l3/jump/backward-loop-iterated".into());
                    }
                }
            }
            nontrivial = true;
        } else if c.fam == Fam::Set(FormSet::Transfer) && b.vals[9] % 6 == 4 && r[4] >= 0x40 && r[4] <= 0xFFC0 {
            // the 8086 stack across a CALL: the procedure pops what its caller pushed and leaves values behind (CALL and
            // RET of this emulator keep their return addresses elsewhere, so PUSH/POP pair up across them)
            let pn = format!("q_{}", k);
            let pool = [
                Insn::new("pop", vec![Opd::R16(R16::BX)]),
                Insn::new("push", vec![Opd::R16(R16::DI)]),
                Insn::new("push", vec![Opd::R16(R16::SI)]),
                Insn::new("pop", vec![Opd::R16(R16::DX)]),
                Insn::new("push", vec![Opd::R16(R16::BP)]),
            ];
            let body: Vec<Insn> = (0..2 + (b.vals[1] % 3) as usize).map(|j| pool[(b.vals[2] as usize + j * 2) % pool.len()].clone()).collect();
            let explicit_ret = b.vals[3] & 1 == 1;
            let mut items: Vec<Item> = body.iter().cloned().map(Item::Ins).collect();
            if explicit_ret {
                items.push(Item::Ins(Insn::new("ret", vec![])));
            }
            procs.push(Item::Proc { name: pn.clone(), body: items });
            let pre = [Insn::new("push", vec![Opd::R16(R16::AX)]), Insn::new("push", vec![Opd::R16(R16::CX)])];
            let post = [Insn::new("pop", vec![Opd::R16(R16::CX)]), Insn::new("pop", vec![Opd::R16(R16::AX)]), Insn::new("pop", vec![Opd::R16(R16::BX)])];
            for i in &pre {
                rn.run(i);
                code.push(Item::Ins(i.clone()));
            }
            code.push(Item::Ins(Insn::new("call", vec![Opd::Name(pn)])));
            for i in &body {
                rn.run(i);
            }
            for i in &post {
                rn.run(i);
                code.push(Item::Ins(i.clone()));
            }
            tested.push(format!("call (procedure body: {})", body.iter().map(canonical).collect::<Vec<_>>().join("; ")));
            classes.push("l3/stack-across-a-call".into());
            nontrivial = true;
        } else {
            let (nacc, e) = rn.exec(&insn);
            if nacc > 1 {
                // several results are acceptable (documented ambiguity): not decidable from one dump
                insn = Insn::new("nop", vec![]);
                classes.push("l3/ambiguous-replaced-by-nop".into());
                let (_, e2) = rn.exec(&insn);
                rn.apply(e2);
                code.push(Item::Ins(insn.clone()));
            } else {
                dc_regs = e.dc_regs;
                undef = e.undef_flags;
                let outcome = e.outcome.clone();
                rn.apply(e);
                // one plain instruction in five sits in a procedure of its own that is called twice, with the general
                // registers (and, for memory operands, DS) changed in between: the very same line of code runs from two
                // different machine states, so nothing that was derived from the first state may be used for the second
                let twice = matches!(outcome, Outcome::Next) && insn.prefix.is_none() && !strings && !matches!(insn.mn, "popf" | "push" | "pop" | "pushf" | "hlt" | "call" | "ret" | "int") && b.vals[8] % 5 == 0 && r[4] >= 0x40 && r[4] <= 0xFFC0;
                if twice {
                    let pn = format!("v_{}", k);
                    procs.push(Item::Proc { name: pn.clone(), body: vec![Item::Ins(insn.clone())] });
                    code.push(Item::Ins(Insn::new("call", vec![Opd::Name(pn.clone())])));
                    let mut second: Vec<Insn> = Vec::new();
                    if insn.mem_operand().is_some() || insn.label_operand().is_some() {
                        second.push(mov16(R16::AX, b.segs[0] ^ 0x0210));
                        second.push(movsr(Seg::DS, R16::AX));
                    }
                    for (j, reg) in [R16::AX, R16::BX, R16::CX, R16::DX, R16::SI, R16::DI].iter().enumerate() {
                        second.push(mov16(*reg, r[[0usize, 1, 2, 3, 6, 7][j]] ^ b.vals[j].rotate_left(3) ^ 0x0101));
                    }
                    let saved = (rn.mach.regs.clone(), rn.mach.mem.clone(), rn.mach.call_stack.clone());
                    for i in &second {
                        rn.run(i);
                    }
                    let (n2, e2) = rn.exec(&insn);
                    if n2 == 1 && matches!(e2.outcome, Outcome::Next) {
                        dc_regs |= e2.dc_regs;
                        undef |= e2.undef_flags;
                        rn.apply(e2);
                        for i in second {
                            code.push(Item::Ins(i));
                        }
                        code.push(Item::Ins(Insn::new("call", vec![Opd::Name(pn)])));
                        classes.push("l3/same-line-run-twice-from-different-states".into());
                        nontrivial = true;
                    } else {
                        // the second state would make the instruction ambiguous or fault: leave it at one execution
                        rn.mach.regs = saved.0;
                        rn.mach.mem = saved.1;
                        rn.mach.call_stack = saved.2;
                    }
                } else {
                    code.push(Item::Ins(insn.clone()));
                }
                classes.push(format!("l3/form/{}/{}", insn.mn, insn.form()));
                if insn.prefix.is_some() {
                    classes.push("l3/rep-prefix".into());
                    let left = rn.mach.regs.r[CX];
                    if left != 0 {
                        classes.push("l3/rep-stopped-early-with-cx-left".into());
                        if (r[2] - left) >= 2 {
                            classes.push("l3/rep-stopped-on-2nd-or-later-element".into());
                        }
                    }
                }
                if insn.mem_operand().is_some() || insn.label_operand().is_some() || strings {
                    nontrivial = true;
                }
                if let Outcome::Int(0) = outcome {
                    tested.push(canonical(&insn));
                    events.push(Ev::DivErr(0));
                    ev_block.push(k);
                    ev_undef.push(0);
                    events.push(Ev::Exiting);
                    ev_block.push(k);
                    ev_undef.push(0);
                    classes.push("l3/divide-error-ends-program".into());
                    break 'blocks;
                }
            }
            tested.push(canonical(&insn));
        }
        // ---- observation
        let mut pr = |rn: &Runner, code: &mut Vec<Item>, p: PrintStmt, und: u16| {
            events.push(Ev::PrintHdr(0));
            ev_block.push(k);
            ev_undef.push(0);
            events.push(ref_print(&p, &rn.mach.regs, rn.dense()));
            ev_block.push(k);
            ev_undef.push(und);
            code.push(Item::Print(p));
        };
        if dc_regs == 0 {
            pr(&rn, &mut code, PrintStmt::Reg, 0);
        }
        // the flags the manual leaves undefined after the tested instruction are masked out of the comparison
        let printable = OF | DF | IF | TF | SF | ZF | AF | PF | CF;
        if undef & printable != printable {
            pr(&rn, &mut code, PrintStmt::Flags, undef);
            if undef != 0 {
                classes.push("l3/flags-printed-with-undefined-bits-masked".into());
            }
        }
        let wins = changed_windows(&before, rn.dense());
        if !wins.is_empty() {
            classes.push("l3/memory-written".into());
        }
        for (lo, hi) in wins {
            pr(&rn, &mut code, PrintStmt::MemRange(lo, hi), 0);
        }
    }
    procs.extend(code);
    let code = procs;
    Built { prog: Program { data, code }, events, ev_block, ev_undef, classes, nontrivial, tested, long_loop: work > 2500, sets_tf }
}

pub fn layout_of(c: &FCase) -> Layout {
    Layout { choices: c.choices.clone(), comments: false, trailing_newline: true, pack_lines: false }
}

pub fn eval(prop: &str, c: &FCase, openq: &Quirks) -> CaseOutcome {
    let b = build(c, openq);
    let rendered = render_program(&b.prog, &layout_of(c));
    // one program in four is single-stepped (-i) with every prompt answered 'n': the prompt chatter is removed and
    // the rest must be what the plain run prints (stepping is transparent; a divide error still ends the program)
    let interpreted = c.choices.first().map(|x| x & 3 == 3).unwrap_or(false) && !b.long_loop;
    let stepped = interpreted || b.sets_tf;
    let script: Vec<u8> = if stepped { b"n\n".repeat(6000) } else { vec![] };
    let out = run_cli(rendered.text.as_bytes(), if stepped { Stdin::Data(&script) } else { Stdin::Closed }, interpreted, 16 << 20, 120_000);
    let exp = crate::c17::blank_lines(&normalise(&b.events));
    let replay = json!({"kind":"cli","source":rendered.text,"stdin":if stepped { "n\n".repeat(6000) } else { String::new() },"interpreted":interpreted,"blank_line_numbers":true,"drop_prompt_chatter":stepped,
        "tested": b.tested, "flag_masks": b.ev_undef, "expected_events": exp.iter().map(|e| format!("{:?}", e)).collect::<Vec<_>>()});
    match &out.status {
        Status::Timeout | Status::SpawnError(_) => return CaseOutcome::Inconclusive(format!("{:?}", out.status)),
        _ => {}
    }
    let lp = prop.to_lowercase();
    if !out.clean() {
        return CaseOutcome::Fail {
            key: format!("{}|l3|abnormal-exit", lp),
            what: format!("program of [{}] ended with status {:?}, stderr {:?}", b.tested.join("; "), out.status, out.err_str().lines().next().unwrap_or("")),
            replay,
        };
    }
    let toks = match tokenize(&out.stdout) {
        Ok(t) => t,
        Err(e) => return CaseOutcome::Fail { key: format!("{}|l3|unparsable-output", lp), what: format!("[{}]: {}", b.tested.join("; "), e), replay },
    };
    let toks: Vec<Ev> = if stepped { toks.into_iter().filter(|e| !matches!(e, Ev::About(_) | Ev::TrapNote | Ev::Prompt | Ev::Int3(_))).collect() } else { toks };
    let mut obs = crate::c17::blank_lines(&toks);
    let mut exp = exp;
    // undefined flag bits are not compared (events align index by index: the program prints a fixed sequence)
    for i in 0..exp.len().min(obs.len()).min(b.ev_undef.len()) {
        let m = b.ev_undef[i];
        if m != 0 {
            if let (Ev::Flags(e), Ev::Flags(o)) = (exp[i].clone(), obs[i].clone()) {
                exp[i] = Ev::Flags(e & !m);
                obs[i] = Ev::Flags(o & !m);
            }
        }
    }
    if exp != obs {
        let d = crate::c17::first_diff(&exp, &obs);
        let mut at = exp.len().min(obs.len());
        for i in 0..exp.len().min(obs.len()) {
            if exp[i] != obs[i] {
                at = i;
                break;
            }
        }
        // map the (normalised) event index back to a block: normalise only merges Chars events, of which there are none
        let blk = b.ev_block.get(at.min(b.ev_block.len().saturating_sub(1))).copied().unwrap_or(0);
        let ins = b.tested.get(blk).cloned().unwrap_or_default();
        let kind = if d.contains("Mem(") { "mem" } else if d.contains("Regs") { "reg" } else if d.contains("Flags") { "flags" } else { "events" };
        let mn = ins.split(|ch: char| ch == ' ' || ch == ',').next().unwrap_or("").to_string();
        return CaseOutcome::Fail { key: format!("{}|l3|{}|{}", lp, mn, kind), what: format!("through the CLI, block {} ('{}'): {}", blk, ins, d), replay };
    }
    let mut classes = b.classes;
    if interpreted {
        classes.push("l3/single-stepped".into());
    }
    if b.sets_tf {
        classes.push("l3/trap-flag-set-by-popf".into());
    }
    CaseOutcome::Pass { nontrivial: b.nontrivial, classes, digest: fnv_str(&rendered.text) ^ stepped as u64 }
}

/// run `n` family programs for the property that owns the family
pub fn run(ctx: &Ctx, fam: Fam, n: usize) {
    if !cli_available() {
        ctx.harness_error("CLI binary not built");
        return;
    }
    let openq = Quirks::from_keys(|k| ctx.quirk_open(k));
    let name = format!("l3-{}", match fam {
        Fam::Set(s) => format!("{:?}", s),
        Fam::Jumps => "Jumps".to_string(),
    });
    let prop = ctx.prop;
    run_cases(ctx, &name, n, || case_s(fam), |c| eval(prop, c, &openq), |c| {
        let b = build(c, &openq);
        json!({"kind":"l3-family-program","tested": b.tested, "source": render_program(&b.prog, &layout_of(c)).text})
    });
    ctx.assume("L3 family programs: a block whose tested instruction has several acceptable results (documented ambiguity) executes NOP instead; registers / flags the reference leaves undefined after the tested instruction are not printed; mnemonics touched by an open known finding are replaced by a sibling of the same operand form");
}
