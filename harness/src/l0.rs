//! L0: direct calls of the public instruction functions on a reused VM, compared with the
//! reference model.  Serves the value parts of C01, C02 and C03.
#![allow(dead_code)]
use crate::common::*;
use crate::emu::*;
use crate::refmodel::*;
use emulator_8086_lib as lib;
#[cfg(feature = "l0_direct")]
use lib::instructions::{arithmetic as ar, bit_manipulation as bm};

/// false when the harness had to be built without the direct calls of the instruction functions (their signatures in
/// the working tree differ from what the L0 tables expect): the sweeps are then skipped and L1 / L3 decide
pub const L0_DIRECT: bool = cfg!(feature = "l0_direct");
use lib::util::interpreter_util::{ByteOpBinary, ByteOpUnary, WordOpBinary, WordOpUnary};
use lib::VM;
use rayon::prelude::*;
use serde_json::json;
use std::collections::BTreeMap;

#[derive(Clone, Copy)]
pub enum Kind {
    Bin(Bin),
    Un(Un),
    Logic(Logic),
    Sh(Sh),
    Md(MulDiv),
    Adj(Adj),
}

#[derive(Clone, Copy)]
pub enum Imp {
    B8(ByteOpBinary),
    B16(WordOpBinary),
    U8(ByteOpUnary),
    U16(WordOpUnary),
    S(fn(&mut VM)),
}

#[derive(Clone, Copy)]
pub struct L0Fn {
    pub name: &'static str,
    pub w: u32,
    pub kind: Kind,
    pub imp: Imp,
}

pub fn bin_fns() -> Vec<L0Fn> {
    #[cfg(not(feature = "l0_direct"))]
    return Vec::new();
    #[cfg(feature = "l0_direct")]
    vec![
        L0Fn { name: "byte_add", w: 8, kind: Kind::Bin(Bin::Add), imp: Imp::B8(ar::byte_add) },
        L0Fn { name: "byte_adc", w: 8, kind: Kind::Bin(Bin::Adc), imp: Imp::B8(ar::byte_adc) },
        L0Fn { name: "byte_sub", w: 8, kind: Kind::Bin(Bin::Sub), imp: Imp::B8(ar::byte_sub) },
        L0Fn { name: "byte_sbb", w: 8, kind: Kind::Bin(Bin::Sbb), imp: Imp::B8(ar::byte_sbb) },
        L0Fn { name: "byte_cmp", w: 8, kind: Kind::Bin(Bin::Cmp), imp: Imp::B8(ar::byte_cmp) },
        L0Fn { name: "word_add", w: 16, kind: Kind::Bin(Bin::Add), imp: Imp::B16(ar::word_add) },
        L0Fn { name: "word_adc", w: 16, kind: Kind::Bin(Bin::Adc), imp: Imp::B16(ar::word_adc) },
        L0Fn { name: "word_sub", w: 16, kind: Kind::Bin(Bin::Sub), imp: Imp::B16(ar::word_sub) },
        L0Fn { name: "word_sbb", w: 16, kind: Kind::Bin(Bin::Sbb), imp: Imp::B16(ar::word_sbb) },
        L0Fn { name: "word_cmp", w: 16, kind: Kind::Bin(Bin::Cmp), imp: Imp::B16(ar::word_cmp) },
    ]
}
pub fn un_fns() -> Vec<L0Fn> {
    #[cfg(not(feature = "l0_direct"))]
    return Vec::new();
    #[cfg(feature = "l0_direct")]
    vec![
        L0Fn { name: "byte_inc", w: 8, kind: Kind::Un(Un::Inc), imp: Imp::U8(ar::byte_inc) },
        L0Fn { name: "byte_dec", w: 8, kind: Kind::Un(Un::Dec), imp: Imp::U8(ar::byte_dec) },
        L0Fn { name: "byte_neg", w: 8, kind: Kind::Un(Un::Neg), imp: Imp::U8(ar::byte_neg) },
        L0Fn { name: "word_inc", w: 16, kind: Kind::Un(Un::Inc), imp: Imp::U16(ar::word_inc) },
        L0Fn { name: "word_dec", w: 16, kind: Kind::Un(Un::Dec), imp: Imp::U16(ar::word_dec) },
        L0Fn { name: "word_neg", w: 16, kind: Kind::Un(Un::Neg), imp: Imp::U16(ar::word_neg) },
    ]
}
pub fn logic_fns() -> Vec<L0Fn> {
    #[cfg(not(feature = "l0_direct"))]
    return Vec::new();
    #[cfg(feature = "l0_direct")]
    vec![
        L0Fn { name: "byte_and", w: 8, kind: Kind::Logic(Logic::And), imp: Imp::B8(bm::byte_and) },
        L0Fn { name: "byte_or", w: 8, kind: Kind::Logic(Logic::Or), imp: Imp::B8(bm::byte_or) },
        L0Fn { name: "byte_xor", w: 8, kind: Kind::Logic(Logic::Xor), imp: Imp::B8(bm::byte_xor) },
        L0Fn { name: "byte_test", w: 8, kind: Kind::Logic(Logic::Test), imp: Imp::B8(bm::byte_test) },
        L0Fn { name: "word_and", w: 16, kind: Kind::Logic(Logic::And), imp: Imp::B16(bm::word_and) },
        L0Fn { name: "word_or", w: 16, kind: Kind::Logic(Logic::Or), imp: Imp::B16(bm::word_or) },
        L0Fn { name: "word_xor", w: 16, kind: Kind::Logic(Logic::Xor), imp: Imp::B16(bm::word_xor) },
        L0Fn { name: "word_test", w: 16, kind: Kind::Logic(Logic::Test), imp: Imp::B16(bm::word_test) },
    ]
}
pub fn shift_fns() -> Vec<L0Fn> {
    #[cfg(not(feature = "l0_direct"))]
    return Vec::new();
    #[cfg(feature = "l0_direct")]
    vec![
        L0Fn { name: "byte_sal", w: 8, kind: Kind::Sh(Sh::Shl), imp: Imp::B8(bm::byte_sal) },
        L0Fn { name: "byte_shr", w: 8, kind: Kind::Sh(Sh::Shr), imp: Imp::B8(bm::byte_shr) },
        L0Fn { name: "byte_sar", w: 8, kind: Kind::Sh(Sh::Sar), imp: Imp::B8(bm::byte_sar) },
        L0Fn { name: "byte_rol", w: 8, kind: Kind::Sh(Sh::Rol), imp: Imp::B8(bm::byte_rol) },
        L0Fn { name: "byte_ror", w: 8, kind: Kind::Sh(Sh::Ror), imp: Imp::B8(bm::byte_ror) },
        L0Fn { name: "byte_rcl", w: 8, kind: Kind::Sh(Sh::Rcl), imp: Imp::B8(bm::byte_rcl) },
        L0Fn { name: "byte_rcr", w: 8, kind: Kind::Sh(Sh::Rcr), imp: Imp::B8(bm::byte_rcr) },
        L0Fn { name: "word_sal", w: 16, kind: Kind::Sh(Sh::Shl), imp: Imp::B16(bm::word_sal) },
        L0Fn { name: "word_shr", w: 16, kind: Kind::Sh(Sh::Shr), imp: Imp::B16(bm::word_shr) },
        L0Fn { name: "word_sar", w: 16, kind: Kind::Sh(Sh::Sar), imp: Imp::B16(bm::word_sar) },
        L0Fn { name: "word_rol", w: 16, kind: Kind::Sh(Sh::Rol), imp: Imp::B16(bm::word_rol) },
        L0Fn { name: "word_ror", w: 16, kind: Kind::Sh(Sh::Ror), imp: Imp::B16(bm::word_ror) },
        L0Fn { name: "word_rcl", w: 16, kind: Kind::Sh(Sh::Rcl), imp: Imp::B16(bm::word_rcl) },
        L0Fn { name: "word_rcr", w: 16, kind: Kind::Sh(Sh::Rcr), imp: Imp::B16(bm::word_rcr) },
    ]
}
pub fn md_fns() -> Vec<L0Fn> {
    #[cfg(not(feature = "l0_direct"))]
    return Vec::new();
    #[cfg(feature = "l0_direct")]
    vec![
        L0Fn { name: "byte_mul", w: 8, kind: Kind::Md(MulDiv::Mul), imp: Imp::U8(ar::byte_mul) },
        L0Fn { name: "byte_imul", w: 8, kind: Kind::Md(MulDiv::Imul), imp: Imp::U8(ar::byte_imul) },
        L0Fn { name: "byte_div", w: 8, kind: Kind::Md(MulDiv::Div), imp: Imp::U8(ar::byte_div) },
        L0Fn { name: "byte_idiv", w: 8, kind: Kind::Md(MulDiv::Idiv), imp: Imp::U8(ar::byte_idiv) },
        L0Fn { name: "word_mul", w: 16, kind: Kind::Md(MulDiv::Mul), imp: Imp::U16(ar::word_mul) },
        L0Fn { name: "word_imul", w: 16, kind: Kind::Md(MulDiv::Imul), imp: Imp::U16(ar::word_imul) },
        L0Fn { name: "word_div", w: 16, kind: Kind::Md(MulDiv::Div), imp: Imp::U16(ar::word_div) },
        L0Fn { name: "word_idiv", w: 16, kind: Kind::Md(MulDiv::Idiv), imp: Imp::U16(ar::word_idiv) },
    ]
}
pub fn adj_fns() -> Vec<L0Fn> {
    #[cfg(not(feature = "l0_direct"))]
    return Vec::new();
    #[cfg(feature = "l0_direct")]
    vec![
        L0Fn { name: "aaa", w: 8, kind: Kind::Adj(Adj::Aaa), imp: Imp::S(ar::aaa) },
        L0Fn { name: "aas", w: 8, kind: Kind::Adj(Adj::Aas), imp: Imp::S(ar::aas) },
        L0Fn { name: "daa", w: 8, kind: Kind::Adj(Adj::Daa), imp: Imp::S(ar::daa) },
        L0Fn { name: "das", w: 8, kind: Kind::Adj(Adj::Das), imp: Imp::S(ar::das) },
        L0Fn { name: "aam", w: 8, kind: Kind::Adj(Adj::Aam), imp: Imp::S(ar::aam) },
        L0Fn { name: "aad", w: 8, kind: Kind::Adj(Adj::Aad), imp: Imp::S(ar::aad) },
        L0Fn { name: "cbw", w: 8, kind: Kind::Adj(Adj::Cbw), imp: Imp::S(ar::cbw) },
        L0Fn { name: "cwd", w: 16, kind: Kind::Adj(Adj::Cwd), imp: Imp::S(ar::cwd) },
    ]
}

/// one evaluation point
#[derive(Clone, Copy, Debug, PartialEq, Eq)]
pub struct Point {
    /// first operand (destination / value / AX for adjusts)
    pub a: u32,
    /// second operand (source / count / unary operand for mul,div)
    pub b: u32,
    /// DX (word mul/div)
    pub dx: u16,
    /// complete prior flag word (CF_in is bit 0)
    pub flags: u16,
}

/// what differed
#[derive(Clone, Debug)]
pub struct Mismatch {
    pub aspect: String,
    pub detail: String,
}

pub const FLAG_BITS: [(u16, &str); 6] = [(CF, "CF"), (PF, "PF"), (AF, "AF"), (ZF, "ZF"), (SF, "SF"), (OF, "OF")];

fn flag_aspect(diff: u16) -> String {
    let mut names = Vec::new();
    for (m, n) in FLAG_BITS {
        if diff & m != 0 {
            names.push(n);
        }
    }
    if diff & !STATUS != 0 {
        names.push("nonstatus");
    }
    names.join("+")
}

/// base register values used for every L0 call; everything except what the function is
/// defined to touch must come back unchanged
pub fn base_regs() -> Regs {
    let mut r = Regs::default();
    r.r = [
        0x1234, 0x5678, 0x9ABC, 0xDEF0, 0x1357, 0x2468, 0x369C, 0x48D0, 0xFFFF, 0x0123, 0x0456,
        0x0789, 0, 0x0042,
    ];
    r
}

/// Evaluate one point of one function against the reference.
/// Ok(()) = agrees; Err(mismatch) otherwise.
pub fn eval(vm: &mut VM, f: &L0Fn, p: &Point, q: &Quirks) -> Result<(), Mismatch> {
    let w = f.w;
    let m = mask_w(w);
    let mut pre = base_regs();
    pre.r[FLAGS] = p.flags;
    let cf_in = p.flags & CF != 0;
    // expected register file after the call
    let mut exp = pre;
    // expected return value (None when not applicable)
    let mut exp_ret: Option<u32> = None;
    let mut undef: u16 = 0;
    let mut expect_div_error = false;
    let mut either_ok: Option<(u16, u16)> = None;
    let mut accept: Vec<AdjOut> = Vec::new();
    match f.kind {
        Kind::Bin(op) => {
            let r = bin(op, p.a & m, p.b & m, cf_in, w);
            exp.r[FLAGS] = (p.flags & !r.defined) | (r.flags & r.defined);
            exp_ret = Some(if op == Bin::Cmp { p.a & m } else { r.res });
        }
        Kind::Un(op) => {
            let r = un(op, p.a & m, p.flags, w, q);
            exp.r[FLAGS] = (p.flags & !r.defined) | (r.flags & r.defined);
            exp_ret = Some(r.res);
        }
        Kind::Logic(op) => {
            let r = logic(op, p.a & m, p.b & m, w);
            exp.r[FLAGS] = (p.flags & !(r.defined | AF)) | (r.flags & r.defined);
            undef = AF;
            exp_ret = Some(if op == Logic::Test { p.a & m } else { r.res });
        }
        Kind::Sh(op) => {
            let r = shift(op, p.a & m, p.b & 0xFF, cf_in, w);
            exp.r[FLAGS] = (p.flags & !(r.defined | r.undef)) | (r.flags & r.defined);
            undef = r.undef;
            exp_ret = Some(r.res);
        }
        Kind::Md(op) => {
            pre.r[AX] = p.a as u16;
            pre.r[DX] = p.dx;
            exp = pre;
            match muldiv(op, w, p.a as u16, p.dx, p.b & m, q) {
                MdOut::Ok { ax, dx, flags, defined } => {
                    exp.r[AX] = ax;
                    exp.r[DX] = dx;
                    let und = match op {
                        MulDiv::Mul | MulDiv::Imul => SF | ZF | AF | PF,
                        _ => STATUS,
                    };
                    undef = und & !defined;
                    exp.r[FLAGS] = (p.flags & !(defined | undef)) | (flags & defined);
                }
                MdOut::DivideError => {
                    expect_div_error = true;
                }
                MdOut::Either { ax, dx } => {
                    either_ok = Some((ax, dx));
                    undef = STATUS;
                }
            }
            exp_ret = Some(p.b & m); // operand itself must not be modified
        }
        Kind::Adj(op) => {
            pre.r[AX] = p.a as u16;
            pre.r[DX] = p.dx;
            exp = pre;
            accept = adjust(op, p.a as u16, p.dx, p.flags);
        }
    }
    load(vm, &pre);
    // call
    let imp = f.imp;
    let a = p.a;
    let b = p.b;
    let res: Result<(Option<u32>, bool), String> = catch(|| match imp {
        Imp::B8(g) => (Some(g(vm, a as u8, b as u8) as u32), false),
        Imp::B16(g) => (Some(g(vm, a as u16, b as u16) as u32), false),
        Imp::U8(g) => {
            let mut v = if matches!(f.kind, Kind::Md(_)) { b as u8 } else { a as u8 };
            let r = g(vm, &mut v);
            (Some(v as u32), r.is_err())
        }
        Imp::U16(g) => {
            let mut v = if matches!(f.kind, Kind::Md(_)) { b as u16 } else { a as u16 };
            let r = g(vm, &mut v);
            (Some(v as u32), r.is_err())
        }
        Imp::S(g) => {
            g(vm);
            (None, false)
        }
    });
    let (ret, div_err) = match res {
        Err(msg) => {
            return Err(Mismatch {
                aspect: "panic".into(),
                detail: panic_class(&msg),
            })
        }
        Ok(x) => x,
    };
    let obs = snap(vm);
    if expect_div_error {
        if !div_err {
            return Err(Mismatch {
                aspect: "no-divide-error".into(),
                detail: format!("expected INT 0, got ax={:04X} dx={:04X}", obs.r[AX], obs.r[DX]),
            });
        }
        // registers after a divide error are not compared (except non-accumulator ones)
        let mut o2 = obs;
        o2.r[AX] = pre.r[AX];
        o2.r[DX] = pre.r[DX];
        o2.r[FLAGS] = pre.r[FLAGS];
        if o2 != pre {
            return Err(Mismatch {
                aspect: "regs".into(),
                detail: pre.diff(&o2).join("; "),
            });
        }
        return Ok(());
    }
    if div_err {
        if either_ok.is_some() {
            return Ok(());
        }
        return Err(Mismatch {
            aspect: "spurious-divide-error".into(),
            detail: "INT 0 although the quotient fits".into(),
        });
    }
    if let Some((ax, dx)) = either_ok {
        exp.r[AX] = ax;
        exp.r[DX] = dx;
        exp.r[FLAGS] = p.flags;
    }
    if !accept.is_empty() {
        // accept-set comparison
        let mut last: Option<Mismatch> = None;
        for a in &accept {
            let und = match f.kind {
                Kind::Adj(Adj::Aaa) | Kind::Adj(Adj::Aas) => OF | SF | ZF | PF,
                Kind::Adj(Adj::Daa) | Kind::Adj(Adj::Das) => OF,
                Kind::Adj(Adj::Aam) | Kind::Adj(Adj::Aad) => OF | AF | CF,
                _ => 0,
            };
            let mut e = pre;
            e.r[AX] = a.ax;
            e.r[DX] = a.dx;
            e.r[FLAGS] = (p.flags & !(a.defined | und)) | (a.flags & a.defined);
            match cmp_regs(&e, &obs, und) {
                Ok(()) => return Ok(()),
                Err(mm) => last = Some(mm),
            }
        }
        return Err(last.unwrap());
    }
    if let (Some(er), Some(or)) = (exp_ret, ret) {
        if er & m != or & m {
            return Err(Mismatch {
                aspect: "result".into(),
                detail: format!("expected {:X} observed {:X}", er & m, or & m),
            });
        }
    }
    cmp_regs(&exp, &obs, undef)
}

fn cmp_regs(exp: &Regs, obs: &Regs, undef: u16) -> Result<(), Mismatch> {
    let fd = (exp.r[FLAGS] ^ obs.r[FLAGS]) & !undef;
    for i in 0..14 {
        if i != FLAGS && exp.r[i] != obs.r[i] {
            return Err(Mismatch {
                aspect: format!("reg-{}", REG_NAMES[i]),
                detail: format!("expected {:04X} observed {:04X}", exp.r[i], obs.r[i]),
            });
        }
    }
    if fd != 0 {
        return Err(Mismatch {
            aspect: flag_aspect(fd),
            detail: format!(
                "flags expected {:04X} observed {:04X} (undefined mask {:04X})",
                exp.r[FLAGS], obs.r[FLAGS], undef
            ),
        });
    }
    Ok(())
}

/// statistics of one sweep over one function
#[derive(Default)]
pub struct Bucket {
    pub n: u64,
    pub first: Option<Point>,
    pub detail: String,
    pub digest: u64,
}

#[derive(Default)]
pub struct SweepOut {
    pub evals: u64,
    pub nontrivial: u64,
    pub known: u64,
    pub buckets: BTreeMap<String, Bucket>,
    pub sample: Option<Point>,
}

impl SweepOut {
    pub fn merge(mut self, o: SweepOut) -> SweepOut {
        self.evals += o.evals;
        self.nontrivial += o.nontrivial;
        self.known += o.known;
        for (k, b) in o.buckets {
            let e = self.buckets.entry(k).or_default();
            e.n += b.n;
            e.digest ^= b.digest;
            let better = match (&e.first, &b.first) {
                (None, Some(_)) => true,
                (Some(x), Some(y)) => (y.a, y.b, y.flags) < (x.a, x.b, x.flags),
                _ => false,
            };
            if better {
                e.first = b.first;
                e.detail = b.detail;
            }
        }
        if self.sample.is_none() {
            self.sample = o.sample;
        }
        self
    }
}

/// which open quirk may explain a mismatch of this function
pub fn quirk_key_for(f: &L0Fn) -> Option<&'static str> {
    match f.kind {
        Kind::Un(Un::Inc) | Kind::Un(Un::Dec) => Some(QUIRK_KEYS[0]),
        Kind::Un(Un::Neg) => Some(QUIRK_KEYS[1]),
        Kind::Md(MulDiv::Imul) if f.w == 8 => Some(QUIRK_KEYS[2]),
        _ => None,
    }
}

/// evaluate one point inside a sweep, with quirk attribution
#[inline]
pub fn sweep_point(vm: &mut VM, f: &L0Fn, p: &Point, openq: &Quirks, out: &mut SweepOut, nontrivial: bool) {
    out.evals += 1;
    if nontrivial {
        out.nontrivial += 1;
    }
    if out.sample.is_none() && nontrivial {
        out.sample = Some(*p);
    }
    match eval(vm, f, p, &Quirks::none()) {
        Ok(()) => {}
        Err(mm) => {
            if openq.any() && quirk_key_for(f).is_some() && eval(vm, f, p, openq).is_ok() {
                out.known += 1;
                return;
            }
            // coarse bucket: all flag combinations together
            let coarse = if mm.aspect.chars().next().map(|c| c.is_ascii_uppercase()).unwrap_or(false) || mm.aspect == "nonstatus" { "flags".to_string() } else { mm.aspect.clone() };
            let detail = format!("[{}] {}", mm.aspect, mm.detail);
            let mm = Mismatch { aspect: coarse, detail };
            let b = out.buckets.entry(mm.aspect.clone()).or_default();
            b.n += 1;
            b.digest ^= splitmix(((p.a as u64) << 32) ^ ((p.b as u64) << 8) ^ ((p.flags as u64) << 48) ^ p.dx as u64);
            let better = match &b.first {
                None => true,
                Some(x) => (p.a, p.b, p.flags) < (x.a, x.b, x.flags),
            };
            if better {
                b.first = Some(*p);
                b.detail = mm.detail;
            }
        }
    }
}

pub fn point_json(f: &L0Fn, p: &Point) -> serde_json::Value {
    json!({"kind":"l0","fn":f.name,"a":p.a,"b":p.b,"dx":p.dx,"flags":p.flags})
}

/// turn sweep buckets into failures / known hits on the context
pub fn report(ctx: &Ctx, f: &L0Fn, sweep: &str, out: SweepOut, openq: &Quirks) {
    ctx.add_evals(out.evals);
    ctx.add_nontrivial(out.nontrivial);
    ctx.class(&format!("l0/{}/{}", sweep, f.name), out.evals);
    if out.known > 0 {
        if let Some(k) = quirk_key_for(f) {
            let _ = openq;
            ctx.known_hit(k, out.known);
        }
    }
    if let Some(p) = out.sample {
        if ctx.samples_len() < 12 {
            ctx.sample(point_json(f, &p));
        }
    }
    for (aspect, b) in out.buckets {
        let p = b.first.unwrap();
        ctx.fail(Failure {
            key: format!("l0|{}|{}", f.name, aspect),
            what: format!(
                "{} disagrees with the 8086 reference in {} at {} point(s) of sweep '{}' (set digest {:016x}); smallest: a={:#X} b={:#X} dx={:#X} flags_in={:04X}: {}",
                f.name, aspect, b.n, sweep, b.digest, p.a, p.b, p.dx, p.flags, b.detail
            ),
            replay: point_json(f, &p),
        });
    }
}

/// run `body(chunk_index, vm, out)` for chunk_index in 0..chunks in parallel with one VM per
/// worker, and merge
pub fn par_sweep<F>(chunks: u32, body: F) -> SweepOut
where
    F: Fn(u32, &mut VM, &mut SweepOut) + Sync + Send,
{
    (0..chunks)
        .into_par_iter()
        .map_init(
            || VM::new(),
            |vm, c| {
                let mut out = SweepOut::default();
                body(c, vm, &mut out);
                // the functions swept at L0 never write memory: check once per chunk
                if !mem_all_zero(vm) {
                    let b = out.buckets.entry("memory-write".into()).or_default();
                    b.n += 1;
                    b.first = Some(Point { a: c, b: 0, dx: 0, flags: 0 });
                    b.detail = format!("memory modified during chunk {}", c);
                    for x in vm.mem.iter_mut() {
                        *x = 0;
                    }
                }
                out
            },
        )
        .reduce(SweepOut::default, |a, b| a.merge(b))
}

pub fn replay_point(v: &serde_json::Value) -> Result<String, String> {
    let name = v.get("fn").and_then(|x| x.as_str()).ok_or("no fn")?;
    let all: Vec<L0Fn> = bin_fns()
        .into_iter()
        .chain(un_fns())
        .chain(logic_fns())
        .chain(shift_fns())
        .chain(md_fns())
        .chain(adj_fns())
        .collect();
    let f = all.iter().find(|f| f.name == name).ok_or("unknown fn")?;
    let g = |k: &str| v.get(k).and_then(|x| x.as_u64()).unwrap_or(0);
    let p = Point { a: g("a") as u32, b: g("b") as u32, dx: g("dx") as u16, flags: g("flags") as u16 };
    let mut vm = VM::new();
    match eval(&mut vm, f, &p, &Quirks::none()) {
        Ok(()) => Ok(format!("{} {:?}: agrees with the reference", name, p)),
        Err(mm) => Err(format!("{} {:?}: {} -- {}", name, p, mm.aspect, mm.detail)),
    }
}
