//! C09 -- executing any instruction in any machine state is total and stays inside 1 MiB.
use crate::asm::*;
use crate::common::*;
use crate::emu::*;
use crate::l1::*;
use crate::pt;
use crate::refmodel::*;
use proptest::prelude::*;
use rayon::prelude::*;
use serde_json::json;

fn adv_u16() -> BoxedStrategy<u16> {
    prop_oneof![
        6 => proptest::sample::select(vec![0u16, 1, 0x7FFF, 0x8000, 0xFFFE, 0xFFFF]),
        2 => any::<u16>(),
    ]
    .boxed()
}

fn adv_regs() -> BoxedStrategy<Regs> {
    (proptest::collection::vec(adv_u16(), 12), pt::flagword(), 0u8..6)
        .prop_map(|(v, f, segc)| {
            let mut r = Regs::default();
            for i in 0..12 {
                r.r[i] = v[i];
            }
            // segments that make seg*16+off straddle 2^20
            match segc {
                1 => {
                    r.r[DS] = 0xFFFF;
                    r.r[ES] = 0xFFFF;
                    r.r[SS] = 0xFFFF;
                }
                2 => {
                    r.r[DS] = 0xF001;
                    r.r[ES] = 0xFFF0;
                    r.r[SS] = 0xFFFE;
                }
                _ => {}
            }
            r.r[FLAGS] = f;
            r
        })
        .boxed()
}

/// (shape index in lo..hi, adversarial registers, address fix-up classes, value at the operand, call stack non-empty, label offset class)
pub fn shape_case_s(lo: usize, hi: usize) -> BoxedStrategy<(usize, Regs, Fix, Option<u16>, bool, u16)> {
    (lo..hi, adv_regs(), fix_s(), proptest::option::weighted(0.6, proptest::sample::select(vec![0u16, 1, 0xFFFF, 0x00FF, 0x8000, 0x7FFF])), any::<bool>(), 0u16..4)
        .prop_map(|(i, regs, fix, memval, cs, lo)| (i, regs, fix, memval, cs, lo))
        .boxed()
}

pub const LABEL_OFFS: [u16; 4] = [0u16, 1, 0xFFFD, 0x8000];

pub fn run(ctx: &Ctx) {
    ctx.set_rule("every shape of the enumerator (all instruction forms the assembler can emit) x proptest-generated adversarial machine states: each register from {0,1,7FFFh,8000h,FFFEh,FFFFh,random}, segments FFFFh/F001h/FFF0h so that seg*16+off straddles 2^20, operand addresses constructed onto FFFFEh..100001h and offsets onto FFFEh..1, SS:SP / DS:SI / ES:DI / DS:BX+AL boundary classes, counts 0..255, divisors 0/1/-1 placed at the operand, empty and non-empty call stack; built with overflow checks; oracle: no panic, a defined outcome, and every changed memory byte explained by the reference model's wrapped addresses (whole-memory comparison). Non-trivial = operand address within +-2 of 2^20, SP/SI/DI step wrapping 16 bits, count >= width, or a divide-error input.");
    ctx.assume("value-level disagreements (a wrong flag or result at a correct location) are the subject of C01-C07 and are not counted here");
    ctx.set_exhaustive(false);
    let openq = Quirks::from_keys(|k| ctx.quirk_open(k));
    let shapes = enumerate_shapes();
    let per_shape: u32 = ctx.tier.pick(40, 600);
    let nshapes = shapes.len();
    let shards = 16usize;
    let results: Vec<(Local, Vec<Failure>)> = (0..shards)
        .into_par_iter()
        .map(|sh| {
            let wk = std::cell::RefCell::new(Worker::new());
            let local = std::cell::RefCell::new(Local::default());
            let mut fails: Vec<Failure> = Vec::new();
            let lo = sh * nshapes / shards;
            let hi = (sh + 1) * nshapes / shards;
            let shapes_ref = &shapes;
            let strat = shape_case_s(lo, hi);
            let cases = (hi - lo) as u32 * per_shape;
            let r = pt::run(ctx.sub_seed("c09", sh as u64), cases, &strat, |(i, regs, fix, memval, cs, lo), counting| {
                let insn = shapes_ref[*i].clone();
                let label_off = [0u16, 1, 0xFFFD, 0x8000][*lo as usize];
                let case = Case { insn, regs: *regs, fix: *fix, memval: *memval, choices: vec![0], label_off, pre_mem: vec![], exact: false };
                let stack: Vec<usize> = if *cs { vec![7] } else { vec![] };
                let v = run_case(&mut wk.borrow_mut(), &case, &openq, &stack);
                let mut l = local.borrow_mut();
                if counting {
                    l.evals += 1;
                }
                match v {
                    Verdict::Pass { nontrivial, classes } => {
                        if counting {
                            for c in classes {
                                if c.starts_with("ea/") {
                                    l.class(&c);
                                }
                            }
                            let nt = nontrivial && (fix.phys_class != 0 || fix.off_class != 0 || fix.sp_class != 0 || fix.str_class != 0 || memval.is_some());
                            if nt {
                                l.digests.push(splitmix((*i as u64) << 32 ^ fnv64(&regs.r.iter().flat_map(|x| x.to_le_bytes()).collect::<Vec<u8>>())));
                            }
                        }
                        Ok(())
                    }
                    Verdict::Rejected(_) => {
                        if counting {
                            l.class("assembler-rejected");
                        }
                        Ok(())
                    }
                    Verdict::Known(k) => {
                        if counting {
                            l.known(k);
                        }
                        Ok(())
                    }
                    Verdict::Fail { aspect, detail, .. } => {
                        if matches!(aspect.as_str(), "panic" | "interp-reject" | "repeat-runaway" | "memory" | "outcome" | "assembler-panic" | "emitted-count") {
                            Err(format!("{}|{}", aspect, detail))
                        } else {
                            if counting {
                                l.class("value-disagreement-left-to-C01-C07");
                            }
                            Ok(())
                        }
                    }
                }
            });
            if let Some(((i, regs, fix, memval, cs, lo), _)) = r {
                let insn = shapes[i].clone();
                let label_off = [0u16, 1, 0xFFFD, 0x8000][lo as usize];
                let case = Case { insn, regs, fix, memval, choices: vec![0], label_off, pre_mem: vec![], exact: false };
                let stack: Vec<usize> = if cs { vec![7] } else { vec![] };
                let mut wk2 = Worker::new();
                if let Verdict::Fail { aspect, detail, replay } = run_case(&mut wk2, &case, &openq, &stack) {
                    fails.push(Failure {
                        key: format!("c09|{}|{}|{}", case.insn.mn, case.insn.form(), aspect),
                        what: format!("{}: {}", canonical(&case.insn), detail),
                        replay,
                    });
                }
            }
            (local.into_inner(), fails)
        })
        .collect();
    for (l, fails) in results {
        l.merge_into(ctx);
        for f in fails {
            ctx.fail(f);
        }
    }
    ctx.extra("shape_count", json!(nshapes));
    for c in ["ea/phys-wrap", "ea/word-straddles-2^20", "ea/offset-top"] {
        ctx.require_class(c, 50);
    }
    ctx.sample(json!({"kind":"c09","shape":canonical(&shapes[100]),"state":"regs from {0,1,7FFF,8000,FFFE,FFFF,random}, DS=ES=SS=FFFF"}));
    ctx.sample(json!({"kind":"c09","shape":canonical(&shapes[nshapes-40]),"state":"adversarial"}));
    if ctx.tier == Tier::Thorough {
        crate::fuzzrun::exec_campaign(ctx, &[], &["panic", "interp-reject", "repeat-runaway", "memory", "outcome", "assembler-panic", "emitted-count"]);
    }
    crate::c09cli::run(ctx);
}
