//! C16 -- diagnostics and run-time messages cite the source line that caused them.
use crate::asm::*;
use crate::cli::*;
use crate::clicheck::*;
use crate::common::*;
use crate::gen::*;
use crate::pipeline::*;
use crate::progs::*;
use crate::refmodel::Quirks;
use emulator_8086_lib::LexerHelper;
use proptest::prelude::*;
use serde_json::{json, Value};

// ------------------------------------------------------------------ programs with known positions

#[derive(Clone, Debug)]
pub struct PCase16 {
    pub g: GenCfg,
    pub choices: Vec<u8>,
    pub comments: bool,
    pub pack: bool,
    pub trailing_newline: bool,
    /// positions (selectors) of macro uses to insert, and their nesting (1 or 2)
    pub macro_uses: Vec<(u16, bool)>,
    /// 0 none, 1 divide error, 2 unsupported AH for int 21h, 3 for int 10h
    pub fault: u8,
    pub interpreted: bool,
}

pub fn pcase_s() -> BoxedStrategy<PCase16> {
    (
        gencfg_s(14, 3),
        proptest::collection::vec(any::<u8>(), 32),
        any::<bool>(),
        any::<bool>(),
        any::<bool>(),
        proptest::collection::vec((any::<u16>(), any::<bool>()), 0..4),
        prop_oneof![3 => Just(0u8), 1 => Just(1u8), 1 => Just(2u8), 1 => Just(3u8)],
        prop_oneof![3 => Just(false), 1 => Just(true)],
        any::<bool>(),
    )
        .prop_map(|(mut g, choices, comments, pack, trailing_newline, macro_uses, fault, interpreted, stepping)| {
            g.with_prints = true;
            g.stepping = stepping;
            g.label_before_proc = false;
            PCase16 { g, choices, comments, pack, trailing_newline, macro_uses, fault, interpreted }
        })
        .boxed()
}

fn nop_like(r: &'static str) -> Vec<Insn> {
    // no flag, no register changes: safe anywhere, also between a compare and its jump
    let reg = match r {
        "si" => R16::SI,
        _ => R16::DI,
    };
    vec![Insn::new("mov", vec![Opd::R16(reg), Opd::R16(reg)]), Insn::new("nop", vec![])]
}

pub fn build16(c: &PCase16) -> Program {
    let mut prog = build_program(&c.g);
    // macros: m1 expands to two instructions, m2 uses m1 and adds one more (nesting depth 2)
    let mut defs = vec![
        Item::MacroDef { name: "m1".into(), params: vec!["a".into()], body_src: " mov a,a nop ".into() },
        Item::MacroDef { name: "m2".into(), params: vec!["b".into()], body_src: " m1 (b) nop ".into() },
    ];
    // insert uses at top-level positions of the main part (after start) and inside procedure bodies
    let start_idx = prog.code.iter().position(|i| matches!(i, Item::Label(n) if n == "start")).unwrap_or(0);
    for (sel, nested) in &c.macro_uses {
        let reg: &'static str = if *sel & 1 == 0 { "si" } else { "di" };
        let mut exp = nop_like(reg);
        let item = if *nested {
            exp.push(Insn::new("nop", vec![]));
            Item::MacroUse { name: "m2".into(), args: vec![reg.into()], expands_to: exp }
        } else {
            Item::MacroUse { name: "m1".into(), args: vec![reg.into()], expands_to: exp }
        };
        let in_proc = *sel % 5 == 0;
        let mut placed = false;
        if in_proc {
            for it in prog.code.iter_mut() {
                if let Item::Proc { body, .. } = it {
                    let at = crate::pt::idx(*sel, body.len() + 1);
                    body.insert(at, item.clone());
                    placed = true;
                    break;
                }
            }
        }
        if !placed {
            let lo = start_idx + 1;
            let at = lo + crate::pt::idx(*sel, prog.code.len() - lo + 1);
            prog.code.insert(at.min(prog.code.len()), item);
        }
    }
    // run-time fault as the last executed statement of the main part
    let tail: Vec<Item> = match c.fault {
        1 => vec![Item::Ins(Insn::new("mov", vec![Opd::R8(R8::CL), Opd::Imm(0, ImmKind::SB)])), Item::Ins(Insn::new("div", vec![Opd::R8(R8::CL)]))],
        2 => vec![Item::Ins(Insn::new("mov", vec![Opd::R8(R8::AH), Opd::Imm(0x77, ImmKind::SB)])), Item::Ins(Insn::new("int", vec![Opd::Imm(0x21, ImmKind::UB)]))],
        3 => vec![Item::Ins(Insn::new("mov", vec![Opd::R8(R8::AH), Opd::Imm(0x55, ImmKind::SB)])), Item::Ins(Insn::new("int", vec![Opd::Imm(0x10, ImmKind::UB)]))],
        _ => vec![],
    };
    if !tail.is_empty() {
        if c.g.start_pos == 2 {
            prog.code.extend(tail);
        } else {
            // before a trailing label, if any: the end of the main part
            let at = if matches!(prog.code.last(), Some(Item::Label(_))) && c.g.trailing_label { prog.code.len() - 1 } else { prog.code.len() };
            for (k, t) in tail.into_iter().enumerate() {
                prog.code.insert(at + k, t);
            }
        }
    }
    if c.macro_uses.is_empty() {
        // no definitions either: the first line of the file is then an ordinary statement
        return prog;
    }
    defs.append(&mut prog.code);
    prog.code = defs;
    prog
}

fn layout_of(c: &PCase16) -> crate::progs::Layout {
    crate::progs::Layout { choices: c.choices.clone(), comments: c.comments, trailing_newline: c.trailing_newline, pack_lines: c.pack }
}

/// text of line `n` (1-based) of the comment-stripped source, trailing blanks removed
fn line_text(stripped: &str, n: usize) -> String {
    stripped.split('\n').nth(n - 1).unwrap_or("").trim_end().to_string()
}

// ------------------------------------------------------------------ (A) source map, in-process

pub fn eval_map(c: &PCase16) -> CaseOutcome {
    if !DRIVER_SRC {
        return CaseOutcome::Pass { nontrivial: false, classes: vec!["c16/skipped-driver-modules-unavailable".into()], digest: 0 };
    }
    let prog = build16(c);
    let r = render_program(&prog, &layout_of(c));
    let stripped = strip_comments(&r.text);
    let want_lines: Vec<usize> = r.flat_offsets.iter().map(|o| r.line_of(*o)).collect();
    let replay = json!({"kind":"c16-map","source":r.text,"expected_lines":want_lines});
    let asm = match assemble(&stripped) {
        Ok(a) => a,
        Err(e) => return CaseOutcome::Fail { key: "c16|map|parent-rejected".into(), what: format!("generated program rejected: {}", e.chars().take(200).collect::<String>()), replay },
    };
    let flat = flatten(&prog);
    if asm.code.len() + 1 != flat.ops.len() || r.flat_offsets.len() != asm.code.len() {
        return CaseOutcome::Fail { key: "c16|map|instruction-count".into(), what: format!("{} instructions emitted, {} expected, {} positions recorded", asm.code.len(), flat.ops.len() - 1, r.flat_offsets.len()), replay };
    }
    let lh = LexerHelper::new(&stripped);
    let mut classes = vec!["c16/map".to_string()];
    let mut nt = false;
    for i in 0..asm.code.len() {
        let want_line = r.line_of(r.flat_offsets[i]);
        let pos = match asm.source_map.get(&i) {
            Some(p) => *p,
            None => return CaseOutcome::Fail { key: "c16|map|missing-entry".into(), what: format!("emitted instruction {} ({}) has no source position", i, asm.code[i]), replay },
        };
        let got = crate::emu::catch(|| error_helper::get_err_pos(&lh, pos));
        let (line, s, e) = match got {
            Ok(x) => x,
            Err(p) => return CaseOutcome::Fail { key: "c16|map|panic".into(), what: format!("position lookup aborted: {}", p), replay },
        };
        let kind = match &flat.ops[i] {
            FlatOp::ImpliedRet => "implied-ret",
            FlatOp::Print(_) => "print",
            FlatOp::Ins(_) => {
                if is_macro_made(&prog, i) {
                    "macro-made"
                } else {
                    "instruction"
                }
            }
            FlatOp::FinalHlt => "hlt",
        };
        if line != want_line {
            return CaseOutcome::Fail {
                key: format!("c16|map|wrong-line|{}", kind),
                what: format!("emitted instruction {} '{}' ({}) comes from line {} ('{}') but is mapped to line {} ('{}')", i, asm.code[i], kind, want_line, line_text(&stripped, want_line), line, line_text(&stripped, line)),
                replay,
            };
        }
        if s > e || e > stripped.len() || stripped.get(s..e).map(|t| t.trim_end() != line_text(&stripped, want_line)).unwrap_or(true) {
            return CaseOutcome::Fail { key: format!("c16|map|wrong-line-text|{}", kind), what: format!("instruction {}: line bounds {}..{} do not delimit line {}", i, s, e, want_line), replay };
        }
        classes.push(format!("c16/map/{}", kind));
        if want_line > 1 {
            nt = true;
        }
        if want_line == r.text.matches('\n').count() + if r.text.ends_with('\n') { 0 } else { 1 } {
            classes.push("c16/map/on-last-line".into());
        }
    }
    if !c.trailing_newline {
        classes.push("c16/map/no-trailing-newline".into());
    }
    classes.sort();
    classes.dedup();
    CaseOutcome::Pass { nontrivial: nt, classes, digest: fnv_str(&r.text) }
}

fn is_macro_made(p: &Program, flat_idx: usize) -> bool {
    // walk like flatten()
    fn walk(items: &[Item], n: &mut usize, target: usize, found: &mut bool) {
        for it in items {
            match it {
                Item::Ins(_) | Item::Print(_) => *n += 1,
                Item::Proc { body, .. } => {
                    walk(body, n, target, found);
                    *n += 1;
                }
                Item::MacroUse { expands_to, .. } => {
                    if target >= *n && target < *n + expands_to.len() {
                        *found = true;
                    }
                    *n += expands_to.len();
                }
                _ => {}
            }
        }
    }
    let mut n = 0;
    let mut f = false;
    walk(&p.code, &mut n, flat_idx, &mut f);
    f
}

// ------------------------------------------------------------------ (B1) a corrupted token is reported where it is

/// offsets of the tokens of ordinary statements (not on lines with macro syntax or string literals)
fn token_offsets(text: &str) -> Vec<(usize, usize)> {
    let mut out = Vec::new();
    let mut line_start = 0usize;
    for line in text.split('\n') {
        let skip = line.contains('(') || line.contains('"') || line.contains("->") || line.contains("<-");
        if !skip {
            let b = line.as_bytes();
            let mut i = 0;
            while i < b.len() {
                if b[i].is_ascii_whitespace() {
                    i += 1;
                    continue;
                }
                let s = i;
                if b[i].is_ascii_alphanumeric() || b[i] == b'_' || b[i] == b'-' {
                    while i < b.len() && (b[i].is_ascii_alphanumeric() || b[i] == b'_' || b[i] == b'-') {
                        i += 1;
                    }
                    if i < b.len() && b[i] == b':' && !b[s].is_ascii_digit() && b[s] != b'-' {
                        // a label and its colon are one token -- unless this is 'mem <a>:<n>' (digits) handled above
                        let word = &line[s..i];
                        if !["mem", "MEM"].contains(&word) {
                            i += 1;
                        }
                    }
                } else {
                    i += 1;
                }
                out.push((line_start + s, line_start + i));
            }
        }
        line_start += line.len() + 1;
    }
    out
}

/// "Syntax Error at L:C : text :" -> (L, C, text)
fn parse_syntax_error(msg: &str) -> Option<(usize, usize, String)> {
    // the driver's own report of a jump to a label that is defined nowhere has the same three parts
    // (the headline in either case; failing that, the first "... at L:C : text" of the message, whatever its words)
    let rest = match msg.split("Syntax Error at ").nth(1).or_else(|| msg.split("Syntax error at ").nth(1)).or_else(|| msg.split(" used but not defined at ").nth(1)) {
        Some(r) => r,
        None => generic_position(msg)?,
    };
    let first = rest.lines().next()?;
    let mut it = first.splitn(2, ':');
    let l: usize = it.next()?.trim().parse().ok()?;
    let rest = it.next()?;
    let mut it2 = rest.splitn(2, " : ");
    let c: usize = it2.next()?.trim().parse().ok()?;
    let text = it2.next()?.to_string();
    let text = text.strip_suffix(" :").unwrap_or(&text).to_string();
    Some((l, c, text))
}

/// the text behind the first " at " (or leading "at ") that is followed by `L:C` or `L :C` -- for diagnostics in other words
fn generic_position(msg: &str) -> Option<&str> {
    let mut from = 0usize;
    while let Some(k) = msg[from..].find("at ") {
        let start = from + k + 3;
        let r = &msg[start..];
        let d1 = r.chars().take_while(|c| c.is_ascii_digit()).count();
        if d1 > 0 && (k == 0 && from == 0 || msg[..from + k].ends_with(' ')) {
            let r2 = r[d1..].trim_start();
            if let Some(r3) = r2.strip_prefix(':') {
                let r3 = r3.trim_start();
                if r3.chars().next().map(|c| c.is_ascii_digit()).unwrap_or(false) {
                    return Some(r);
                }
            }
        }
        from = start;
    }
    None
}

pub fn eval_corrupt(c: &(PCase16, u16, u8)) -> CaseOutcome {
    if !DRIVER_SRC {
        return CaseOutcome::Pass { nontrivial: false, classes: vec!["c16/skipped-driver-modules-unavailable".into()], digest: 0 };
    }
    let (pc, sel, what) = c;
    let prog = build16(pc);
    let r = render_program(&prog, &layout_of(pc));
    let stripped = strip_comments(&r.text);
    let toks = token_offsets(&stripped);
    if toks.is_empty() {
        return CaseOutcome::Pass { nontrivial: false, classes: vec![], digest: 0 };
    }
    let (s, e) = toks[crate::pt::idx(*sel, toks.len())];
    // a token that no ordinary statement admits anywhere, or a character that is no token at all
    let bad = [")", "@", ")", "\u{e9}", "?", ""][*what as usize % 6];
    let truncate = bad.is_empty();
    let mut text = String::new();
    let (line, col);
    if truncate {
        // the input ends right after this token: if that is the middle of a statement, the
        // diagnostic must point at the end of the input (line of the last token, column after it)
        text.push_str(&stripped[..e]);
        line = text[..e - 1].matches('\n').count() + 1;
        let lstart = text[..e - 1].rfind('\n').map(|k| k + 1).unwrap_or(0);
        col = e - lstart;
        // nothing, the file's final newline, or blank lines behind the last token: the place of the report stays the same
        text.push_str(["", "\n", "  \n", "\n\n", " \n \n\t\n", "\r\n", "\n"][(*what as usize / 6) % 7]);
    } else {
        text.push_str(&stripped[..s]);
        text.push_str(bad);
        text.push_str(&stripped[e..]);
        line = text[..s].matches('\n').count() + 1;
        let lstart = text[..s].rfind('\n').map(|k| k + 1).unwrap_or(0);
        col = s - lstart;
    }
    let want_text = line_text(&text, line);
    let replay = json!({"kind":"c16-diag","source":text,"line":line,"column":col});
    let res = crate::emu::catch(|| preprocess::preprocess(&text).map(|_| ()));
    let msg = match res {
        Err(p) => return CaseOutcome::Fail { key: "c16|diag|panic".into(), what: format!("diagnosing aborted: {}", p), replay },
        Ok(Ok(())) if truncate => return CaseOutcome::Pass { nontrivial: false, classes: vec!["c16/diag/truncation-leaves-valid-program".into()], digest: 0 },
        Ok(Ok(())) => return CaseOutcome::Fail { key: "c16|diag|accepted".into(), what: format!("a ')' in place of a token on line {} was accepted", line), replay },
        Ok(Err(m)) => m,
    };
    match parse_syntax_error(&msg) {
        None => CaseOutcome::Fail { key: "c16|diag|no-position".into(), what: format!("the diagnostic for a bad token on line {} column {} carries no line/column: {:?}", line, col, msg.chars().take(120).collect::<String>()), replay },
        Some((l, cc, t)) => {
            if l != line {
                return CaseOutcome::Fail { key: "c16|diag|wrong-line".into(), what: format!("bad token on line {} column {} ('{}') reported at line {} ('{}')", line, col, want_text, l, t), replay };
            }
            if cc != col {
                return CaseOutcome::Fail { key: "c16|diag|wrong-column".into(), what: format!("bad token on line {} column {} reported at column {}", line, col, cc), replay };
            }
            if t.trim_end() != want_text {
                return CaseOutcome::Fail { key: "c16|diag|wrong-line-text".into(), what: format!("bad token on line {}: cited text {:?}, the line is {:?}", line, t, want_text), replay };
            }
            let total_lines = text.matches('\n').count() + if text.ends_with('\n') { 0 } else { 1 };
            let mut classes = vec!["c16/diag/corrupted-token".to_string(), if truncate { "c16/diag/unexpected-end-of-input".to_string() } else if bad == ")" { "c16/diag/unexpected-token".to_string() } else { "c16/diag/invalid-character".to_string() }];
            if line == total_lines {
                classes.push("c16/diag/on-last-line".into());
                if !text.ends_with('\n') {
                    classes.push("c16/diag/on-last-line-without-newline".into());
                }
            }
            if truncate && text.ends_with('\n') {
                classes.push("c16/diag/end-of-input-behind-a-final-newline".into());
            }
            if line == 1 {
                classes.push("c16/diag/on-first-line".into());
            }
            if col > 0 {
                classes.push("c16/diag/column>0".into());
            }
            CaseOutcome::Pass { nontrivial: line > 1, classes, digest: fnv_str(&text) }
        }
    }
}

// ------------------------------------------------------------------ (B2) semantic errors cite their line

fn exact_site_class(m: &crate::c14::Mutant) -> bool {
    let inserted = m.what.starts_with("inserted '") || m.what.starts_with("data definition '") || m.what.starts_with("'");
    if !inserted {
        // a jump retargeted in place; other mutants of that class (a macro redefined with an invalid body) are detected
        // where the macro is used, not where the offending text stands
        return m.class == "jump-to-data-label" && m.what.contains("retargeted to data label");
    }
    // a bare unknown word is only detected at the following token, possibly on the next line: not used
    let stmt = m.text.split('\n').nth(m.site).unwrap_or("");
    let ntok = stmt.split_whitespace().count();
    ntok >= 2 || ["wait", "esc", "lock"].contains(&stmt.trim().to_lowercase().as_str())
}

pub fn eval_semantic(c: &(crate::c14::Raw14, u16, bool)) -> CaseOutcome {
    let (raw, sel, via_cli) = c;
    if !DRIVER_SRC && !*via_cli {
        return CaseOutcome::Pass { nontrivial: false, classes: vec!["c16/skipped-driver-modules-unavailable".into()], digest: 0 };
    }
    let p = crate::c14::build_parent(raw);
    let ms: Vec<crate::c14::Mutant> = crate::c14::mutants(&p).into_iter().filter(exact_site_class).collect();
    if ms.is_empty() {
        return CaseOutcome::Pass { nontrivial: false, classes: vec![], digest: 0 };
    }
    let m = &ms[crate::pt::idx(*sel, ms.len())];
    let want_line = m.site + 1;
    let want_text = line_text(&m.text, want_line);
    let replay = json!({"kind":"c16-diag","source":m.text,"line":want_line,"class":m.class,"mutation":m.what, "cli": via_cli});
    let msg = if *via_cli {
        let out = run_cli(m.text.as_bytes(), Stdin::Closed, false, 1 << 20, 20_000);
        if matches!(out.status, Status::Timeout | Status::SpawnError(_)) {
            return CaseOutcome::Inconclusive(format!("{:?}", out.status));
        }
        if !out.clean() {
            return CaseOutcome::Fail { key: "c16|semantic|abnormal-exit".into(), what: format!("status {:?}", out.status), replay };
        }
        out.out_str()
    } else {
        match crate::emu::catch(|| preprocess::preprocess(&strip_comments(&m.text)).map(|_| ())) {
            Err(p) => return CaseOutcome::Fail { key: "c16|semantic|panic".into(), what: p, replay },
            Ok(Ok(())) => return CaseOutcome::Pass { nontrivial: false, classes: vec!["c16/semantic/left-to-driver".into()], digest: 0 },
            Ok(Err(m)) => m,
        }
    };
    match parse_syntax_error(&msg) {
        None => CaseOutcome::Fail { key: format!("c16|semantic|no-position|{}", m.class), what: format!("{} ({}): the diagnostic carries no line/column: {:?}", m.class, m.what, msg.chars().take(160).collect::<String>()), replay },
        Some((l, _c, t)) => {
            if l != want_line || t.trim_end() != want_text {
                return CaseOutcome::Fail {
                    key: format!("c16|semantic|wrong-line|{}", m.class),
                    what: format!("{} ({}): the offending statement is on line {} ('{}') but line {} ('{}') is cited", m.class, m.what, want_line, want_text, l, t.trim_end()),
                    replay,
                };
            }
            let mut classes = vec![format!("c16/semantic/{}", m.class)];
            if *via_cli {
                classes.push("c16/semantic/cli".into());
            }
            if want_line == m.total_lines {
                classes.push("c16/semantic/on-last-line".into());
            }
            CaseOutcome::Pass { nontrivial: want_line > 1, classes, digest: fnv_str(&m.text) }
        }
    }
}

// ------------------------------------------------------------------ (C) run-time messages through the CLI

#[derive(Debug, Clone, PartialEq, Eq)]
pub struct Cited {
    pub kind: &'static str,
    pub line: usize,
    pub text: Option<String>,
}

/// the messages of the CLI that cite a source line
pub fn cited_lines(stdout: &str) -> Vec<Cited> {
    let mut v = Vec::new();
    // the number a message cites; a word in front of it ("... at line 7") is skipped
    let num = |s: &str| -> usize {
        let s = s.trim_start();
        let skip = s.chars().take_while(|c| c.is_ascii_alphabetic() || *c == ' ').count();
        let s = if skip <= 12 { &s[skip..] } else { s };
        s.chars().take_while(|c| c.is_ascii_digit()).collect::<String>().parse().unwrap_or(0)
    };
    for l in stdout.lines() {
        // program output may precede a message on the same line: search inside the line
        let find = |pat: &str| l.find(pat).map(|k| &l[k + pat.len()..]);
        if let Some(r) = find("Output of line ") {
            let text = r.splitn(2, " : ").nth(1).map(|t| t.strip_suffix(" :").unwrap_or(t).to_string());
            v.push(Cited { kind: "print", line: num(r), text });
        } else if let Some(r) = find("About to execute line ") {
            v.push(Cited { kind: "about", line: num(r), text: r.splitn(2, " : ").nth(1).map(|t| t.to_string()) });
        } else if let Some(r) = find("Int 3 at line ") {
            v.push(Cited { kind: "int3", line: num(r), text: None });
        } else if let Some(r) = find("int 0 at ").filter(|_| l.to_ascii_lowercase().contains("divide")) {
            v.push(Cited { kind: "divide-error", line: num(r), text: r.splitn(2, " : ").nth(1).map(|t| t.to_string()) });
        } else if let Some(r) = find("Error at line ") {
            let text = r.splitn(2, " : ").nth(1).and_then(|t| t.rfind(", value of AH").map(|k| t[..k].to_string()));
            v.push(Cited { kind: "unsupported-interrupt", line: num(r), text });
        }
    }
    v
}

pub fn eval_runtime(c: &PCase16) -> CaseOutcome {
    let prog = build16(c);
    let r = render_program(&prog, &layout_of(c));
    let stripped = strip_comments(&r.text);
    let flat = flatten(&prog);
    let lines: Vec<usize> = r.flat_offsets.iter().map(|o| r.line_of(*o)).collect();
    let image = data_image(&prog.data);
    let script: Vec<PromptCmd> = (0..600).map(|_| PromptCmd::Next("n".into())).collect();
    let cfg = RunCfg { interpreted: c.interpreted, script: &script, lines: &lines, max_steps: 20_000, input_lines: None, buf_fill: None };
    let rr = ref_run(&flat, &image, &cfg, &Quirks::none());
    if rr.stop == Stop::StepLimit || rr.stop == Stop::EofAtPrompt || rr.stop == Stop::RetWithoutCall {
        return CaseOutcome::Pass { nontrivial: false, classes: vec!["c16/runtime/skipped".into()], digest: 0 };
    }
    let expected: Vec<Cited> = rr
        .events
        .iter()
        .filter_map(|e| match e {
            Ev::PrintHdr(n) => Some(Cited { kind: "print", line: *n, text: None }),
            Ev::About(n) => Some(Cited { kind: "about", line: *n, text: None }),
            Ev::Int3(n) => Some(Cited { kind: "int3", line: *n, text: None }),
            Ev::DivErr(n) => Some(Cited { kind: "divide-error", line: *n, text: None }),
            Ev::UnsupInt(n) => Some(Cited { kind: "unsupported-interrupt", line: *n, text: None }),
            _ => None,
        })
        .collect();
    let stdin: Vec<u8> = b"n\n".repeat(600);
    let out = run_cli(r.text.as_bytes(), Stdin::Data(&stdin), c.interpreted, 8 << 20, 30_000);
    let replay = json!({"kind":"c16-runtime","source":r.text,"interpreted":c.interpreted,"expected": expected.iter().map(|c| format!("{} {}", c.kind, c.line)).collect::<Vec<_>>()});
    if matches!(out.status, Status::Timeout | Status::SpawnError(_)) {
        return CaseOutcome::Inconclusive(format!("{:?}", out.status));
    }
    if !out.clean() {
        return CaseOutcome::Fail { key: "c16|runtime|abnormal-exit".into(), what: format!("status {:?} {}", out.status, out.err_str().lines().next().unwrap_or("")), replay };
    }
    let got = cited_lines(&out.out_str());
    if got.len() != expected.len() {
        return CaseOutcome::Fail { key: "c16|runtime|message-count".into(), what: format!("{} line-citing messages expected, {} printed", expected.len(), got.len()), replay };
    }
    let mut classes: Vec<String> = vec!["c16/runtime".into()];
    let mut nt = false;
    let total_lines = r.text.matches('\n').count() + if r.text.ends_with('\n') { 0 } else { 1 };
    for (k, (e, g)) in expected.iter().zip(got.iter()).enumerate() {
        if e.kind != g.kind {
            return CaseOutcome::Fail { key: "c16|runtime|message-kind".into(), what: format!("message {}: expected a {} message, got {}", k, e.kind, g.kind), replay };
        }
        if e.line != g.line {
            return CaseOutcome::Fail {
                key: format!("c16|runtime|wrong-line|{}", e.kind),
                what: format!("message {} ({}): the statement is on line {} ('{}') but line {} is cited", k, e.kind, e.line, line_text(&stripped, e.line), g.line),
                replay,
            };
        }
        if let Some(t) = &g.text {
            if t.trim_end() != line_text(&stripped, e.line) {
                return CaseOutcome::Fail { key: format!("c16|runtime|wrong-line-text|{}", e.kind), what: format!("message {} ({}) cites text {:?}, line {} is {:?}", k, e.kind, t, e.line, line_text(&stripped, e.line)), replay };
            }
        }
        classes.push(format!("c16/runtime/{}", e.kind));
        if g.text.as_ref().map(|t| t.len() > 120).unwrap_or(false) {
            classes.push("c16/runtime/cited-line-longer-than-120-bytes".into());
        }
        if r.text.starts_with('\n') {
            classes.push("c16/runtime/file-begins-with-blank-lines".into());
        }
        if e.line > 1 {
            nt = true;
        }
        if e.line == total_lines {
            classes.push("c16/runtime/on-last-line".into());
        }
    }
    if !c.trailing_newline {
        classes.push("c16/runtime/no-trailing-newline".into());
    }
    if r.text.lines().any(|l| l.len() > 120) {
        classes.push("c16/runtime/source-has-a-line-longer-than-120-bytes".into());
    }
    classes.sort();
    classes.dedup();
    CaseOutcome::Pass { nontrivial: nt && !expected.is_empty(), classes, digest: fnv_str(&r.text) ^ c.interpreted as u64 }
}

// ------------------------------------------------------------------ (D) undefined label report

pub fn eval_undefined(c: &(crate::c14::Raw14, u8, u8)) -> CaseOutcome {
    let (raw, indent, pos) = c;
    let p = crate::c14::build_parent(raw);
    let mut lines: Vec<String> = p.lines.iter().map(|l| l.text.clone()).collect();
    // one jump to a label that does not exist, at a live position or at the end, indented
    let ind = [" ", "", "\t", "    ", "  \t "][*indent as usize % 5];
    // directly, or coming out of a macro (nesting depth 1 or 2): then the use site is what the message must cite
    // (3: the jump stands in the outer body BEHIND a nested use that has ended; 4: inside a nested use that is followed by
    // another nested use)
    let via_macro = *pos % 5;
    let mn = ["jmp", "jz", "loop", "JNBE"][*indent as usize % 4];
    let stmt = match via_macro {
        0 => format!("{}{} nowhere_1", ind, mn),
        1 => format!("{}jq8(nowhere_1)", ind),
        2 => format!("{}jq9(nowhere_1)", ind),
        3 => format!("{}jq10(nowhere_1)", ind),
        _ => format!("{}jq11(nowhere_1)", ind),
    };
    let mut at = if *pos % 2 == 0 { p.live_pos } else { lines.len() };
    if via_macro > 0 {
        let first_code = p.lines.iter().position(|l| !matches!(l.kind, crate::c14::LK::Data(_))).unwrap_or(0);
        lines.insert(first_code, format!("macro jq8(t) -> {} t <-", mn));
        lines.insert(first_code + 1, "macro jq9(u) -> nop jq8 (u) <-".to_string());
        lines.insert(first_code + 2, "macro jqn(x) -> mov x, x <-".to_string());
        lines.insert(first_code + 3, format!("macro jq10(u) -> jqn(ax) {} u <-", mn));
        lines.insert(first_code + 4, "macro jq11(u) -> jqn(bx) jq8 (u) jqn(cx) <-".to_string());
        at += 5;
    }
    lines.insert(at, stmt.clone());
    // one directly written jump in two is followed, at the end of the file, by a macro use that jumps to the same
    // undefined label: either use may be cited, nothing else
    let twice = via_macro == 0 && (*indent / 5) % 2 == 1;
    if twice {
        let first_code = p.lines.iter().position(|l| !matches!(l.kind, crate::c14::LK::Data(_))).unwrap_or(0);
        lines.insert(first_code, "macro jq7(t) -> jz t <-".to_string());
        at += 1;
        lines.push("jq7(nowhere_1)".to_string());
    }
    // one file in three begins with one or two blank lines
    let nblank = (*pos as usize / 6) % 3;
    for _ in 0..nblank {
        lines.insert(0, String::new());
    }
    let text = crate::c14::text_of(&lines);
    let want_line = at + 1 + nblank;
    let out = run_cli(text.as_bytes(), Stdin::Closed, false, 1 << 20, 20_000);
    let replay = json!({"kind":"c16-undefined","source":text,"line":want_line,"column":ind.len()});
    if matches!(out.status, Status::Timeout | Status::SpawnError(_)) {
        return CaseOutcome::Inconclusive(format!("{:?}", out.status));
    }
    if !out.clean() {
        return CaseOutcome::Fail { key: "c16|undefined|abnormal-exit".into(), what: format!("status {:?}", out.status), replay };
    }
    let so = out.out_str();
    // "Label {l} used but not defined at {line} :{col} : {text}"
    let rest = match so.split("used but not defined at ").nth(1).or_else(|| generic_position(&so)) {
        Some(r) => r.lines().next().unwrap_or(""),
        None => return CaseOutcome::Fail { key: "c16|undefined|not-reported".into(), what: format!("no undefined-label diagnostic: {:?}", so.chars().take(120).collect::<String>()), replay },
    };
    let mut it = rest.splitn(2, ':');
    let l: usize = it.next().unwrap_or("").trim().parse().unwrap_or(0);
    let rest2 = it.next().unwrap_or("");
    let mut it2 = rest2.splitn(2, " : ");
    let col: usize = it2.next().unwrap_or("").trim().parse().unwrap_or(usize::MAX);
    let t = it2.next().unwrap_or("").to_string();
    let t = t.trim_end().strip_suffix(" :").unwrap_or(t.trim_end()).to_string();
    if twice && l == lines.len() && t.trim_end() == "jq7(nowhere_1)" && col == 0 {
        return CaseOutcome::Pass { nontrivial: true, classes: vec!["c16/undefined-label".into(), "c16/undefined-label/used-twice-second-use-cited".into()], digest: fnv_str(&text) };
    }
    if l != want_line || t.trim_end() != stmt.trim_end() {
        return CaseOutcome::Fail { key: "c16|undefined|wrong-line".into(), what: format!("jump to an undefined label on line {} ('{}'{}) reported at line {} ('{}')", want_line, stmt, if twice { format!(", used again through a macro on line {}", lines.len()) } else { String::new() }, l, t), replay };
    }
    if col != ind.len() {
        return CaseOutcome::Fail { key: "c16|undefined|wrong-column".into(), what: format!("jump to an undefined label at line {} column {} ('{}') reported at column {}", want_line, ind.len(), stmt, col), replay };
    }
    CaseOutcome::Pass {
        nontrivial: want_line > 1,
        classes: vec!["c16/undefined-label".into(), if *pos % 2 == 0 { "c16/undefined-label/middle".into() } else { "c16/undefined-label/last-line".into() }, format!("c16/undefined-label/macro-depth-{}", via_macro), if twice { "c16/undefined-label/used-twice".into() } else { "c16/undefined-label/used-once".into() }],
        digest: fnv_str(&text),
    }
}

/// (D2) a jump to an undefined label within the first bytes of a file without data, followed by uses of macros whose
/// expansion is longer than the distance of that jump from the start of the file; leading blank lines and blanks
fn early_undefined_family(ctx: &Ctx) {
    use rayon::prelude::*;
    let mut jobs: Vec<(String, usize, usize, String)> = Vec::new();
    for nblank in [0usize, 1, 3] {
        for ind in ["", "  ", "\t"] {
            for explen in [3usize, 12, 60, 200] {
                for (k, mn) in ["jmp", "jnz", "loop"].iter().enumerate() {
                    for before in [0usize, 2] {
                        let mut lines: Vec<String> = vec![String::new(); nblank];
                        // the jump is on the same line as start, or a few short lines further down
                        let stmt;
                        if before == 0 {
                            stmt = format!("{}start: {} nowhere_1", ind, mn);
                            lines.push(stmt.clone());
                        } else {
                            lines.push("start: nop".to_string());
                            lines.push("cld".to_string());
                            stmt = format!("{}{} nowhere_1", ind, mn);
                            lines.push(stmt.clone());
                        }
                        let want_line = lines.len();
                        let body: String = (0..explen).map(|i| if i % 2 == 0 { "mov r, r " } else { "xchg r, r " }).collect();
                        lines.push(format!("macro big_{}(r) -> {}<-", k, body));
                        lines.push(format!("big_{}(ax)", k));
                        lines.push(format!("  big_{}(bx)", k));
                        lines.push("print reg".to_string());
                        // the column is the one of the jump statement itself
                        let col = if before == 0 { ind.len() + "start: ".len() } else { ind.len() };
                        jobs.push((crate::c14::text_of(&lines), want_line, col, stmt));
                    }
                }
            }
        }
    }
    let outs: Vec<Option<Failure>> = jobs
        .par_iter()
        .map(|(text, want_line, col, stmt)| {
            let out = run_cli(text.as_bytes(), Stdin::Closed, false, 1 << 20, 20_000);
            let replay = json!({"kind":"c16-undefined","source":text,"line":want_line,"column":col});
            if matches!(out.status, Status::Timeout | Status::SpawnError(_)) {
                return None;
            }
            if !out.clean() {
                return Some(Failure { key: "c16|undefined|abnormal-exit".into(), what: format!("status {:?}", out.status), replay });
            }
            let so = out.out_str();
            match parse_syntax_error(&so) {
                None => Some(Failure { key: "c16|undefined|not-reported".into(), what: format!("no undefined-label diagnostic with a position: {:?}", so.chars().take(160).collect::<String>()), replay }),
                Some((l, c, t)) => {
                    if l != *want_line || t.trim_end() != stmt.trim_end() {
                        Some(Failure { key: "c16|undefined|wrong-line".into(), what: format!("[early jump, long macro expansions later] jump to an undefined label on line {} ('{}') reported at line {} ('{}')", want_line, stmt, l, t.trim_end()), replay })
                    } else if c != *col {
                        Some(Failure { key: "c16|undefined|wrong-column".into(), what: format!("[early jump, long macro expansions later] jump to an undefined label at line {} column {} reported at column {}", want_line, col, c), replay })
                    } else {
                        None
                    }
                }
            }
        })
        .collect();
    for o in outs {
        ctx.add_evals(1);
        match o {
            Some(f) => ctx.fail(f),
            None => {
                ctx.add_nontrivial(1);
                ctx.class("c16/undefined-label/early-in-a-file-with-long-expansions-later", 1);
            }
        }
    }
}

/// (B3) a macro use whose expansion is invalid (directly or through a second macro) is cited at the line, column and text
/// of the outermost use; a statement that lost a token (the '->' of a macro definition, the comma between two operands)
/// is cited at its own line
fn failing_expansion_family(ctx: &Ctx) {
    use rayon::prelude::*;
    let bodies: [(&str, &str); 7] = [("inc a", "5"), ("mov a, 70000", "ax"), ("jmp a", "d_0"), ("mov al, a", "bx"), ("add a", "ax"), ("foo a", "ax"), ("mov byte [bx], a", "byte [si]")];
    let mut jobs: Vec<(String, usize, Option<usize>, String, &'static str)> = Vec::new();
    for (k, (body, arg)) in bodies.iter().enumerate() {
        for depth in [1usize, 2] {
            for ind in ["", "   ", "\t"] {
                for place in [0usize, 1, 2] {
                    let mut lines: Vec<String> = Vec::new();
                    if place == 2 {
                        lines.push(String::new());
                        lines.push(String::new());
                    }
                    lines.push("d_0: db 1".to_string());
                    lines.push(format!("macro bad_{}(a) -> {} <-", k, body));
                    lines.push(format!("macro outer_{}(b) -> nop bad_{}(b) <-", k, k));
                    lines.push("start: nop".to_string());
                    if place >= 1 {
                        lines.push("cld".to_string());
                        lines.push("  stc".to_string());
                    }
                    let stmt = if depth == 1 { format!("{}bad_{}({})", ind, k, arg) } else { format!("{}outer_{}({})", ind, k, arg) };
                    lines.push(stmt.clone());
                    let want_line = lines.len();
                    if place != 1 {
                        lines.push("print reg".to_string());
                    }
                    let mut text = crate::c14::text_of(&lines);
                    if place == 1 && k % 2 == 0 {
                        text.pop(); // the failing use is the last line and has no newline
                    }
                    jobs.push((text, want_line, Some(ind.len()), stmt, "failing-expansion"));
                }
            }
        }
    }
    // lost tokens
    for (k, (pre, stmt)) in [
        (vec!["start: nop"], "macro lost(a) inc a <-"),
        (vec!["d_0: db 1", "", "start: nop", "cld"], "  macro lost(a)  inc a  nop <-"),
        (vec!["start: nop"], "mov ax 5"),
        (vec!["d_0: db 1", "start: nop", "stc"], "\tadd word [bx] 7"),
        (vec!["macro fine(a) -> inc a <-", "start: fine(ax)"], "xchg ax bx"),
    ]
    .iter()
    .enumerate()
    {
        let mut lines: Vec<String> = pre.iter().map(|x| x.to_string()).collect();
        lines.push(stmt.to_string());
        let want_line = lines.len();
        if k % 2 == 0 {
            lines.push("print reg".to_string());
        }
        jobs.push((crate::c14::text_of(&lines), want_line, None, stmt.to_string(), "lost-token"));
    }
    let outs: Vec<(usize, Option<Failure>)> = jobs
        .par_iter()
        .enumerate()
        .map(|(j, (text, want_line, col, stmt, kind))| {
            let out = run_cli(text.as_bytes(), Stdin::Closed, false, 1 << 20, 20_000);
            let replay = json!({"kind":"c16-undefined","source":text,"line":want_line,"column":col});
            if matches!(out.status, Status::Timeout | Status::SpawnError(_)) {
                return (j, None);
            }
            if !out.clean() {
                return (j, Some(Failure { key: format!("c16|{}|abnormal-exit", kind), what: format!("status {:?}", out.status), replay }));
            }
            let so = out.out_str();
            let f = match parse_syntax_error(&so) {
                None => Some(Failure { key: format!("c16|{}|no-position", kind), what: format!("no diagnostic with a position for '{}' on line {}: {:?}", stmt, want_line, so.chars().take(160).collect::<String>()), replay }),
                Some((l, c, t)) => {
                    if l != *want_line || t.trim_end() != stmt.trim_end() {
                        Some(Failure { key: format!("c16|{}|wrong-line", kind), what: format!("the offending statement is on line {} ('{}') but line {} ('{}') is cited", want_line, stmt, l, t.trim_end()), replay })
                    } else if col.map(|x| x != c).unwrap_or(false) {
                        Some(Failure { key: format!("c16|{}|wrong-column", kind), what: format!("the offending macro use on line {} begins in column {} but column {} is cited", want_line, col.unwrap_or(0), c), replay })
                    } else {
                        None
                    }
                }
            };
            (j, f)
        })
        .collect();
    for (j, o) in outs {
        ctx.add_evals(1);
        match o {
            Some(f) => ctx.fail(f),
            None => {
                ctx.add_nontrivial(1);
                ctx.class(&format!("c16/{}-cited-at-its-line", jobs[j].4), 1);
            }
        }
    }
}

pub fn run(ctx: &Ctx) {
    ctx.set_rule("(A) proptest-generated terminating programs (structured generator: loops, calls, procedures with implied and explicit ret, prints, data, INT 3, trap-flag sequences) extended with macro uses of nesting depth 1 and 2 at top level and inside procedures, rendered with random layouts (blank lines, comment lines, several statements per line, labels sharing a line, with/without trailing newline): every emitted instruction's source-map entry, converted with the driver's own get_err_pos, must give the line number and the exact bounds of the line of its statement (use site for macro-made instructions, closing brace for the implied ret); (B1) the same programs with one token replaced by ')' at a generated token position: the driver's preprocess() must report that line, that 0-based column and that line's text; (B2) the single semantic mutations of C14 whose offending statement is one known line (operand misuse, range, size, two memory operands, unsupported instruction / interrupt / directive, data after code, jump to data label): the diagnostic, in-process and through the CLI, must cite that line and its text; (C) through the CLI with -i or trap-flag stepping answered 'n': every 'Output of line', 'About to execute line', 'Int 3 at line', divide-error and unsupported-interrupt message must cite the line (and the text) of the statement the reference interpreter says is executing; (D) a jump to an undefined label at a live position or on the last line, with generated indentation: line, column and text. Truncated files end right behind the last token, behind a final newline, blank lines or CR LF; macro-made undefined jumps also stand behind a nested use that has ended and between two nested uses. Non-trivial = the cited construct is not on line 1.");
    ctx.assume("for a duplicate definition either definition's line is acceptable (not checked here); a bare unknown word is detected by an LR parser only at the following token, possibly on the next line (not used as a mutant); message wording is not compared beyond line number, column and line text");
    ctx.set_exhaustive(false);
    crate::pt::set_max_shrink_iters(400);
    let n = ctx.tier.pick(6_000u32, 200_000u32);
    run_inproc(ctx, "c16-map", n, pcase_s, eval_map, |c| json!({"source": render_program(&build16(c), &layout_of(c)).text}));
    let n_b1 = ctx.tier.pick(3_000u32, 60_000u32);
    run_inproc(ctx, "c16-corrupt", n_b1, || (pcase_s(), any::<u16>(), any::<u8>()), eval_corrupt, |c| json!({"program_for_token_corruption": render_program(&build16(&c.0), &layout_of(&c.0)).text.chars().take(300).collect::<String>()}));
    let n_b2 = ctx.tier.pick(2_000u32, 40_000u32);
    run_inproc(ctx, "c16-semantic", n_b2, || (crate::c14::raw_s(), any::<u16>(), Just(false)), eval_semantic, |_| json!("semantic mutant, in-process"));
    if !DRIVER_SRC {
        ctx.note("the driver's pure modules of the working tree do not compile stand-alone into the harness: the in-process parts (A), (B1), (B2) were skipped; the CLI parts decide");
    }
    ctx.require_class("c16/diag/on-first-line", if DRIVER_SRC { 10 } else { 0 });
    for k in ["c16/map/implied-ret", "c16/map/macro-made", "c16/map/print", "c16/map/on-last-line", "c16/map/no-trailing-newline", "c16/diag/on-last-line-without-newline", "c16/diag/end-of-input-behind-a-final-newline", "c16/diag/column>0", "c16/diag/unexpected-end-of-input", "c16/diag/invalid-character", "c16/diag/unexpected-token"] {
        ctx.require_class(k, if DRIVER_SRC { 50 } else { 0 });
    }
    if !cli_available() {
        ctx.harness_error("CLI binary not built");
        return;
    }
    let n_c = ctx.tier.pick(500usize, 6_000usize);
    run_cases(ctx, "c16-runtime", n_c, pcase_s, eval_runtime, |c| json!({"cli_source": render_program(&build16(c), &layout_of(c)).text, "interpreted": c.interpreted}));
    let n_s = ctx.tier.pick(300usize, 4_000usize);
    run_cases(ctx, "c16-semantic-cli", n_s, || (crate::c14::raw_s(), any::<u16>(), Just(true)), eval_semantic, |_| json!("semantic mutant, CLI"));
    let n_d = ctx.tier.pick(400usize, 4_000usize);
    run_cases(ctx, "c16-undefined", n_d, || (crate::c14::raw_s(), any::<u8>(), any::<u8>()), eval_undefined, |_| json!("jump to an undefined label"));
    early_undefined_family(ctx);
    failing_expansion_family(ctx);
    ctx.require_class("c16/undefined-label/used-twice", 20);
    ctx.require_class("c16/runtime/cited-line-longer-than-120-bytes", 5);
    ctx.require_class("c16/runtime/file-begins-with-blank-lines", 10);
    for k in ["c16/runtime/print", "c16/runtime/about", "c16/runtime/int3", "c16/runtime/divide-error", "c16/runtime/unsupported-interrupt", "c16/runtime/no-trailing-newline", "c16/semantic/cli", "c16/undefined-label/last-line", "c16/undefined-label/macro-depth-1", "c16/undefined-label/macro-depth-2", "c16/undefined-label/macro-depth-3", "c16/undefined-label/macro-depth-4"] {
        ctx.require_class(k, 15);
    }
}

pub fn replay(v: &Value) -> Result<String, String> {
    let src = v["source"].as_str().ok_or("no source")?;
    match v["kind"].as_str().unwrap_or("") {
        "c16-map" => {
            let stripped = strip_comments(src);
            let asm = assemble(&stripped)?;
            let lh = LexerHelper::new(&stripped);
            let mut rep = format!("source:\n{}\n", src);
            for i in 0..asm.code.len() {
                let pos = asm.source_map.get(&i).copied().unwrap_or(0);
                let (l, s, e) = error_helper::get_err_pos(&lh, pos);
                rep.push_str(&format!("{:>3} {:<28} -> line {:>3}: {:?}\n", i, asm.code[i], l, stripped.get(s..e)));
            }
            let want: Vec<usize> = v["expected_lines"].as_array().map(|a| a.iter().map(|x| x.as_u64().unwrap_or(0) as usize).collect()).unwrap_or_default();
            let mut ok = want.len() == asm.code.len();
            for i in 0..asm.code.len().min(want.len()) {
                let pos = asm.source_map.get(&i).copied().unwrap_or(0);
                let (l, _, _) = error_helper::get_err_pos(&lh, pos);
                if l != want[i] {
                    ok = false;
                    rep.push_str(&format!("instruction {} belongs to line {} but is mapped to line {}\n", i, want[i], l));
                }
            }
            if ok {
                Ok(rep)
            } else {
                Err(rep)
            }
        }
        "c16-diag" => {
            let want_line = v["line"].as_u64().unwrap_or(0) as usize;
            let msg = if v["cli"].as_bool().unwrap_or(false) {
                run_cli(src.as_bytes(), Stdin::Closed, false, 1 << 20, 20_000).out_str()
            } else {
                match preprocess::preprocess(&strip_comments(src)) {
                    Ok(_) => "accepted".to_string(),
                    Err(m) => m,
                }
            };
            let rep = format!("source:\n{}\noffending statement on line {}\ndiagnostic: {}\n", src, want_line, msg);
            match parse_syntax_error(&msg) {
                Some((l, c, _)) if l == want_line && v["column"].as_u64().map(|x| x as usize == c).unwrap_or(true) => Ok(rep),
                _ => Err(rep),
            }
        }
        "c16-undefined" => {
            let out = run_cli(src.as_bytes(), Stdin::Closed, false, 1 << 20, 20_000).out_str();
            let rep = format!("source:\n{}\nexpected line {} column {}\noutput: {}", src, v["line"], v["column"], out);
            let want = format!("used but not defined at {} :{} :", v["line"], v["column"]);
            if out.contains(&want) {
                Ok(rep)
            } else {
                Err(rep)
            }
        }
        _ => {
            let interp = v["interpreted"].as_bool().unwrap_or(false);
            let stdin: Vec<u8> = b"n\n".repeat(600);
            let out = run_cli(src.as_bytes(), Stdin::Data(&stdin), interp, 8 << 20, 30_000);
            let got: Vec<String> = cited_lines(&out.out_str()).iter().map(|c| format!("{} {}", c.kind, c.line)).collect();
            let exp: Vec<String> = v["expected"].as_array().map(|a| a.iter().map(|x| x.as_str().unwrap_or("").to_string()).collect()).unwrap_or_default();
            let rep = format!("source:\n{}\nexpected citations: {:?}\nobserved citations: {:?}\n", src, exp, got);
            if got == exp {
                Ok(rep)
            } else {
                Err(rep)
            }
        }
    }
}
