//! C19 -- runs are reproducible; machines and parser objects do not leak state.
use crate::asm::*;
use crate::cli::*;
use crate::clicheck::*;
use crate::common::*;
use crate::emu::*;
use crate::pipeline::*;
use emulator_8086_lib::{DataParser, Interpreter, InterpreterContext, Preprocessor, PreprocessorContext, PreprocessorOutput, VM};
use proptest::prelude::*;
use rayon::prelude::*;
use serde_json::{json, Value};

// ------------------------------------------------------------------ (2) a new machine

fn check_new_vm() -> Result<(), String> {
    let vm = VM::new();
    let r = snap(&vm);
    let mut exp = Regs::default();
    exp.r[FLAGS] = 0xF000;
    exp.r[CS] = 0xFFFF;
    if r != exp {
        return Err(format!("registers of a new machine: {}", exp.diff(&r).join(", ")));
    }
    if let Some(a) = vm.mem.iter().position(|b| *b != 0) {
        return Err(format!("memory of a new machine is not zero at {:05X}h ({:02X})", a, vm.mem[a]));
    }
    // every public way of obtaining a new machine: VM::default() when the type implements Default (decided at
    // compile time by method resolution, so the harness builds whether or not the implementation exists)
    if let Some(d) = (&ViaDefault::<VM>(std::marker::PhantomData)).make() {
        let r = snap(&d);
        if r != exp {
            return Err(format!("registers of a new machine obtained through Default: {}", exp.diff(&r).join(", ")));
        }
        if let Some(a) = d.mem.iter().position(|b| *b != 0) {
            return Err(format!("memory of a new machine obtained through Default is not zero at {:05X}h", a));
        }
    }
    Ok(())
}

struct ViaDefault<T>(std::marker::PhantomData<T>);
trait MakeDefault<T> {
    fn make(&self) -> Option<T>;
}
impl<T: Default> MakeDefault<T> for ViaDefault<T> {
    fn make(&self) -> Option<T> {
        Some(T::default())
    }
}
trait MakeNone<T> {
    fn make(&self) -> Option<T>;
}
impl<T> MakeNone<T> for &ViaDefault<T> {
    fn make(&self) -> Option<T> {
        None
    }
}

// ------------------------------------------------------------------ (3) isolation of machines sharing one interpreter

#[derive(Clone, Debug)]
pub struct Stream {
    pub insns: Vec<Insn>,
    pub pad: u16,
    pub regs: Vec<u16>,
}

#[derive(Clone, Debug)]
pub struct IsoCase {
    pub a: Stream,
    pub b: Stream,
    pub schedule: Vec<bool>,
}

fn stream_s() -> BoxedStrategy<Stream> {
    (proptest::collection::vec(crate::c11::insn_any(), 1..14), 0u16..40, proptest::collection::vec(crate::pt::u16s(), 13)).prop_map(|(insns, pad, regs)| Stream { insns, pad, regs }).boxed()
}

pub fn iso_s() -> BoxedStrategy<IsoCase> {
    (stream_s(), stream_s(), proptest::collection::vec(any::<bool>(), 0..80)).prop_map(|(a, b, schedule)| IsoCase { a, b, schedule }).boxed()
}

fn stream_source(s: &Stream) -> String {
    let mut src = format!("db [{}]\n{}: dw 0x1234\nstart:\n", s.pad, LBL);
    // three code labels at places that depend on the stream, and jumps to them sprinkled in: the two programs of a case use
    // the same label names for different places (the runner logs where every jump wants to go and carries on with the
    // next line, so the streams stay straight-line)
    let n = s.insns.len();
    let at = |k: usize| (s.regs[k] as usize) % (n + 1);
    for (i, ins) in s.insns.iter().enumerate() {
        for k in 0..3 {
            if at(k) == i {
                src.push_str(&format!("t_{}:\n", k));
            }
        }
        src.push_str(&canonical(ins));
        src.push('\n');
        if (s.regs[5 + i % 8] >> (i % 13)) & 3 == 0 {
            src.push_str(&format!("{} t_{}\n", ["jmp", "jz", "jnz", "loop", "jmp", "jcxz"][(s.regs[3] as usize + i) % 6], (i + s.regs[4] as usize) % 3));
        }
    }
    for k in 0..3 {
        if at(k) == n {
            src.push_str(&format!("t_{}:\n", k));
        }
    }
    src
}

struct Runner {
    code: Vec<String>,
    ictx: InterpreterContext,
    vm: VM,
    pc: usize,
    steps: usize,
    log: Vec<String>,
}

const STEP_CAP: usize = 3000;

impl Runner {
    fn new(s: &Stream) -> Result<Runner, String> {
        let asm = assemble(&stream_source(s))?;
        let mut vm = VM::new();
        let mut r = Regs::default();
        for k in 0..13 {
            r.r[k] = s.regs[k];
        }
        // keep REP loops short and the trap flag out of it
        r.r[CX] &= 0x01FF;
        r.r[FLAGS] &= !0x0100;
        load(&mut vm, &r);
        load_data(&mut vm, &asm.data)?;
        vm.arch.ds = s.regs[DS];
        Ok(Runner { code: asm.code, ictx: asm.ictx, vm, pc: 0, steps: 0, log: vec![] })
    }
    fn done(&self) -> bool {
        self.pc >= self.code.len() || self.steps >= STEP_CAP
    }
    /// one call of the interpreter (a REP iteration counts as one step)
    fn step_with(&mut self, interp: &Interpreter) {
        let line = self.code[self.pc].clone();
        let pc = self.pc;
        let r = catch(|| interp.parse(pc, &mut self.vm, &mut self.ictx, &line).map(conv).map_err(|e| format!("{}", e)));
        self.steps += 1;
        match r {
            Ok(Ok(St::Repeat)) => {}
            Ok(Ok(s)) => {
                self.log.push(format!("{:?}", s));
                self.pc += 1;
            }
            Ok(Err(e)) => {
                self.log.push(format!("Err({})", e.lines().next().unwrap_or("")));
                self.pc += 1;
            }
            Err(p) => {
                self.log.push(format!("Panic({})", p));
                self.pc += 1;
            }
        }
    }
    fn summary(&self) -> (Regs, u64, Vec<usize>, Vec<String>) {
        (snap(&self.vm), digest_words(&self.vm.mem[..]), self.ictx.call_stack.clone(), self.log.clone())
    }
}

pub fn eval_iso(c: &IsoCase) -> CaseOutcome {
    let replay = json!({"kind":"c19-iso","a":stream_source(&c.a),"b":stream_source(&c.b),"a_regs":c.a.regs,"b_regs":c.b.regs,"schedule":c.schedule});
    // each stream alone, on fresh objects
    let alone = |s: &Stream| -> Result<(Regs, u64, Vec<usize>, Vec<String>), String> {
        let interp = Interpreter::new();
        let mut r = Runner::new(s)?;
        while !r.done() {
            r.step_with(&interp);
        }
        Ok(r.summary())
    };
    let (sa, sb) = match (alone(&c.a), alone(&c.b)) {
        (Ok(x), Ok(y)) => (x, y),
        _ => return CaseOutcome::Pass { nontrivial: false, classes: vec!["c19/iso-stream-rejected".into()], digest: 0 },
    };
    // interleaved, two machines and two contexts sharing one interpreter object
    let interp = Interpreter::new();
    let (mut ra, mut rb) = match (Runner::new(&c.a), Runner::new(&c.b)) {
        (Ok(x), Ok(y)) => (x, y),
        _ => return CaseOutcome::Pass { nontrivial: false, classes: vec![], digest: 0 },
    };
    let mut k = 0usize;
    let mut switches = 0usize;
    let mut last = None;
    while !ra.done() || !rb.done() {
        let pick_a = if ra.done() {
            false
        } else if rb.done() {
            true
        } else {
            let v = if c.schedule.is_empty() { k % 2 == 0 } else { c.schedule[k % c.schedule.len()] };
            k += 1;
            v
        };
        if last.is_some() && last != Some(pick_a) {
            switches += 1;
        }
        last = Some(pick_a);
        if pick_a {
            ra.step_with(&interp);
        } else {
            rb.step_with(&interp);
        }
    }
    for (name, alone_s, inter) in [("first", &sa, ra.summary()), ("second", &sb, rb.summary())] {
        if *alone_s != inter {
            let what = if alone_s.0 != inter.0 {
                format!("registers differ: {}", alone_s.0.diff(&inter.0).join(", "))
            } else if alone_s.1 != inter.1 {
                "memory differs".to_string()
            } else if alone_s.2 != inter.2 {
                "call stack differs".to_string()
            } else {
                let i = (0..alone_s.3.len().max(inter.3.len())).find(|i| alone_s.3.get(*i) != inter.3.get(*i)).unwrap_or(0);
                format!("outcome of instruction {} differs: alone {:?}, interleaved {:?}", i, alone_s.3.get(i), inter.3.get(i))
            };
            return CaseOutcome::Fail { key: "c19|isolation|interleaving-changes-result".into(), what: format!("the {} stream ends differently when interleaved with another machine on a shared interpreter object: {}", name, what), replay };
        }
    }
    let mut classes = vec!["c19/isolation".to_string()];
    if ra.ictx.label_map.iter().any(|(k, v)| k.starts_with("t_") && rb.ictx.label_map.get(k).map(|w| w.map != v.map).unwrap_or(false)) && ra.log.iter().any(|l| l.contains("Jmp")) && rb.log.iter().any(|l| l.contains("Jmp")) {
        classes.push("c19/isolation-same-label-name-at-different-places-both-jump".into());
    }
    if switches >= 10 {
        classes.push("c19/isolation-10-switches".into());
    }
    if ra.steps > ra.code.len() || rb.steps > rb.code.len() {
        classes.push("c19/isolation-interleaved-inside-rep".into());
    }
    CaseOutcome::Pass { nontrivial: switches >= 10, classes, digest: fnv_str(&stream_source(&c.a)) ^ fnv_str(&stream_source(&c.b)).rotate_left(9) ^ switches as u64 }
}

// ------------------------------------------------------------------ (4) parser objects are stateless

#[derive(Clone, Debug)]
pub struct HistCase {
    pub history: Vec<String>,
    pub probe: String,
    pub regs: Vec<u16>,
}

pub fn hist_s() -> BoxedStrategy<HistCase> {
    let text = crate::c15::tcase_s().prop_map(|c| String::from_utf8_lossy(&crate::c15::mutate(&c)).to_string());
    let general = (proptest::collection::vec(text.clone(), 1..6), text, proptest::collection::vec(crate::pt::u16s(), 13)).prop_map(|(history, probe, regs)| HistCase { history, probe, regs });
    // the same macro library twice -- same macro names, same parameters, same uses with the same arguments --
    // but with other instruction bodies: anything remembered per macro name or per use across sources shows
    let macros = (crate::c13::raw_s(), 1usize..5, proptest::collection::vec(crate::pt::u16s(), 13)).prop_map(|(raw, shift, regs)| {
        let mut other = raw.clone();
        other.insns.rotate_left(shift);
        HistCase { history: vec![crate::c13::render(&crate::c13::build(&other)).text], probe: crate::c13::render(&crate::c13::build(&raw)).text, regs }
    });
    prop_oneof![3 => general, 1 => macros].boxed()
}

fn lines_of(t: &str) -> Vec<&str> {
    t.split('\n').filter(|l| !l.trim().is_empty()).take(12).collect()
}

fn setup_vm(regs: &[u16]) -> VM {
    let mut vm = VM::new();
    let mut r = Regs::default();
    for k in 0..13 {
        r.r[k] = regs[k];
    }
    r.r[CX] &= 0x00FF;
    r.r[FLAGS] &= !0x0100;
    load(&mut vm, &r);
    vm
}

fn probe_ictx() -> InterpreterContext {
    use emulator_8086_lib::{Label, LabelType};
    let mut label_map = std::collections::HashMap::new();
    for (n, t, m) in [("start", LabelType::CODE, 0usize), ("L1", LabelType::CODE, 1), ("t_1", LabelType::CODE, 2), ("v_1", LabelType::DATA, 4), ("d_0", LabelType::DATA, 0)] {
        label_map.insert(n.to_string(), Label::new(t, 0, m));
    }
    let mut fn_map = std::collections::HashMap::new();
    fn_map.insert("p_0".to_string(), 0usize);
    InterpreterContext { fn_map, label_map, call_stack: vec![0], ..Default::default() }
}

fn answer_interp(p: &Interpreter, line: &str, regs: &[u16]) -> String {
    let mut vm = setup_vm(regs);
    let mut ictx = probe_ictx();
    let mut out = String::new();
    for _ in 0..300 {
        let r = catch(|| p.parse(3, &mut vm, &mut ictx, line).map(conv).map_err(|e| format!("{}", e)));
        out = format!("{:?}", r);
        if !matches!(r, Ok(Ok(St::Repeat))) {
            break;
        }
    }
    format!("{} regs={:?} mem={:016x} stack={:?}", out, snap(&vm).r, digest_words(&vm.mem[..]), ictx.call_stack)
}

fn answer_data(p: &DataParser, line: &str, regs: &[u16]) -> String {
    let mut vm = setup_vm(regs);
    let mut ctr = (regs[0] & 0xFF) as usize;
    let r = catch(|| p.parse(&mut vm, &mut ctr, line).map_err(|e| format!("{}", e)));
    format!("{:?} ctr={} ds={:04X} mem={:016x}", r, ctr, vm.arch.ds, digest_words(&vm.mem[..]))
}

fn answer_print(p: &print::PrintParser, line: &str, regs: &[u16]) -> String {
    let vm = setup_vm(regs);
    let r = catch(|| p.parse(&vm, line).map_err(|e| format!("{}", e)));
    format!("{:?}", r)
}

fn answer_pre(p: &Preprocessor, text: &str) -> String {
    let mut ctx = PreprocessorContext::default();
    let mut out = PreprocessorOutput::default();
    answer_pre_in(p, &mut ctx, &mut out, text)
}

/// the same answer from a context and an output list that were used before and reset with clear(), which is how
/// the library's own tests reuse them
fn answer_pre_in(p: &Preprocessor, ctx: &mut PreprocessorContext, out: &mut PreprocessorOutput, text: &str) -> String {
    ctx.clear();
    out.clear();
    let r = catch(|| p.parse(ctx, out, text).map_err(|e| format!("{}", e)));
    let ctx = std::mem::take(ctx);
    let out = std::mem::take(out);
    let mut labels: Vec<(String, usize)> = ctx.label_map.iter().map(|(k, v)| (k.clone(), v.map)).collect();
    labels.sort();
    let mut fns: Vec<(String, usize)> = ctx.fn_map.iter().map(|(k, v)| (k.clone(), *v)).collect();
    fns.sort();
    let und: Vec<(usize, String)> = crate::pipeline::undef_pairs(ctx.undefined_labels.iter());
    let mut sm: Vec<(usize, usize)> = ctx.mapper.get_source_map().into_iter().collect();
    sm.sort();
    format!("{:?} code={:?} data={:?} labels={:?} fns={:?} undefined={:?} map={:?}", r, out.code, out.data, labels, fns, und, sm)
}

/// the answer from objects that were just created and never reset (clear() is not called at all: a reset that also
/// resets something shared would hide what the objects' creation leaves alone)
fn answer_pre_new_objects(p: &Preprocessor, text: &str) -> String {
    let mut ctx = PreprocessorContext::default();
    let mut out = PreprocessorOutput::default();
    let r = catch(|| p.parse(&mut ctx, &mut out, text).map_err(|e| format!("{}", e)));
    let mut labels: Vec<(String, usize)> = ctx.label_map.iter().map(|(k, v)| (k.clone(), v.map)).collect();
    labels.sort();
    let mut fns: Vec<(String, usize)> = ctx.fn_map.iter().map(|(k, v)| (k.clone(), *v)).collect();
    fns.sort();
    let und: Vec<(usize, String)> = crate::pipeline::undef_pairs(ctx.undefined_labels.iter());
    let mut sm: Vec<(usize, usize)> = std::mem::take(&mut ctx.mapper).get_source_map().into_iter().collect();
    sm.sort();
    format!("{:?} code={:?} data={:?} labels={:?} fns={:?} undefined={:?} map={:?}", r, out.code, out.data, labels, fns, und, sm)
}

/// what `vcheck child-answer <file>` prints: the Preprocessor's answer from fresh objects in a fresh process
pub fn answer_for_child(text: &str) -> String {
    crate::emu::install_quiet_panic_hook();
    let p = Preprocessor::new();
    answer_pre_new_objects(&p, text)
}

/// a long history, all of it with objects that are created, used once and dropped (nothing is ever reset): thousands
/// of macro uses, labels, procedures, data definitions and instructions
fn long_history() -> Result<(), String> {
    {
        let mut big: Vec<String> = Vec::new();
        let mut t = String::from("macro m(a) -> inc a <-\nmacro w(a,b) -> m(a) m(b) <-\nstart:\n");
        for k in 0..1500 {
            t.push_str(if k % 3 == 0 { "w(ax,bx)\n" } else { "m(cx)\n" });
        }
        big.push(t);
        let mut t = String::new();
        for k in 0..1500 {
            t.push_str(&format!("d{}: db {}\nw{}: dw [3]\n", k, k % 256, k));
        }
        t.push_str("start:\n");
        for k in 0..1500 {
            t.push_str(&format!("l{}: mov ax, word w{}\njmp l{}\n", k, k, (k + 1) % 1500));
        }
        big.push(t);
        let mut t = String::new();
        for k in 0..800 {
            t.push_str(&format!("def p{} {{ inc ax }}\n", k));
        }
        t.push_str("start:\n");
        for k in 0..800 {
            t.push_str(&format!("call p{}\n", k));
        }
        big.push(t);
        for round in 0..2 {
            for t in &big {
                let p = Preprocessor::new();
                let a = answer_pre_new_objects(&p, t);
                if round == 0 && !a.starts_with("Ok") {
                    return Err(format!("fresh-process part: a history program is rejected: {:.160}", a));
                }
            }
        }
    }
    Ok(())
}

/// (answer here, answer of a fresh process) for one probe text
fn here_and_fresh_process(probe: &str, k: usize) -> Result<(String, String), String> {
    let exe = std::env::current_exe().map_err(|e| e.to_string())?;
    let path = format!("/verif/.build/tmp/c19-probe-{}-{}.s", std::process::id(), k);
    std::fs::write(&path, probe).map_err(|e| e.to_string())?;
    let here = {
        let p = Preprocessor::new();
        answer_pre_new_objects(&p, probe)
    };
    let out = std::process::Command::new(&exe).arg("child-answer").arg(&path).output();
    let _ = std::fs::remove_file(&path);
    match out {
        Ok(o) if o.status.success() => Ok((here, String::from_utf8_lossy(&o.stdout).to_string())),
        _ => Err("the child could not be run".into()),
    }
}

/// After everything else this process has done (thousands of texts through every parser type, on many threads), a
/// fresh Preprocessor with a fresh context must still answer like one in a process that has done nothing: state kept
/// per process (a static counter, a global cache) shows here and nowhere else
fn fresh_process_part(ctx: &Ctx) {
    let raws = crate::pt::generate(ctx.sub_seed("c19-fresh-process", 0), 10, &crate::c13::raw_s());
    let mut probes: Vec<String> = raws.iter().map(|r| crate::c13::render(&crate::c13::build(r)).text).collect();
    probes.push(crate::c13::chain_program(40, false));
    probes.push("macro m(a) -> inc a <-\nstart: m(ax)\nm(bx)\nm(cx)\n".to_string());
    let _ = std::fs::create_dir_all("/verif/.build/tmp");
    if let Err(e) = long_history() {
        ctx.harness_error(&e);
        return;
    }
    for (k, probe) in probes.iter().enumerate() {
        ctx.add_evals(1);
        let (here, there) = match here_and_fresh_process(probe, k) {
            Ok(x) => x,
            Err(e) => {
                ctx.inconclusive(&format!("fresh-process probe: {}", e));
                continue;
            }
        };
        if here != there {
            ctx.fail(Failure {
                key: "c19|process-state|preprocessor".into(),
                what: format!("a fresh Preprocessor and context in this process (which has parsed thousands of other texts, the last ones with about 7000 macro uses, 3000 labels, 3000 data definitions and 1600 procedures) answers differently from a fresh process: here {:.200} / fresh process {:.200}", here, there),
                replay: json!({"kind":"c19-fresh-process","probe":probe}),
            });
            return;
        }
        ctx.add_nontrivial(1);
        ctx.class("c19/fresh-process-agrees", 1);
    }
}

pub fn eval_hist(c: &HistCase) -> CaseOutcome {
    let replay = json!({"kind":"c19-hist","history":c.history,"probe":c.probe,"regs":c.regs});
    let probe_lines = lines_of(&c.probe);
    let mut had_err = false;
    // fresh objects, in a brand-new thread: neither an object nor a thread-local or static that the history
    // below may have filled can have seen anything
    let (fresh, fresh_pre): (Vec<String>, String) = {
        let probe = c.probe.clone();
        let regs = c.regs.clone();
        std::thread::spawn(move || {
            crate::emu::install_quiet_panic_hook();
            let (fi, fd, fp, fpre) = (Interpreter::new(), DataParser::new(), print::PrintParser::new(), Preprocessor::new());
            let pl = lines_of(&probe);
            let fresh: Vec<String> = pl.iter().flat_map(|l| vec![answer_interp(&fi, l, &regs), answer_data(&fd, l, &regs), answer_print(&fp, l, &regs)]).collect();
            (fresh, answer_pre(&fpre, &probe))
        })
        .join()
        .unwrap_or_else(|_| (vec![], "thread panicked".into()))
    };
    // used objects: first process the history (on other machines and contexts)
    let (ui, ud, up, upre) = (Interpreter::new(), DataParser::new(), print::PrintParser::new(), Preprocessor::new());
    let mut shared_ctx = PreprocessorContext::default();
    let mut shared_out = PreprocessorOutput::default();
    for h in &c.history {
        let a = answer_pre(&upre, h);
        // a second Preprocessor keeps ONE context and output list, reset with clear() between texts
        let _ = catch(|| {
            shared_ctx.clear();
            shared_out.clear();
            let _ = upre.parse(&mut shared_ctx, &mut shared_out, h);
        });
        had_err |= a.starts_with("Ok(Err") || a.starts_with("Err");
        // the history runs on another machine and context: only the parser objects see it
        let mut hvm = setup_vm(&c.regs);
        let mut hctx = probe_ictx();
        for l in lines_of(h) {
            for _ in 0..300 {
                let r = catch(|| ui.parse(3, &mut hvm, &mut hctx, l).map(conv).map_err(|_| ()));
                had_err |= matches!(r, Ok(Err(_)));
                if !matches!(r, Ok(Ok(St::Repeat))) {
                    break;
                }
            }
            let mut ctr = 0usize;
            let _ = catch(|| ud.parse(&mut hvm, &mut ctr, l).map_err(|_| ()));
            let _ = catch(|| up.parse(&hvm, l).map_err(|_| ()));
        }
    }
    let used: Vec<String> = probe_lines.iter().flat_map(|l| vec![answer_interp(&ui, l, &c.regs), answer_data(&ud, l, &c.regs), answer_print(&up, l, &c.regs)]).collect();
    let used_pre = answer_pre(&upre, &c.probe);
    let reused_pre = answer_pre_in(&upre, &mut shared_ctx, &mut shared_out, &c.probe);
    if fresh_pre != reused_pre {
        return CaseOutcome::Fail { key: "c19|parser-state|preprocessor-context-after-clear".into(), what: format!("a Preprocessor with a context that processed {} other texts and was reset with clear() answers differently from a fresh one: fresh {:.200} / reused {:.200}", c.history.len(), fresh_pre, reused_pre), replay };
    }
    if fresh_pre != used_pre {
        return CaseOutcome::Fail { key: "c19|parser-state|preprocessor".into(), what: format!("a Preprocessor object that has processed {} other texts answers differently from a fresh one: fresh {:.200} / used {:.200}", c.history.len(), fresh_pre, used_pre), replay };
    }
    for (k, (f, u)) in fresh.iter().zip(used.iter()).enumerate() {
        if f != u {
            let which = ["interpreter", "data-loader", "print-reader"][k % 3];
            return CaseOutcome::Fail {
                key: format!("c19|parser-state|{}", which),
                what: format!("a {} object that has processed other lines answers {:?} differently from a fresh one: fresh {:.200} / used {:.200}", which, probe_lines[k / 3], f, u),
                replay,
            };
        }
    }
    let mut classes = vec!["c19/parser-history".to_string()];
    if c.history.len() == 1 && c.probe.contains("macro ") && c.history[0].contains("macro ") && c.probe != c.history[0] {
        classes.push("c19/parser-history-same-macro-names-other-bodies".into());
    }
    if had_err {
        classes.push("c19/parser-history-with-error".into());
    }
    CaseOutcome::Pass { nontrivial: had_err, classes, digest: fnv_str(&c.probe) ^ fnv_str(&c.history.join("\u{1}")).rotate_left(21) }
}

// ------------------------------------------------------------------ (1) determinism of whole runs

#[derive(Clone, Debug)]
pub struct DetCase {
    pub raw: crate::c14::Raw14,
    /// (position selector, kind) of the extra invalid statements
    pub errors: Vec<(u16, u8)>,
    pub interpreted: bool,
    pub stdin_lines: u8,
}

pub fn det_s() -> BoxedStrategy<DetCase> {
    let general = proptest::collection::vec((any::<u16>(), 0u8..16), 0..7);
    // only uses of a macro whose body holds several jumps, all to undefined labels: every jump of one use is recorded
    // at the position of that use, so the order among them is not decided by the position
    let multi = proptest::collection::vec((any::<u16>(), 11u8..14), 1..3);
    // a circle of three or four macros, a circle of two entered through a third: whatever the diagnostic says about the
    // macros involved, it says the same in every run
    let cycles = proptest::collection::vec((any::<u16>(), 16u8..20), 1..3);
    (crate::c14::raw_s(), prop_oneof![8 => general, 2 => multi, 1 => cycles], any::<bool>(), 0u8..12)
        .prop_map(|(raw, errors, interpreted, stdin_lines)| DetCase { raw, errors, interpreted, stdin_lines })
        .boxed()
}

pub fn det_source(c: &DetCase) -> String {
    let p = crate::c14::build_parent(&c.raw);
    let mut lines: Vec<String> = p.lines.iter().map(|l| l.text.clone()).collect();
    let first_code = p.lines.iter().position(|l| !matches!(l.kind, crate::c14::LK::Data(_))).unwrap_or(0);
    for (k, (pos, kind)) in c.errors.iter().enumerate() {
        let at = first_code + crate::pt::idx(*pos, lines.len() - first_code + 1);
        let stmt = match kind {
            // undefined labels are reported by the driver from a set: the interesting class
            0 | 1 | 2 | 3 => format!("{} undef_{}", ["jmp", "jz", "loop", "JNBE"][*kind as usize], k),
            4 => format!("jmp undef_{}", k % 2),
            5 => "mov al, byte nosuch".to_string(),
            // jumps that come out of one macro: every use records its jump at the same position inside the expansion
            8 | 9 | 10 => format!("jq9(undef_m{})", k),
            // several jumps out of ONE macro use
            11 => format!("jq2(undef_a{}, undef_b{})", k, k),
            12 => format!("jq2(undef_z{}, undef_a{})", k, k),
            13 => format!("jq3(undef_c{}, undef_a{}, undef_b{})", k, k, k),
            // no exact 'start' but several labels that spell it in another case (handled after the loop)
            14 => "nop".to_string(),
            // ordinary labels that spell start in another case, next to the real start (labels are case sensitive)
            15 => format!("START:\nmov dl, 36\nmov ah, 2\nint 0x21\nStart:\nmov dl, 37\nint 0x21\nsTart{}:", k),
            6 => format!("dup_{}: nop\ndup_{}: nop", k, k),
            16 => "cy_a(ax)".to_string(),
            17 => "cy_in(bx)".to_string(),
            18 => "cy_w(cx)".to_string(),
            19 => "cy_b(dx)".to_string(),
            _ => "mov ax, 70000".to_string(),
        };
        // top level only (a label definition may not be valid inside every context)
        lines.insert(at.min(lines.len()), stmt);
    }
    // kind 15 may be drawn several times: keep one copy (a second would be a duplicate definition)
    {
        let mut seen = false;
        lines.retain(|l| {
            if l.starts_with("START:\nmov dl, 36") {
                if seen {
                    return false;
                }
                seen = true;
            }
            true
        });
    }
    if c.errors.iter().any(|(_, k)| *k == 14) && !c.errors.iter().any(|(_, k)| *k == 15) {
        // start: -> START: and a second variant further down
        for l in lines.iter_mut() {
            if l.trim() == "start:" {
                *l = "START:".to_string();
            }
        }
        lines.push("Start:".to_string());
        lines.push("mov dl, 35".to_string());
        lines.push("mov ah, 2".to_string());
        lines.push("int 0x21".to_string());
        lines.push("sTART:".to_string());
        lines.push("print reg".to_string());
    }
    if c.errors.iter().any(|(_, k)| *k >= 16 && *k <= 19) {
        for d in [
            "macro cy_a(r) -> inc r cy_b(r) <-",
            "macro cy_b(r) -> dec r cy_c(r) <-",
            "macro cy_c(r) -> neg r cy_a(r) <-",
            "macro cy_in(r) -> not r cy_p(r) <-",
            "macro cy_p(r) -> inc r cy_q(r) <-",
            "macro cy_q(r) -> dec r cy_p(r) <-",
            "macro cy_w(r) -> cy_x(r) <-",
            "macro cy_x(r) -> cy_y(r) <-",
            "macro cy_y(r) -> cy_z(r) <-",
            "macro cy_z(r) -> cy_w(r) <-",
        ] {
            lines.insert(first_code, d.to_string());
        }
    }
    if c.errors.iter().any(|(_, k)| *k >= 8 && *k <= 13) {
        lines.insert(first_code, "macro jq9(t) -> jmp t <-".to_string());
        lines.insert(first_code, "macro jq2(a,b) -> jo a jmp b <-".to_string());
        lines.insert(first_code, "macro jq3(a,b,c) -> jc a jz b loop c <-".to_string());
    }
    crate::c14::text_of(&lines)
}

pub fn eval_det(c: &DetCase) -> CaseOutcome {
    let src = det_source(c);
    let stdin: Vec<u8> = (0..c.stdin_lines).flat_map(|i| if i % 5 == 4 { b"print reg\n".to_vec() } else { b"n\n".to_vec() }).collect();
    let run = || run_cli(src.as_bytes(), if stdin.is_empty() { Stdin::Closed } else { Stdin::Data(&stdin) }, c.interpreted, 4 << 20, 30_000);
    let t0 = std::time::Instant::now();
    let first = run();
    if std::env::var("VERIF_DEBUG_SLOW").is_ok() && t0.elapsed().as_millis() > 800 {
        eprintln!("SLOW {} ms interpreted={} stdin_lines={} status={:?}\n{}\n----", t0.elapsed().as_millis(), c.interpreted, c.stdin_lines, first.status, src);
    }
    if matches!(first.status, Status::Timeout | Status::SpawnError(_)) {
        return CaseOutcome::Inconclusive(format!("{:?}", first.status));
    }
    let replay = json!({"kind":"c19-det","source":src,"stdin":String::from_utf8_lossy(&stdin),"interpreted":c.interpreted});
    for k in 1..5 {
        let o = run();
        if matches!(o.status, Status::Timeout | Status::SpawnError(_)) {
            return CaseOutcome::Inconclusive(format!("{:?}", o.status));
        }
        if o.stdout != first.stdout || o.status != first.status || strip_tid(&o.err_str()) != strip_tid(&first.err_str()) {
            let a = first.out_str();
            let b = o.out_str();
            let la = a.lines().zip(b.lines()).find(|(x, y)| x != y);
            return CaseOutcome::Fail {
                key: format!("c19|nondeterministic-output|{}", if a.contains("used but not defined") || b.contains("used but not defined") { "undefined-label-report" } else { "other" }),
                what: format!("run 1 and run {} of the same program with the same input differ: {:?} (status {:?} vs {:?})", k + 1, la, first.status, o.status),
                replay,
            };
        }
    }
    let n_und = c.errors.iter().filter(|(_, k)| *k <= 4 || (*k >= 8 && *k <= 13)).count();
    let n_mac = c.errors.iter().filter(|(_, k)| *k >= 8 && *k <= 13).count();
    let mut classes = vec!["c19/determinism".to_string()];
    if c.errors.len() >= 2 {
        classes.push("c19/determinism-several-errors".into());
    }
    if n_und >= 2 && first.out_str().contains("used but not defined") {
        classes.push("c19/determinism-several-undefined-labels-reported".into());
    }
    if n_mac >= 2 && first.out_str().contains("used but not defined") {
        classes.push("c19/determinism-several-undefined-labels-from-one-macro".into());
    }
    if c.errors.iter().any(|(_, k)| *k == 14) && !c.errors.iter().any(|(_, k)| *k == 15) {
        classes.push("c19/determinism-start-in-other-case-only".into());
    }
    if c.errors.iter().any(|(_, k)| *k == 15) {
        classes.push("c19/determinism-start-and-case-variants".into());
    }
    if c.errors.iter().any(|(_, k)| *k >= 11 && *k <= 13) && c.errors.iter().all(|(_, k)| *k <= 4 || (*k >= 8 && *k <= 13)) && first.out_str().contains("used but not defined") {
        classes.push("c19/determinism-several-undefined-labels-from-one-macro-use".into());
    }
    if c.errors.is_empty() {
        classes.push("c19/determinism-valid-program".into());
    }
    if c.errors.iter().any(|(_, k)| *k >= 16 && *k <= 19) && first.out_str().to_lowercase().contains("recursive") {
        classes.push("c19/determinism-macro-circle-reported".into());
    }
    CaseOutcome::Pass { nontrivial: c.errors.len() >= 2, classes, digest: fnv_str(&src) }
}

/// thread ids in panic messages differ between runs by design of the runtime
fn strip_tid(s: &str) -> String {
    let mut out = String::new();
    let mut rest = s;
    while let Some(i) = rest.find("thread '") {
        out.push_str(&rest[..i]);
        match rest[i..].find(") panicked") {
            Some(j) => rest = &rest[i + j..],
            None => {
                rest = &rest[i + 8..];
            }
        }
    }
    out.push_str(rest);
    out
}

// ------------------------------------------------------------------ (5) concurrent threads

fn threads_round(ctx: &Ctx, round: u64) {
    let cases = crate::pt::generate(ctx.sub_seed("c19-threads", round), 16, &stream_s());
    let run_one = |s: &Stream| -> Option<(Regs, u64, Vec<usize>, Vec<String>)> {
        let interp = Interpreter::new();
        let mut r = Runner::new(s).ok()?;
        while !r.done() {
            r.step_with(&interp);
        }
        Some(r.summary())
    };
    let sequential: Vec<_> = cases.iter().map(|s| run_one(s)).collect();
    let barrier = std::sync::Arc::new(std::sync::Barrier::new(cases.len()));
    let handles: Vec<_> = cases
        .iter()
        .cloned()
        .map(|s| {
            let b = barrier.clone();
            std::thread::spawn(move || {
                crate::emu::install_quiet_panic_hook();
                b.wait();
                let interp = Interpreter::new();
                let mut r = Runner::new(&s).ok()?;
                while !r.done() {
                    r.step_with(&interp);
                }
                Some(r.summary())
            })
        })
        .collect();
    let concurrent: Vec<_> = handles.into_iter().map(|h| h.join().ok().flatten()).collect();
    ctx.add_evals(16);
    ctx.class("c19/threads", 16);
    for (k, (a, b)) in sequential.iter().zip(concurrent.iter()).enumerate() {
        if a != b {
            ctx.fail(Failure {
                key: "c19|threads|result-depends-on-concurrency".into(),
                what: format!("stream {} of round {} ends differently when 16 threads run private machines at the same time", k, round),
                replay: json!({"kind":"c19-iso","a":stream_source(&cases[k]),"b":stream_source(&cases[(k + 1) % 16]),"a_regs":cases[k].regs,"b_regs":cases[(k + 1) % 16].regs,"schedule":[true,false]}),
            });
            return;
        }
    }
    ctx.add_nontrivial(1);
}

pub fn run(ctx: &Ctx) {
    if !crate::pipeline::DRIVER_SRC {
        ctx.note("the driver's pure modules (preprocess.rs, error_helper.rs, print.rs) of the working tree do not compile stand-alone into the harness: in-process calls of preprocess() and of the print reader are replaced by stubs; the CLI parts decide for them");
    }
    ctx.set_rule("(1) determinism: generated programs -- valid terminating ones and ones with 0-6 extra invalid statements at random top-level positions (jumps to 2-6 different undefined labels, the same undefined label twice, unknown data name, duplicate label, out-of-range constant), plain or with -i and a stdin script -- are each run 5 times in separate processes with the same input; stdout, stderr and exit status must be byte-identical. (2) a new machine is all zero except FLAGS=F000h, CS=FFFFh (checked on every worker before and after the other parts). (3) isolation: two proptest-generated instruction streams (all instruction classes, REP included) on two machines and two contexts SHARING ONE Interpreter object under a generated interleaving (switches also between the iterations of a REP), versus each stream alone on fresh objects: registers, whole memory, call stack and per-instruction outcomes must be identical. (4) parser statelessness: for Interpreter, DataParser, print reader and Preprocessor, the answer (result, registers, memory digest, counter, emitted lists and maps) to a probe text from a fresh object versus from an object that first processed 1-5 other texts, valid and invalid (C15's mutated texts). (5) 16 threads run private streams on private machines simultaneously, compared with the sequential results. The two programs of an isolation case define the code labels t_0..t_2 at different places and jump to them (the outcome of every jump is logged). Non-trivial = a program with >= 2 simultaneous errors, an interleaving with >= 10 switches, a parser history containing an error.");
    ctx.assume("thread ids inside panic messages are not compared (they differ by design of the runtime); the OS scheduler is not controlled: part (5) is an execution, not an enumeration of schedules");
    ctx.set_exhaustive(false);
    let workers: Vec<Result<(), String>> = (0..16).into_par_iter().map(|_| check_new_vm()).collect();
    for w in &workers {
        ctx.add_evals(1);
        if let Err(e) = w {
            ctx.fail(Failure { key: "c19|new-machine".into(), what: e.clone(), replay: json!({"kind":"c19-newvm"}) });
        }
    }
    crate::pt::set_max_shrink_iters(300);
    let n_iso = ctx.tier.pick(5_000u32, 100_000u32);
    run_inproc(ctx, "c19-isolation", n_iso, iso_s, eval_iso, |c| json!({"first_stream": stream_source(&c.a), "second_stream": stream_source(&c.b), "schedule_len": c.schedule.len()}));
    let quiet = QuietStdout::new();
    let n_hist = ctx.tier.pick(2_400u32, 40_000u32);
    run_inproc(ctx, "c19-parser-history", n_hist, hist_s, eval_hist, |c| json!({"probe": c.probe.chars().take(200).collect::<String>(), "history_len": c.history.len()}));
    // deep macro chains in the history (rejected at the nesting limit, or accepted just below it), then a short chain
    // over the same macro names
    let chain_cases: Vec<HistCase> = [(150usize, 3usize), (101, 1), (100, 100), (102, 50), (300, 99), (99, 100), (120, 120)]
        .iter()
        .map(|(d1, d2)| HistCase { history: vec![crate::c13::chain_program(*d1, false), crate::c13::chain_program(*d1 + 7, true)], probe: crate::c13::chain_program(*d2, false), regs: vec![0; 13] })
        .collect();
    let outs: Vec<CaseOutcome> = chain_cases.par_iter().map(eval_hist).collect();
    for (c, o) in chain_cases.iter().zip(outs) {
        ctx.add_evals(1);
        match o {
            CaseOutcome::Pass { .. } => {
                ctx.add_nontrivial(1);
                ctx.class("c19/parser-history-deep-macro-chain", 1);
            }
            CaseOutcome::Fail { key, what, .. } => ctx.fail(Failure { key, what: format!("[deep chain history] {}", what), replay: json!({"kind":"c19-hist","history":c.history,"probe":c.probe,"regs":c.regs}) }),
            CaseOutcome::Inconclusive(w) => ctx.inconclusive(&w),
            CaseOutcome::Known(_) => {}
        }
    }
    drop(quiet);
    ctx.note(&format!("isolation and parser-history parts finished after {:.1}s", ctx.start.elapsed().as_secs_f64()));
    for r in 0..ctx.tier.pick(4u64, 64u64) {
        threads_round(ctx, r);
    }
    ctx.note(&format!("thread rounds finished after {:.1}s", ctx.start.elapsed().as_secs_f64()));
    fresh_process_part(ctx);
    let workers: Vec<Result<(), String>> = (0..16).into_par_iter().map(|_| check_new_vm()).collect();
    for w in &workers {
        ctx.add_evals(1);
        if let Err(e) = w {
            ctx.fail(Failure { key: "c19|new-machine".into(), what: format!("after other machines were used and dropped: {}", e), replay: json!({"kind":"c19-newvm"}) });
        }
    }
    if !cli_available() {
        ctx.harness_error("CLI binary not built");
        return;
    }
    let n_det = ctx.tier.pick(400usize, 5_000usize);
    run_cases(ctx, "c19-determinism", n_det, det_s, eval_det, |c| json!({"source": det_source(c), "interpreted": c.interpreted, "stdin_lines": c.stdin_lines}));
    ctx.note(&format!("determinism part finished after {:.1}s", ctx.start.elapsed().as_secs_f64()));
    ctx.require_class("c19/isolation-10-switches", 500);
    ctx.require_class("c19/isolation-interleaved-inside-rep", 50);
    ctx.require_class("c19/isolation-same-label-name-at-different-places-both-jump", 200);
    ctx.require_class("c19/parser-history-with-error", 500);
    ctx.require_class("c19/determinism-several-errors", 100);
    ctx.require_class("c19/determinism-several-undefined-labels-reported", 30);
    ctx.require_class("c19/determinism-valid-program", 20);
    ctx.require_class("c19/determinism-several-undefined-labels-from-one-macro", 15);
    ctx.require_class("c19/determinism-several-undefined-labels-from-one-macro-use", 15);
    ctx.require_class("c19/determinism-macro-circle-reported", 10);
    ctx.require_class("c19/parser-history-same-macro-names-other-bodies", 100);
}

pub fn replay(v: &Value) -> Result<String, String> {
    let regs = |k: &str| -> Vec<u16> { v[k].as_array().map(|a| a.iter().map(|x| x.as_u64().unwrap_or(0) as u16).collect()).unwrap_or_else(|| vec![0; 13]) };
    match v["kind"].as_str().unwrap_or("") {
        "c19-newvm" => check_new_vm().map(|_| "a new machine is zero except FLAGS and CS".to_string()),
        "c19-det" => {
            let src = v["source"].as_str().ok_or("no source")?;
            let stdin = v["stdin"].as_str().unwrap_or("").as_bytes().to_vec();
            let interp = v["interpreted"].as_bool().unwrap_or(false);
            let run = || run_cli(src.as_bytes(), if stdin.is_empty() { Stdin::Closed } else { Stdin::Data(&stdin) }, interp, 4 << 20, 30_000);
            let first = run();
            let mut rep = format!("source:\n{}\nrun 1 stdout:\n{}\n", src, first.out_str());
            for k in 1..8 {
                let o = run();
                if o.stdout != first.stdout || o.status != first.status {
                    rep.push_str(&format!("run {} stdout:\n{}\n", k + 1, o.out_str()));
                    return Err(rep);
                }
            }
            Ok(rep)
        }
        "c19-fresh-process" => {
            let probe = v["probe"].as_str().ok_or("no probe")?;
            let _q = QuietStdout::new();
            let r = long_history().and_then(|_| here_and_fresh_process(probe, 0));
            drop(_q);
            let (here, there) = r?;
            if here == there {
                Ok(format!("after the long history a fresh Preprocessor answers like a fresh process: {:.300}", here))
            } else {
                Err(format!("probe:\n{}\nafter the long history, here: {:.300}\nfresh process: {:.300}", probe, here, there))
            }
        }
        "c19-hist" => {
            let c = HistCase { history: v["history"].as_array().map(|a| a.iter().map(|x| x.as_str().unwrap_or("").to_string()).collect()).unwrap_or_default(), probe: v["probe"].as_str().unwrap_or("").to_string(), regs: regs("regs") };
            let _q = QuietStdout::new();
            let r = eval_hist(&c);
            drop(_q);
            match r {
                CaseOutcome::Fail { what, .. } => Err(what),
                _ => Ok("fresh and used parser objects answer identically".into()),
            }
        }
        _ => {
            // streams are stored as source text: re-assemble and compare alone vs interleaved
            let parse_stream = |src: &str, regs: Vec<u16>| -> Result<Runner, String> {
                let asm = assemble(src)?;
                let mut vm = VM::new();
                let mut r = Regs::default();
                for k in 0..13 {
                    r.r[k] = regs[k];
                }
                r.r[CX] &= 0x01FF;
                r.r[FLAGS] &= !0x0100;
                load(&mut vm, &r);
                load_data(&mut vm, &asm.data)?;
                vm.arch.ds = regs[DS];
                Ok(Runner { code: asm.code, ictx: asm.ictx, vm, pc: 0, steps: 0, log: vec![] })
            };
            let (a, b) = (v["a"].as_str().unwrap_or(""), v["b"].as_str().unwrap_or(""));
            let sched: Vec<bool> = v["schedule"].as_array().map(|x| x.iter().map(|y| y.as_bool().unwrap_or(false)).collect()).unwrap_or_default();
            let alone = |src: &str, rg: Vec<u16>| -> Result<_, String> {
                let i = Interpreter::new();
                let mut r = parse_stream(src, rg)?;
                while !r.done() {
                    r.step_with(&i);
                }
                Ok(r.summary())
            };
            let sa = alone(a, regs("a_regs"))?;
            let sb = alone(b, regs("b_regs"))?;
            let interp = Interpreter::new();
            let mut ra = parse_stream(a, regs("a_regs"))?;
            let mut rb = parse_stream(b, regs("b_regs"))?;
            let mut k = 0;
            while !ra.done() || !rb.done() {
                let pa = if ra.done() {
                    false
                } else if rb.done() {
                    true
                } else {
                    let x = if sched.is_empty() { k % 2 == 0 } else { sched[k % sched.len()] };
                    k += 1;
                    x
                };
                if pa {
                    ra.step_with(&interp);
                } else {
                    rb.step_with(&interp);
                }
            }
            if ra.summary() == sa && rb.summary() == sb {
                Ok("alone and interleaved runs agree".into())
            } else {
                Err(format!("streams:\n{}\n---\n{}\nalone and interleaved runs differ", a, b))
            }
        }
    }
}
