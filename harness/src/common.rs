//! Engine infrastructure shared by all checks: run context, evidence, known findings,
//! replay files, verdicts and exit codes.
use serde_json::{json, Value};
use std::collections::{BTreeMap, BTreeSet, HashSet};
use std::sync::Mutex;
use std::time::Instant;

pub const VERIF_DIR: &str = "/verif";

#[derive(Clone, Copy, PartialEq, Eq, Debug)]
pub enum Tier {
    Quick,
    Thorough,
}

impl Tier {
    pub fn name(self) -> &'static str {
        match self {
            Tier::Quick => "quick",
            Tier::Thorough => "thorough",
        }
    }
    /// pick a work amount by tier
    pub fn pick<T>(self, q: T, t: T) -> T {
        match self {
            Tier::Quick => q,
            Tier::Thorough => t,
        }
    }
}

pub fn fnv64(data: &[u8]) -> u64 {
    let mut h: u64 = 0xcbf29ce484222325;
    for b in data {
        h ^= *b as u64;
        h = h.wrapping_mul(0x100000001b3);
    }
    h
}

/// digest of a large buffer, eight bytes at a time (used for whole-memory comparisons)
pub fn digest_words(data: &[u8]) -> u64 {
    let mut h: u64 = 0x9E3779B97F4A7C15;
    let mut it = data.chunks_exact(8);
    for c in &mut it {
        let w = u64::from_le_bytes([c[0], c[1], c[2], c[3], c[4], c[5], c[6], c[7]]);
        h = (h ^ w).wrapping_mul(0x100000001b3).rotate_left(23);
    }
    for b in it.remainder() {
        h = (h ^ *b as u64).wrapping_mul(0x100000001b3);
    }
    h
}

pub fn fnv_str(s: &str) -> u64 {
    fnv64(s.as_bytes())
}

/// splitmix64: used only to derive per-shard proptest seeds from VERIF_SEED and for
/// deterministic (seed independent) background patterns -- never as a source of test
/// inputs outside proptest.
pub fn splitmix(mut x: u64) -> u64 {
    x = x.wrapping_add(0x9E3779B97F4A7C15);
    let mut z = x;
    z = (z ^ (z >> 30)).wrapping_mul(0xBF58476D1CE4E5B9);
    z = (z ^ (z >> 27)).wrapping_mul(0x94D049BB133111EB);
    z ^ (z >> 31)
}

/// One known finding (open) or one repaired defect (fixed) from known_findings.txt
#[derive(Clone, Debug)]
pub struct Finding {
    pub open: bool,
    pub property: String,
    pub key: String,
    pub what: String,
}

pub fn load_findings() -> Vec<Finding> {
    let path = format!("{}/known_findings.txt", VERIF_DIR);
    let txt = std::fs::read_to_string(&path).unwrap_or_default();
    let mut v = Vec::new();
    for line in txt.lines() {
        let line = line.trim();
        if line.is_empty() || line.starts_with('#') {
            continue;
        }
        // known: property=C06 key=<key> what=<free text>
        // fixed: property=C05 <commit> <what failed>
        if let Some(rest) = line.strip_prefix("known:") {
            let rest = rest.trim();
            let mut property = String::new();
            let mut key = String::new();
            let mut what = String::new();
            if let Some(p) = rest.strip_prefix("property=") {
                let mut it = p.splitn(2, ' ');
                property = it.next().unwrap_or("").to_string();
                let r2 = it.next().unwrap_or("").trim();
                if let Some(k) = r2.strip_prefix("key=") {
                    let mut it2 = k.splitn(2, " what=");
                    key = it2.next().unwrap_or("").trim().to_string();
                    what = it2.next().unwrap_or("").trim().to_string();
                }
            }
            if !property.is_empty() && !key.is_empty() {
                v.push(Finding {
                    open: true,
                    property,
                    key,
                    what,
                });
            }
        } else if let Some(rest) = line.strip_prefix("fixed:") {
            let rest = rest.trim();
            if let Some(p) = rest.strip_prefix("property=") {
                let mut it = p.splitn(3, ' ');
                let property = it.next().unwrap_or("").to_string();
                let commit = it.next().unwrap_or("").to_string();
                let what = it.next().unwrap_or("").to_string();
                v.push(Finding {
                    open: false,
                    property,
                    key: commit,
                    what,
                });
            }
        }
    }
    v
}

/// A failure found by a check, before classification.
#[derive(Clone, Debug)]
pub struct Failure {
    /// classification key; compared with the open known findings of the property
    pub key: String,
    /// short human description
    pub what: String,
    /// self-contained replay description
    pub replay: Value,
}

pub struct Ctx {
    pub prop: &'static str,
    pub tier: Tier,
    pub seed: u64,
    pub start: Instant,
    pub findings: Vec<Finding>,
    inner: Mutex<Inner>,
}

#[derive(Default)]
struct Inner {
    evaluations: u64,
    nontrivial_counted: u64,
    nontrivial_set: HashSet<u64>,
    samples: Vec<Value>,
    classes: BTreeMap<String, u64>,
    known_hits: BTreeMap<String, u64>,
    failures: Vec<Failure>,
    failure_keys: BTreeSet<String>,
    notes: Vec<String>,
    assumptions: Vec<String>,
    extra: BTreeMap<String, Value>,
    exhaustive: Option<bool>,
    rule: String,
    harness_errors: Vec<String>,
    inconclusive: Vec<String>,
}

impl Ctx {
    pub fn new(prop: &'static str, tier: Tier, seed: u64) -> Ctx {
        Ctx {
            prop,
            tier,
            seed,
            start: Instant::now(),
            findings: load_findings(),
            inner: Mutex::new(Inner::default()),
        }
    }

    /// derive a proptest seed for a named sub-check and shard
    pub fn sub_seed(&self, name: &str, shard: u64) -> u64 {
        splitmix(self.seed ^ splitmix(fnv_str(self.prop) ^ splitmix(fnv_str(name) ^ shard.wrapping_mul(0x9E37))))
    }

    /// open known-finding keys of this property
    pub fn open_keys(&self) -> Vec<String> {
        self.findings
            .iter()
            .filter(|f| f.open && f.property == self.prop)
            .map(|f| f.key.clone())
            .collect()
    }
    pub fn is_open(&self, key: &str) -> bool {
        self.findings
            .iter()
            .any(|f| f.open && f.property == self.prop && f.key == key)
    }
    /// is a quirk (model key) open for ANY property -- quirks are shared defect models
    pub fn quirk_open(&self, key: &str) -> bool {
        self.findings.iter().any(|f| f.open && f.key == key)
    }

    pub fn add_evals(&self, n: u64) {
        self.inner.lock().unwrap().evaluations += n;
    }
    /// count enumerated (distinct by construction) non-trivial cases
    pub fn add_nontrivial(&self, n: u64) {
        self.inner.lock().unwrap().nontrivial_counted += n;
    }
    /// count a sampled non-trivial case; distinctness by digest
    pub fn nontrivial_digest(&self, d: u64) {
        self.inner.lock().unwrap().nontrivial_set.insert(d);
    }
    pub fn nontrivial_digests(&self, ds: &[u64]) {
        let mut g = self.inner.lock().unwrap();
        for d in ds {
            g.nontrivial_set.insert(*d);
        }
    }
    pub fn sample(&self, v: Value) {
        let mut g = self.inner.lock().unwrap();
        if g.samples.len() < 24 {
            g.samples.push(v);
        }
    }
    pub fn samples_len(&self) -> usize {
        self.inner.lock().unwrap().samples.len()
    }
    pub fn class(&self, name: &str, n: u64) {
        *self
            .inner
            .lock()
            .unwrap()
            .classes
            .entry(name.to_string())
            .or_insert(0) += n;
    }
    pub fn classes_merge(&self, m: &BTreeMap<String, u64>) {
        let mut g = self.inner.lock().unwrap();
        for (k, v) in m {
            *g.classes.entry(k.clone()).or_insert(0) += *v;
        }
    }
    pub fn class_count(&self, name: &str) -> u64 {
        *self.inner.lock().unwrap().classes.get(name).unwrap_or(&0)
    }
    pub fn note(&self, s: &str) {
        self.inner.lock().unwrap().notes.push(s.to_string());
    }
    pub fn assume(&self, s: &str) {
        let mut g = self.inner.lock().unwrap();
        if !g.assumptions.iter().any(|a| a == s) {
            g.assumptions.push(s.to_string());
        }
    }
    pub fn extra(&self, k: &str, v: Value) {
        self.inner.lock().unwrap().extra.insert(k.to_string(), v);
    }
    pub fn set_rule(&self, s: &str) {
        self.inner.lock().unwrap().rule = s.to_string();
    }
    pub fn set_exhaustive(&self, b: bool) {
        self.inner.lock().unwrap().exhaustive = Some(b);
    }
    pub fn harness_error(&self, s: &str) {
        self.inner.lock().unwrap().harness_errors.push(s.to_string());
    }
    pub fn inconclusive(&self, s: &str) {
        self.inner.lock().unwrap().inconclusive.push(s.to_string());
    }
    /// require a class to be populated (vacuity is an error)
    pub fn require_class(&self, name: &str, min: u64) {
        let c = self.class_count(name);
        if c < min {
            self.harness_error(&format!(
                "vacuity: class '{}' has {} cases, at least {} required",
                name, c, min
            ));
        }
    }

    /// report a failure; classification against known findings happens in finish()
    pub fn fail(&self, f: Failure) {
        let mut g = self.inner.lock().unwrap();
        // keep one representative per key (the first reported), count the others
        if g.failure_keys.contains(&f.key) {
            *g.known_hits.entry(format!("dup:{}", f.key)).or_insert(0) += 1;
            return;
        }
        g.failure_keys.insert(f.key.clone());
        g.failures.push(f);
    }
    /// a case hit an open known finding (counted, skipped, search goes on)
    pub fn known_hit(&self, key: &str, n: u64) {
        *self
            .inner
            .lock()
            .unwrap()
            .known_hits
            .entry(key.to_string())
            .or_insert(0) += n;
    }
    pub fn failures_so_far(&self) -> usize {
        self.inner.lock().unwrap().failures.len()
    }

    /// Write evidence, print verdict lines, return the exit code.
    pub fn finish(&self) -> i32 {
        let mut g = self.inner.lock().unwrap();
        let wall = self.start.elapsed().as_secs_f64();
        // classify failures
        let mut violations: Vec<Failure> = Vec::new();
        let failures = std::mem::take(&mut g.failures);
        for f in failures {
            if self.is_open(&f.key) {
                *g.known_hits.entry(f.key.clone()).or_insert(0) += 1;
            } else {
                violations.push(f);
            }
        }
        // KNOWN-FINDING lines: one per open key that was met
        let mut known_lines = Vec::new();
        for fd in self.findings.iter().filter(|f| f.open && f.property == self.prop) {
            if let Some(n) = g.known_hits.get(&fd.key) {
                if *n > 0 {
                    known_lines.push(format!(
                        "KNOWN-FINDING: property={} key={} hits={} {}",
                        self.prop, fd.key, n, fd.what
                    ));
                }
            }
        }
        for l in &known_lines {
            println!("{}", l);
        }
        // write replays for violations
        let mut vio_lines = Vec::new();
        let dir = format!("{}/replays/{}", VERIF_DIR, self.prop);
        for v in &violations {
            let _ = std::fs::create_dir_all(&dir);
            let mut rep = v.replay.clone();
            if let Value::Object(ref mut m) = rep {
                m.insert("property".into(), json!(self.prop));
                m.insert("key".into(), json!(v.key));
                m.insert("what".into(), json!(v.what));
            }
            let body = serde_json::to_string_pretty(&rep).unwrap();
            let path = format!("{}/run-{:016x}.json", dir, fnv_str(&body));
            let _ = std::fs::write(&path, body);
            vio_lines.push(format!("VIOLATION property={} replay={}", self.prop, path));
            println!("  what: {} [key {}]", v.what, v.key);
        }
        let nontrivial = g.nontrivial_counted + g.nontrivial_set.len() as u64;
        if g.evaluations == 0 {
            g.harness_errors.push("no evaluations performed".into());
        }
        if nontrivial < 2 && g.harness_errors.is_empty() && violations.is_empty() {
            g.harness_errors
                .push("fewer than 2 distinct non-trivial cases".into());
        }
        if g.samples.is_empty() {
            g.samples.push(json!("(no sample recorded)"));
        }
        let mut coverage = serde_json::Map::new();
        coverage.insert("evaluations".into(), json!(g.evaluations.max(1)));
        coverage.insert("distinct_nontrivial".into(), json!(nontrivial));
        coverage.insert("rule".into(), json!(g.rule));
        coverage.insert("samples".into(), json!(g.samples));
        if let Some(e) = g.exhaustive {
            coverage.insert("exhaustive".into(), json!(e));
        }
        coverage.insert("classes".into(), json!(g.classes));
        coverage.insert("excluded_known".into(), json!(g.known_hits));
        coverage.insert("notes".into(), json!(g.notes));
        for (k, v) in g.extra.iter() {
            coverage.insert(k.clone(), v.clone());
        }
        let ev = json!({
            "property_id": self.prop,
            "tier": self.tier.name(),
            "seed": self.seed,
            "level": "exploration",
            "coverage": Value::Object(coverage),
            "assumptions": g.assumptions,
            "wall_s": wall,
            "violations": violations.len(),
            "harness_errors": g.harness_errors,
            "inconclusive": g.inconclusive,
        });
        let evdir = format!("{}/evidence", VERIF_DIR);
        let _ = std::fs::create_dir_all(&evdir);
        let evpath = format!("{}/{}.json", evdir, self.prop);
        if let Err(e) = std::fs::write(&evpath, serde_json::to_string_pretty(&ev).unwrap()) {
            eprintln!("cannot write evidence {}: {}", evpath, e);
            return 3;
        }
        println!(
            "{} {} seed={} evaluations={} nontrivial={} known_hits={} violations={} wall={:.1}s",
            self.prop,
            self.tier.name(),
            self.seed,
            g.evaluations,
            nontrivial,
            g.known_hits.values().sum::<u64>(),
            violations.len(),
            wall
        );
        if !violations.is_empty() {
            for l in vio_lines {
                println!("{}", l);
            }
            return 1;
        }
        if !g.harness_errors.is_empty() {
            for e in &g.harness_errors {
                println!("HARNESS-ERROR: {}", e);
            }
            return 3;
        }
        if !g.inconclusive.is_empty() {
            for e in &g.inconclusive {
                println!("INCONCLUSIVE: {}", e);
            }
            return 2;
        }
        0
    }
}

/// Local (per thread / per shard) statistics, merged into Ctx at the end of a shard.
#[derive(Default)]
pub struct Local {
    pub evals: u64,
    pub nontrivial: u64,
    pub digests: Vec<u64>,
    pub classes: BTreeMap<String, u64>,
    pub known: BTreeMap<String, u64>,
}

impl Local {
    pub fn class(&mut self, name: &str) {
        *self.classes.entry(name.to_string()).or_insert(0) += 1;
    }
    pub fn known(&mut self, key: &str) {
        *self.known.entry(key.to_string()).or_insert(0) += 1;
    }
    pub fn merge_into(self, ctx: &Ctx) {
        ctx.add_evals(self.evals);
        ctx.add_nontrivial(self.nontrivial);
        ctx.nontrivial_digests(&self.digests);
        ctx.classes_merge(&self.classes);
        for (k, v) in self.known {
            ctx.known_hit(&k, v);
        }
    }
}

pub fn hex16(v: u16) -> String {
    format!("{:04X}", v)
}
