//! L3 part of C03 (filled in with the CLI runner)
use crate::common::*;
pub fn run(_ctx: &Ctx) {}
