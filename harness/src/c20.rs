//! C20 -- single-stepping and breakpoints are transparent and the prompt always terminates.
use crate::cli::*;
use crate::clicheck::*;
use crate::common::*;
use crate::gen::*;
use crate::progs::*;
use crate::refmodel::*;
use proptest::prelude::*;
use serde_json::json;

#[derive(Clone, Debug)]
pub struct SCase {
    pub g: GenCfg,
    pub layout_choices: Vec<u8>,
    pub comments: bool,
    pub interpreted: bool,
    pub script: Vec<PromptCmd>,
}

fn cmd_s() -> BoxedStrategy<PromptCmd> {
    let nexts = proptest::sample::select(vec!["n", "next", "N", "  next  ", "NEXT", "n ", "\tn"]);
    // lines far longer than any command, ending in something that would be a command on its own
    static LONG: std::sync::OnceLock<Vec<&'static str>> = std::sync::OnceLock::new();
    let long = LONG.get_or_init(|| {
        let mk = |n: usize, tail: &str| -> &'static str { Box::leak(format!("{}{}", "x".repeat(n), tail).into_boxed_str()) };
        vec![mk(1023, "q"), mk(1024, "q"), mk(1024, "n"), mk(1500, " next"), mk(4096, "quit"), mk(255, "n"), mk(256, "q"), mk(70_000, "n")]
    });
    let mut garbage_list = vec!["", "foo", "print", "print mem", "12", "nn", "nextt", "print reg extra", "mov ax, 5", "print mem 5 ->", "quit now", "?", "print mem 7 : 1048576", "print mem 99999999999999999999 -> 5", "print mem 0 : 18446744073709551616", "print mem :340282366920938463463374607431768211456", "print mem 0x100000000000000000 -> 0x1", "print mem 0b11111111111111111111111111111111111111111111111111111111111111111 : 0", "print mem 5 -> 99999999999999999999999999"];
    garbage_list.extend(long.iter().cloned());
    let garbage = proptest::sample::select(garbage_list);
    let prints = prop_oneof![
        Just((PrintStmt::Reg, "print reg".to_string())),
        Just((PrintStmt::Flags, "PRINT FLAGS".to_string())),
        (0u32..300, 0u32..40).prop_map(|(a, l)| (PrintStmt::MemRange(a, a + l), format!("print mem {} -> {}", a, a + l))),
        (0u32..300, 0u32..40).prop_map(|(a, l)| (PrintStmt::MemLen(a, l), format!("  Print Mem {}:{}", a, l))),
        (0u32..40).prop_map(|l| (PrintStmt::MemDs(l), format!("print mem :{}", l))),
        (1u32..300).prop_map(|a| (PrintStmt::MemRange(a, a - 1), format!("print mem {} -> {}", a, a - 1))),
    ];
    prop_oneof![
        12 => nexts.prop_map(|s| PromptCmd::Next(s.to_string())),
        3 => prints.prop_map(|(p, s)| PromptCmd::Print(p, s)),
        2 => garbage.prop_map(|s| PromptCmd::Garbage(s.to_string())),
        1 => proptest::sample::select(vec!["q", "quit", "Q", " QUIT "]).prop_map(|s| PromptCmd::Quit(s.to_string())),
    ]
    .boxed()
}

fn scase_s() -> impl Strategy<Value = SCase> {
    (gencfg_s(14, 2), proptest::collection::vec(any::<u8>(), 24), any::<bool>(), any::<bool>(), proptest::collection::vec(cmd_s(), 0..60), 0u8..4).prop_map(|(mut g, layout_choices, comments, interpreted, mut script, all_next)| {
        g.stepping = true;
        if all_next == 0 {
            // "answer every prompt with next": long enough for any generated program
            script = (0..400).map(|i| PromptCmd::Next(if i % 2 == 0 { "n".into() } else { "next".into() })).collect();
        }
        SCase { g, layout_choices, comments, interpreted, script }
    })
}

fn render_case(c: &SCase) -> (Program, Rendered) {
    let mut prog = build_program(&c.g);
    // one program in three uses macros (one of them nested two deep): every macro-made instruction is announced with
    // the line of the outermost use
    if c.layout_choices.first().map(|x| x % 3 == 0).unwrap_or(false) {
        use crate::asm::{Insn, Opd, R16};
        let start_idx = prog.code.iter().position(|i| matches!(i, Item::Label(n) if n == "start")).unwrap_or(0);
        let mut at = start_idx + 1;
        for (k, sel) in c.layout_choices.iter().skip(1).take(3).enumerate() {
            let reg = if sel & 1 == 0 { R16::SI } else { R16::DI };
            let rn = if sel & 1 == 0 { "si" } else { "di" };
            let mut exp = vec![Insn::new("mov", vec![Opd::R16(reg), Opd::R16(reg)]), Insn::new("nop", vec![])];
            let item = if sel & 2 == 0 {
                exp.push(Insn::new("nop", vec![]));
                Item::MacroUse { name: "m2".into(), args: vec![rn.into()], expands_to: exp }
            } else {
                Item::MacroUse { name: "m1".into(), args: vec![rn.into()], expands_to: exp }
            };
            at = (at + (*sel as usize >> 2) % 3).min(prog.code.len());
            // only at the top level of the main part (not inside the data / procedure section)
            if at <= start_idx {
                at = start_idx + 1;
            }
            prog.code.insert(at, item);
            at += 1 + k;
        }
        prog.code.insert(0, Item::MacroDef { name: "m2".into(), params: vec!["b".into()], body_src: " m1 (b) nop ".into() });
        prog.code.insert(0, Item::MacroDef { name: "m1".into(), params: vec!["a".into()], body_src: " mov a,a nop ".into() });
    }
    // one program in six begins with an instruction that jumps to its own line three times: every execution of it is
    // announced, also when the next line is the same line
    if c.layout_choices.get(6).map(|x| x % 6 == 0).unwrap_or(false) {
        use crate::asm::{ImmKind, Insn, Opd, R16};
        let start_idx = prog.code.iter().position(|i| matches!(i, Item::Label(n) if n == "start")).unwrap_or(0);
        let mn = ["loop", "loope", "loopz"][c.layout_choices.get(7).map(|x| *x as usize % 3).unwrap_or(0)];
        let ins = vec![
            Item::Ins(Insn::new("push", vec![Opd::R16(R16::CX)])),
            Item::Ins(Insn::new("mov", vec![Opd::R16(R16::CX), Opd::Imm(3, ImmKind::SW)])),
            Item::Ins(Insn::new("cmp", vec![Opd::R16(R16::CX), Opd::R16(R16::CX)])),
            Item::Label("selfj".into()),
            Item::Ins(Insn::new(mn, vec![Opd::Name("selfj".into())])),
            Item::Ins(Insn::new("pop", vec![Opd::R16(R16::CX)])),
        ];
        for (k, it) in ins.into_iter().enumerate() {
            prog.code.insert(start_idx + 1 + k, it);
        }
    }
    // one plain-run program in four begins with a repeated string instruction (REP LODS, CX = 2..5: it is re-issued while
    // stepping is still off), half of them followed at once by a POPF that sets the trap flag: the first prompt after a
    // repetition must name the instruction that is about to run, not something left over from the repetition
    if !c.interpreted && c.layout_choices.get(8).map(|x| x % 4 == 0).unwrap_or(false) {
        use crate::asm::{ImmKind, Insn, Opd, R16, W};
        let start_idx = prog.code.iter().position(|i| matches!(i, Item::Label(n) if n == "start")).unwrap_or(0);
        let sel = c.layout_choices.get(9).copied().unwrap_or(0);
        let mut ins = vec![
            Item::Ins(Insn::new("push", vec![Opd::R16(R16::AX)])),
            Item::Ins(Insn::new("push", vec![Opd::R16(R16::SI)])),
            Item::Ins(Insn::new("push", vec![Opd::R16(R16::CX)])),
            Item::Ins(Insn::new("mov", vec![Opd::R16(R16::CX), Opd::Imm(2 + (sel as u16 & 3), ImmKind::SW)])),
            Item::Ins(Insn { prefix: Some("rep"), mn: "lods", ops: vec![Opd::Wd(if sel & 4 == 0 { W::B } else { W::W })] }),
            Item::Ins(Insn::new("pop", vec![Opd::R16(R16::CX)])),
            Item::Ins(Insn::new("pop", vec![Opd::R16(R16::SI)])),
            Item::Ins(Insn::new("pop", vec![Opd::R16(R16::AX)])),
        ];
        if sel & 8 == 0 {
            let at = if sel & 16 == 0 { 5 } else { 8 };
            let tf_on = vec![
                Item::Ins(Insn::new("mov", vec![Opd::R16(R16::AX), Opd::Imm(0xF102, ImmKind::SW)])),
                Item::Ins(Insn::new("push", vec![Opd::R16(R16::AX)])),
                Item::Ins(Insn::new("popf", vec![])),
            ];
            if at == 5 {
                // directly behind the repetition (AX is restored by the pops that follow)
                for (k, it) in tf_on.into_iter().enumerate() {
                    ins.insert(5 + k, it);
                }
            } else {
                ins.push(Item::Ins(Insn::new("push", vec![Opd::R16(R16::AX)])));
                ins.extend(tf_on);
                ins.push(Item::Ins(Insn::new("pop", vec![Opd::R16(R16::AX)])));
            }
        }
        for (k, it) in ins.into_iter().enumerate() {
            prog.code.insert(start_idx + 1 + k, it);
        }
    }
    let layout = Layout { choices: c.layout_choices.clone(), comments: c.comments, trailing_newline: true, pack_lines: false };
    let r = render_program(&prog, &layout);
    (prog, r)
}

fn eval(c: &SCase) -> CaseOutcome {
    let (prog, rendered) = render_case(c);
    let flat = flatten(&prog);
    let image = data_image(&prog.data);
    let lines: Vec<usize> = rendered.flat_offsets.iter().map(|o| rendered.line_of(*o)).collect();
    let cfg = RunCfg { interpreted: c.interpreted, script: &c.script, lines: &lines, max_steps: 20_000, input_lines: None, buf_fill: None };
    let rr = ref_run(&flat, &image, &cfg, &Quirks::none());
    let exp = normalise(&rr.events);
    let mut stdin = crate::c17::script_bytes(&c.script);
    // one script in four ends without a line terminator: the last line is a line all the same (an empty one would not be)
    let unterminated = c.layout_choices.get(5).map(|x| x % 4 == 0).unwrap_or(false) && c.script.last().map(|x| !x.text().is_empty()).unwrap_or(false);
    if unterminated {
        stdin.pop();
    }
    // output cap: 64 KiB + 4x the expected size (the signature of a prompt spinning on end of input)
    let exp_size: usize = exp.iter().map(|e| match e { Ev::Mem(v) => v.len() * 4 + 8, Ev::Regs(_) => 160, Ev::Chars(v) => v.len(), _ => 60 }).sum();
    let cap = (64 << 10) + 4 * exp_size;
    let out = run_cli(rendered.text.as_bytes(), if stdin.is_empty() { Stdin::Closed } else { Stdin::Data(&stdin) }, c.interpreted, cap, 30_000);
    let replay = json!({"kind":"cli","source":rendered.text,"stdin":String::from_utf8_lossy(&stdin),"interpreted":c.interpreted,"stdin_closed":stdin.is_empty(),
        "expected_events": exp.iter().map(|e| format!("{:?}", e)).collect::<Vec<_>>(), "eof_at_prompt": rr.stop == Stop::EofAtPrompt});
    match &out.status {
        Status::Timeout | Status::SpawnError(_) => return CaseOutcome::Inconclusive(format!("{:?}", out.status)),
        Status::OutputCap => {
            return CaseOutcome::Fail {
                key: format!("c20|runaway-output|{}", if rr.stop == Stop::EofAtPrompt { "eof-at-prompt" } else { "other" }),
                what: format!("output exceeded {} bytes (expected about {}); reference stop reason {:?}; output tail {:?}", cap, exp_size, rr.stop, String::from_utf8_lossy(&out.stdout[out.stdout.len().saturating_sub(120)..])),
                replay,
            }
        }
        _ => {}
    }
    if !out.clean() {
        return CaseOutcome::Fail { key: "c20|abnormal-exit".into(), what: format!("status {:?} {}", out.status, out.err_str().lines().next().unwrap_or("")), replay };
    }
    let toks = match tokenize(&out.stdout) {
        Ok(t) => t,
        Err(e) => return CaseOutcome::Fail { key: "c20|unparsable-output".into(), what: e, replay },
    };
    let mut ok = crate::progs::events_match(&exp, &toks);
    if !ok && rr.stop == Stop::EofAtPrompt {
        // end of input at a prompt: the emulator must terminate; an "Exiting" note is allowed
        let mut e2 = exp.clone();
        e2.push(Ev::Exiting);
        ok = toks == e2;
    }
    if !ok {
        let d = crate::c17::first_diff(&exp, &toks);
        let kind = if d.contains("About(") && d.matches("About(").count() == 2 { "about-line" } else if d.contains("Int3(") && d.matches("Int3(").count() == 2 { "int3-line" } else { "events" };
        return CaseOutcome::Fail { key: format!("c20|{}", kind), what: format!("{} (reference stop {:?})", d, rr.stop), replay };
    }
    let n_next = c.script.iter().take(rr.stdin_used).filter(|x| matches!(x, PromptCmd::Next(_))).count();
    let n_print = c.script.iter().take(rr.stdin_used).filter(|x| matches!(x, PromptCmd::Print(..))).count();
    let mut classes = vec![format!("c20/stop/{:?}", rr.stop), if c.interpreted { "c20/-i".to_string() } else { "c20/plain-switch".to_string() }];
    if rr.events.iter().any(|e| matches!(e, Ev::TrapNote)) {
        classes.push("c20/trap-flag-stepping".into());
    }
    if rr.events.iter().any(|e| matches!(e, Ev::Int3(_))) {
        classes.push("c20/int3".into());
    }
    if c.script.iter().take(rr.stdin_used).any(|x| matches!(x, PromptCmd::Garbage(g) if g.len() >= 1024)) {
        classes.push("c20/over-long-line-answered".into());
    }
    if unterminated && rr.stdin_used == c.script.len() {
        classes.push("c20/last-line-without-terminator-consumed".into());
    }
    if prog.code.iter().any(|i| matches!(i, Item::Label(n) if n == "selfj")) && rr.events.iter().filter(|e| matches!(e, Ev::About(_))).count() >= 6 {
        classes.push("c20/self-targeting-jump-stepped".into());
    }
    {
        use crate::asm::Insn;
        // a repeated string instruction ran before the first prompt of the trap flag
        let rep_at = flat.ops.iter().position(|o| matches!(o, FlatOp::Ins(Insn { prefix: Some("rep"), .. })));
        if let (Some(r), Some(first)) = (rep_at, rr.prompts_before.first()) {
            if rr.trace.contains(&r) && *first > r && rr.events.iter().any(|e| matches!(e, Ev::TrapNote)) {
                classes.push("c20/trap-flag-set-after-a-repetition".into());
            }
        }
    }
    let tf_toggled = rr.events.iter().any(|e| matches!(e, Ev::TrapNote)) && rr.trace.len() > rr.prompts_before.len();
    let nt = (n_print >= 1 && n_next >= 3) || rr.stop == Stop::EofAtPrompt || tf_toggled;
    CaseOutcome::Pass { nontrivial: nt, classes, digest: fnv_str(&rendered.text) ^ fnv64(&stdin) }
}

/// differential transparency: -i with every prompt answered "n" versus the plain run
fn eval_diff(c: &SCase) -> CaseOutcome {
    let mut g = c.g.clone();
    g.stepping = false; // no int 3 / trap flag: the plain run needs no input
    g.with_prints = true;
    let prog = build_program(&g);
    let layout = Layout { choices: c.layout_choices.clone(), comments: c.comments, trailing_newline: true, pack_lines: false };
    let rendered = render_program(&prog, &layout);
    let plain = run_cli(rendered.text.as_bytes(), Stdin::Closed, false, 4 << 20, 30_000);
    let script: Vec<u8> = std::iter::repeat(b"n\n".to_vec()).take(3000).flatten().collect();
    let stepped = run_cli(rendered.text.as_bytes(), Stdin::Data(&script), true, 16 << 20, 30_000);
    let replay = json!({"kind":"cli","source":rendered.text,"stdin":"n\n".repeat(3000),"interpreted":true});
    for o in [&plain, &stepped] {
        if matches!(o.status, Status::Timeout | Status::SpawnError(_)) {
            return CaseOutcome::Inconclusive(format!("{:?}", o.status));
        }
    }
    if !plain.clean() || !stepped.clean() {
        return CaseOutcome::Fail { key: "c20|diff|abnormal-exit".into(), what: format!("plain {:?} / stepped {:?} {}", plain.status, stepped.status, stepped.err_str().lines().next().unwrap_or("")), replay };
    }
    let (tp, ts) = match (tokenize(&plain.stdout), tokenize(&stepped.stdout)) {
        (Ok(a), Ok(b)) => (a, b),
        (a, b) => return CaseOutcome::Fail { key: "c20|diff|unparsable-output".into(), what: format!("{:?} / {:?}", a.err(), b.err()), replay },
    };
    let filtered: Vec<Ev> = normalise(&ts.into_iter().filter(|e| !matches!(e, Ev::About(_) | Ev::TrapNote | Ev::Prompt | Ev::Int3(_))).collect::<Vec<_>>());
    if filtered != tp {
        return CaseOutcome::Fail { key: "c20|diff|not-transparent".into(), what: format!("stepping with 'n' changes the program's output: {}", crate::c17::first_diff(&tp, &filtered)), replay };
    }
    CaseOutcome::Pass { nontrivial: tp.len() >= 2, classes: vec!["c20/diff".into()], digest: fnv_str(&rendered.text) ^ 0x20 }
}

/// Stepping while the PROGRAM reads the keyboard: prompt answers and program input share one stdin, each prompt and
/// each INT 21h read must consume exactly its own line.  Programs of 1-4 console calls (AH=1 reads, AH=2 / INT 10h
/// writes) with registers and flags printed after each; run with -i, or with an INT 3 in front (a prompt before the
/// first read), or plain; the stdin stream is assembled in the order the reference consumes it.
#[derive(Clone, Debug)]
pub struct ICase {
    pub calls: Vec<(crate::c18::Call, [u16; 4])>,
    /// 0 = -i, 1 = INT 3 before the first call, 2 = INT 3 before every call
    pub mode: u8,
    pub cmds: Vec<u8>,
    pub choices: Vec<u8>,
}

fn icase_s() -> BoxedStrategy<ICase> {
    use crate::c18::Call;
    let call = prop_oneof![
        4 => crate::c18::line_s(1, 20).prop_map(|line| Call::GetChar { line }),
        2 => crate::c18::out_char().prop_map(|dl| Call::PutChar { dl }),
        1 => (crate::c18::out_char(), 0u16..6).prop_map(|(al, cx)| Call::RepChar { al, cx }),
    ];
    (
        proptest::collection::vec((call, [crate::pt::u16s(), crate::pt::u16s(), crate::pt::u16s(), crate::pt::u16s()]), 1..=4),
        0u8..3,
        proptest::collection::vec(any::<u8>(), 8),
        proptest::collection::vec(any::<u8>(), 24),
    )
        .prop_map(|(mut calls, mode, cmds, choices)| {
            // at least one keyboard read
            if !calls.iter().any(|(c, _)| matches!(c, Call::GetChar { .. })) {
                calls.push((Call::GetChar { line: b"Key".to_vec() }, [1, 2, 3, 4]));
            }
            ICase { calls, mode, cmds, choices }
        })
        .boxed()
}

fn eval_input(c: &ICase) -> CaseOutcome {
    let c18 = crate::c18::Case18 { calls: c.calls.clone(), stdin_mode: 0, tweaks: vec![], choices: c.choices.clone() };
    let mut b = crate::c18::build(&c18);
    if c.mode >= 1 {
        // INT 3 in front of the first (every) console call: position = before the "mov bx, noise" that opens a call
        let mut out: Vec<Item> = Vec::new();
        let mut first = true;
        for it in b.prog.code.drain(..) {
            let opens = matches!(&it, Item::Ins(i) if i.mn == "mov" && matches!(i.ops.first(), Some(crate::asm::Opd::R16(crate::asm::R16::BX))));
            if opens && (first || c.mode == 2) {
                out.push(Item::Ins(crate::asm::Insn::new("int", vec![crate::asm::Opd::Imm(3, crate::asm::ImmKind::UB)])));
                first = false;
            }
            out.push(it);
        }
        b.prog.code = out;
    }
    let interpreted = c.mode == 0;
    let layout = Layout { choices: c.choices.clone(), comments: false, trailing_newline: true, pack_lines: false };
    let rendered = render_program(&b.prog, &layout);
    let flat = flatten(&b.prog);
    let lines: Vec<usize> = rendered.flat_offsets.iter().map(|o| rendered.line_of(*o)).collect();
    let image = data_image(&b.prog.data);
    // prompt script: mostly next, now and then a print command first
    let mut script: Vec<PromptCmd> = Vec::new();
    for k in 0..600usize {
        let sel = c.cmds[k % c.cmds.len()].wrapping_add((k / c.cmds.len()) as u8);
        if sel % 11 == 0 {
            script.push(PromptCmd::Print(PrintStmt::Reg, "print reg".into()));
        }
        script.push(PromptCmd::Next(if sel & 1 == 0 { "n".into() } else { "next".into() }));
    }
    let cfg = RunCfg { interpreted, script: &script, lines: &lines, max_steps: 10_000, input_lines: Some(&b.input_lines), buf_fill: None };
    let rr = ref_run(&flat, &image, &cfg, &Quirks::none());
    let mut stdin: Vec<u8> = Vec::new();
    for (is_prompt, k) in &rr.stdin_seq {
        if *is_prompt {
            stdin.extend_from_slice(script[*k].text().as_bytes());
        } else {
            stdin.extend_from_slice(b.input_lines.get(*k).map(|l| l.as_slice()).unwrap_or(b""));
        }
        stdin.push(b'\n');
    }
    let exp = normalise(&rr.events);
    let out = run_cli(rendered.text.as_bytes(), Stdin::Data(&stdin), interpreted, 8 << 20, 30_000);
    let replay = json!({"kind":"cli","source":rendered.text,"stdin":String::from_utf8_lossy(&stdin),"interpreted":interpreted,"stdin_closed":false,
        "expected_events": exp.iter().map(|e| format!("{:?}", e)).collect::<Vec<_>>()});
    if matches!(out.status, Status::Timeout | Status::SpawnError(_)) {
        return CaseOutcome::Inconclusive(format!("{:?}", out.status));
    }
    if rr.stop != Stop::Halt {
        return CaseOutcome::Inconclusive(format!("reference stopped with {:?}", rr.stop));
    }
    if !out.clean() {
        return CaseOutcome::Fail { key: "c20|input|abnormal-exit".into(), what: format!("status {:?} {}", out.status, out.err_str().lines().next().unwrap_or("")), replay };
    }
    let toks = match tokenize(&out.stdout) {
        Ok(t) => t,
        Err(e) => return CaseOutcome::Fail { key: "c20|input|unparsable-output".into(), what: e, replay },
    };
    if !crate::progs::events_match(&exp, &toks) {
        return CaseOutcome::Fail { key: "c20|input|events".into(), what: format!("stepping while the program reads the keyboard ({}): {}", ["-i", "int 3 before the first call", "int 3 before every call"][c.mode as usize], crate::c17::first_diff(&exp, &toks)), replay };
    }
    let reads = rr.stdin_seq.iter().filter(|(p, _)| !*p).count();
    let prompts_before_read = rr.stdin_seq.iter().position(|(p, _)| !*p).map(|i| i > 0).unwrap_or(false);
    let mut classes = vec![format!("c20/input/mode-{}", c.mode)];
    if prompts_before_read {
        classes.push("c20/input/prompt-before-keyboard-read".into());
    }
    if reads >= 2 {
        classes.push("c20/input/two-or-more-reads".into());
    }
    CaseOutcome::Pass { nontrivial: prompts_before_read, classes, digest: fnv_str(&rendered.text) ^ fnv64(&stdin) }
}

pub fn run(ctx: &Ctx) {
    ctx.set_rule("L3: terminating programs from the structured generator (markers, loops, calls, data) with stepping enabled by the -i switch, by a trap flag set and cleared through PUSHF/POP/OR|AND/PUSH/POPF in mid-program, or by INT 3 at generated places, x prompt scripts vec(cmd,0..60) over {n, next, N, '  next  ', print commands, garbage lines, empty line, q, quit} ending in premature end of input; the tokenised stdout must equal the reference event sequence (one 'About to execute line N' per executed instruction while stepping, naming its line; print answered without advancing; q/quit/end of input terminate with status 0); differential part: -i with every prompt answered n versus the plain run. Output is capped at 64 KiB + 4x the expected size. One plain-run program in four begins with REP LODS (CX 2..5) executed before the program sets the trap flag. Non-trivial = script with >=1 print and >=3 n, end of input before the program ends, or stepping switched on/off in mid-program.");
    ctx.assume("stdin is a pipe or closed; terminal line discipline is not modelled; on end of input at a prompt an extra 'Exiting' line is allowed");
    ctx.set_exhaustive(false);
    if !cli_available() {
        ctx.harness_error("CLI binary not built");
        return;
    }
    let n = ctx.tier.pick(900usize, 20_000usize);
    run_cases(ctx, "c20", n, scase_s, eval, |c| json!({"source": render_case(c).1.text, "interpreted": c.interpreted, "stdin": String::from_utf8_lossy(&crate::c17::script_bytes(&c.script[..c.script.len().min(12)]))}));
    let n2 = ctx.tier.pick(200usize, 3_000usize);
    run_cases(ctx, "c20-diff", n2, scase_s, eval_diff, |c| json!({"source": render_case(c).1.text, "mode": "plain vs -i with all n"}));
    let n3 = ctx.tier.pick(300usize, 5_000usize);
    run_cases(ctx, "c20-input", n3, icase_s, eval_input, |c| json!({"kind":"c20-input","mode": c.mode, "calls": format!("{:?}", c.calls.iter().map(|(x, _)| x).collect::<Vec<_>>())}));
    // print commands on both sides of every bound of the print reader, typed at INT 3 and -i prompts, DS = 0 .. FFFFh
    crate::c17::boundary_prompt_family(ctx, "c20");
    ctx.require_class("c20/input/prompt-before-keyboard-read", 100);
    ctx.require_class("c20/input/two-or-more-reads", 30);
    ctx.require_class("c20/-i", 100);
    ctx.require_class("c20/trap-flag-stepping", 30);
    ctx.require_class("c20/int3", 30);
    ctx.require_class("c20/trap-flag-set-after-a-repetition", 10);
    ctx.require_class("c20/stop/EofAtPrompt", 20);
    ctx.require_class("c20/stop/Quit", 10);
    ctx.require_class("c20/stop/Halt", 50);
    ctx.require_class("c20/self-targeting-jump-stepped", 20);
    ctx.require_class("c20/over-long-line-answered", 10);
    ctx.require_class("c20/last-line-without-terminator-consumed", 10);
}
