//! L3 part of C09: the console interrupt services (which index the memory from the binary crate, outside the
//! library) pointed at the last bytes of the address space -- buffers at FFFFh:2..15 and ending exactly at FFFFFh,
//! strings at FFFEh/FFFFh:0..63 (crossing 2^20 and starting beyond it), input lines longer than the room that is
//! left, every stdin mode.  Oracle: C18's reference (exit status 0, no panic, every register, flag and memory byte
//! equal to the reference with addresses reduced mod 2^20).
use crate::clicheck::*;
use crate::common::*;
use serde_json::json;

pub fn run(ctx: &Ctx) {
    if !crate::cli::cli_available() {
        ctx.harness_error("CLI binary not built");
        return;
    }
    let n = ctx.tier.pick(300usize, 4_000usize);
    run_cases(
        ctx,
        "c09-int-top",
        n,
        crate::c18::top_case_s,
        |c| match crate::c18::eval(c) {
            CaseOutcome::Fail { key, what, replay } => CaseOutcome::Fail { key: format!("c09|int-at-top|{}", key), what, replay },
            CaseOutcome::Pass { nontrivial, classes, digest } => CaseOutcome::Pass { nontrivial, classes: classes.into_iter().map(|c| c.replace("c18/", "c09/int/")).collect(), digest },
            o => o,
        },
        |c| {
            let b = crate::c18::build(c);
            json!({"kind":"c09-int-top","source": crate::progs::render_program(&b.prog, &crate::progs::Layout::plain()).text, "stdin": String::from_utf8_lossy(&b.stdin)})
        },
    );
    // terminating programs of every control-flow shape (labels at the very end of the file, a written hlt before a
    // trailing label, procedures, loops) through the real run loop, plain: the emulator must end normally and print
    // exactly the reference's marker trace (an index outside the instruction list aborts it)
    run_cases(
        ctx,
        "c09-programs",
        ctx.tier.pick(600usize, 6_000usize),
        crate::c08::c8_s,
        |c| match crate::c08::eval_cli(c) {
            CaseOutcome::Fail { key, what, replay } => CaseOutcome::Fail { key: key.replace("c08|", "c09|program|"), what, replay },
            CaseOutcome::Pass { nontrivial, digest, classes } => {
                let mut cl = vec!["c09/program-run".to_string()];
                cl.extend(classes.into_iter().filter(|c| c.starts_with("c08/cli/")).map(|c| c.replace("c08/cli/", "c09/program/")));
                CaseOutcome::Pass { nontrivial, classes: cl, digest }
            }
            o => o,
        },
        |_| json!({"kind":"c09-program","generator":"C08 structured programs"}),
    );
    crate::c08::eof_family(ctx, "c09");
    ctx.require_class("c09/program/ret-with-sp-above-its-value-at-the-call", 2);
    for k in ["c09/int/buffer-near-or-across-2^20", "c09/int/string-across-2^20", "c09/int/string-starts-at-or-beyond-2^20", "c09/int/line-longer-than-capacity"] {
        ctx.require_class(k, 10);
    }
}
