//! L3 part of C09 (interrupt services at the end of the address space) -- see cli.rs
use crate::common::*;
pub fn run(_ctx: &Ctx) {}
