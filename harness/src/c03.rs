//! C03 -- MUL/IMUL/DIV/IDIV, decimal adjusts, CBW/CWD; divide errors raise INT 0.
use crate::common::*;
use crate::l0::*;
use crate::pt;
use crate::refmodel::*;
use proptest::prelude::*;
use rayon::prelude::*;

fn lattice_signed() -> Vec<u16> {
    let mut v: Vec<u16> = vec![0, 1, 0xFFFF, 0x7FFF, 0x8000, 0x8001, 0x7FFE, 2, 0xFFFE];
    for k in 1..16 {
        let p = 1u16 << k;
        for d in [-1i32, 0, 1] {
            v.push((p as i32 + d) as u16);
            v.push((-(p as i32) + d) as u16);
        }
    }
    v.sort();
    v.dedup();
    v
}

fn nt_md(op: MulDiv, w: u32, ax: u16, dx: u16, b: u32) -> bool {
    match muldiv(op, w, ax, dx, b, &Quirks::none()) {
        MdOut::DivideError | MdOut::Either { .. } => true,
        MdOut::Ok { flags, .. } => flags != 0 || b == 1 || b == mask_w(w) || (op == MulDiv::Imul && ((ax as u32 | b) & msb_w(w)) != 0),
    }
}

pub fn run(ctx: &Ctx) {
    if !crate::l0::L0_DIRECT {
        ctx.note("the signatures of the public instruction functions in the working tree differ from the L0 tables: the harness was built without the direct calls, the L0 sweeps are skipped and the L1 (assembler + interpreter) and L3 (CLI) parts decide");
    }
    ctx.set_rule("L0: all 2^16 AX x all 256 operands for byte MUL/IMUL/DIV/IDIV (enumerated); word forms on a signed boundary lattice for DX, AX and the operand plus proptest-generated 48-bit triples with the quotient-overflow boundary constructed (dividend = q*d+r, q within +-1 of the bounds); all 2^16 AX x AF x CF for the six adjusts, all AX for CBW/CWD; L1: every operand form; L3: faulting divisions through the CLI. Non-trivial = negative operand, significant upper half, quotient within +-1 of a bound, divisor in {0,1,-1}, adjust with low nibble > 9 / AL > 99h / AF or CF set.");
    ctx.assume("undefined flags (SF/ZF/AF/PF after MUL/IMUL, all six after DIV/IDIV, OF/SF/ZF/PF after AAA/AAS, OF after DAA/DAS, AF/CF/OF after AAM/AAD) are not compared; registers after a divide error are not compared");
    ctx.assume("accept sets: DAA/DAS (Family-manual pseudo-code vs later formulation), AAA/AAS (AL+6,AH+1 vs AX+106h), AAM SF/ZF from AL or AX, IDIV quotient exactly -128/-32768 (divide error on the 8086, legal later)");
    let openq = Quirks::from_keys(|k| ctx.is_open(k));
    ctx.set_exhaustive(false);
    // byte forms: exhaustive
    for f in md_fns().into_iter().filter(|f| f.w == 8) {
        let op = match f.kind { Kind::Md(op) => op, _ => unreachable!() };
        let out = par_sweep(256, |hi, vm, out| {
            for lo in 0..256u32 {
                let ax = (hi << 8) | lo;
                for b in 0..256u32 {
                    let p = Point { a: ax, b, dx: 0xBEEF, flags: if b & 1 == 1 { 0xFFFF } else { 0x0002 } };
                    let nt = nt_md(op, 8, ax as u16, 0, b);
                    sweep_point(vm, &f, &p, &openq, out, nt);
                }
            }
        });
        report(ctx, &f, "byte-exhaustive", out, &openq);
    }
    // adjusts: all AX x AF x CF (x one more background)
    for f in adj_fns() {
        let out = par_sweep(256, |hi, vm, out| {
            for lo in 0..256u32 {
                let ax = (hi << 8) | lo;
                for af in [0u16, AF] {
                    for cf in [0u16, CF] {
                        for bgf in [0x0002u16, 0xFFFF & !(AF | CF)] {
                            let p = Point { a: ax, b: 0, dx: 0x1234, flags: bgf | af | cf };
                            let nt = (lo & 0xF) > 9 || lo > 0x99 || af != 0 || cf != 0;
                            sweep_point(vm, &f, &p, &openq, out, nt && bgf == 2);
                        }
                    }
                }
            }
        });
        report(ctx, &f, "exhaustive", out, &openq);
    }
    // word forms: lattice
    let lat = lattice_signed();
    for f in md_fns().into_iter().filter(|f| f.w == 16) {
        let op = match f.kind { Kind::Md(op) => op, _ => unreachable!() };
        let l2 = lat.clone();
        let out = par_sweep(lat.len() as u32, |di, vm, out| {
            let dx = l2[di as usize];
            for &ax in &l2 {
                for &b in &l2 {
                    let p = Point { a: ax as u32, b: b as u32, dx, flags: 0xF002 };
                    sweep_point(vm, &f, &p, &openq, out, nt_md(op, 16, ax, dx, b as u32));
                }
            }
        });
        report(ctx, &f, "word-lattice", out, &openq);
    }
    // word forms: generated triples, quotient boundary constructed
    let cases = ctx.tier.pick(600_000u32, 20_000_000u32);
    for f in md_fns().into_iter().filter(|f| f.w == 16) {
        let op = match f.kind { Kind::Md(op) => op, _ => unreachable!() };
        let shards = 16u64;
        let results: Vec<(Local, Option<(Point, String)>)> = (0..shards)
            .into_par_iter()
            .map(|sh| {
                let mut vm = emulator_8086_lib::VM::new();
                let local = std::cell::RefCell::new(Local::default());
                let vmc = std::cell::RefCell::new(&mut vm);
                // (divisor, quotient selector, remainder seed, raw dx, raw ax, mode)
                let strat = (pt::u16s(), 0u8..8, any::<u16>(), pt::u16s(), pt::u16s(), 0u8..3, pt::flagword());
                let mk = move |d: u16, qs: u8, rs: u16, rdx: u16, rax: u16, mode: u8| -> (u16, u16) {
                    if mode == 0 || d == 0 || matches!(op, MulDiv::Mul | MulDiv::Imul) {
                        return (rax, rdx);
                    }
                    // construct dividend = q*d + r around the quotient bounds
                    if op == MulDiv::Div {
                        let q: i64 = [0xFFFE, 0xFFFF, 0x10000, 0x10001, 0x7FFF, 0x8000, 1, 0][qs as usize];
                        let r = (rs as i64) % d as i64;
                        let n = (q * d as i64 + r) as u64 & 0xFFFF_FFFF;
                        (n as u16, (n >> 16) as u16)
                    } else {
                        let ds = d as i16 as i64;
                        let q: i64 = [32766, 32767, 32768, -32767, -32768, -32769, 1, -1][qs as usize];
                        let mut r = (rs as i64) % ds.abs().max(1);
                        let n0 = q * ds;
                        if n0 < 0 { r = -r; }
                        let n = n0 + r;
                        if n > i32::MAX as i64 || n < i32::MIN as i64 { return (rax, rdx); }
                        let n = n as i32 as u32;
                        (n as u16, (n >> 16) as u16)
                    }
                };
                let r = pt::run(ctx.sub_seed(f.name, sh), cases / shards as u32, &strat, |(d, qs, rs, rdx, rax, mode, fl), counting| {
                    let (ax, dx) = mk(*d, *qs, *rs, *rdx, *rax, *mode);
                    let p = Point { a: ax as u32, b: *d as u32, dx, flags: *fl };
                    let mut vmb = vmc.borrow_mut();
                    let res = eval(&mut **vmb, &f, &p, &Quirks::none());
                    if counting {
                        let mut l = local.borrow_mut();
                        l.evals += 1;
                        if nt_md(op, 16, ax, dx, *d as u32) {
                            l.digests.push(splitmix(((ax as u64) << 32) | ((dx as u64) << 16) | *d as u64) ^ fnv_str(f.name));
                        }
                    }
                    res.map_err(|m| format!("{}: {}", m.aspect, m.detail))
                });
                let fail = r.map(|((d, qs, rs, rdx, rax, mode, fl), why)| {
                    let (ax, dx) = mk(d, qs, rs, rdx, rax, mode);
                    (Point { a: ax as u32, b: d as u32, dx, flags: fl }, why)
                });
                (local.into_inner(), fail)
            })
            .collect();
        for (sh, (l, fail)) in results.into_iter().enumerate() {
            ctx.class(&format!("l0/word-generated/{}", f.name), l.evals);
            l.merge_into(ctx);
            if let Some((p, why)) = fail {
                let aspect = why.split(':').next().unwrap_or("?").to_string();
                ctx.fail(Failure {
                    key: format!("l0|{}|{}", f.name, aspect),
                    what: format!("{} (generated, shard {}): shrunk to ax={:#X} dx={:#X} operand={:#X} flags_in={:04X}: {}", f.name, sh, p.a, p.dx, p.b, p.flags, why),
                    replay: point_json(&f, &p),
                });
            }
        }
    }
    for f in md_fns().iter() {
        ctx.require_class(&format!("l0/{}/{}", if f.w == 8 { "byte-exhaustive" } else { "word-lattice" }, f.name), 1000);
    }
    crate::l1::run_forms(ctx, crate::l1::FormSet::MulDiv);
    crate::l3fam::run(ctx, crate::l3fam::Fam::Set(crate::l1::FormSet::MulDiv), ctx.tier.pick(320usize, 6000usize));
    if ctx.tier == Tier::Thorough {
        crate::fuzzrun::exec_campaign(ctx, &["mul", "imul", "div", "idiv", "aaa", "aas", "daa", "das", "aam", "aad", "cbw", "cwd"], &[]);
    }
    crate::c03cli::run(ctx);
}
