//! C17 -- print reg / flags / mem show the true machine state and never change it.
use crate::asm::*;
use crate::cli::*;
use crate::clicheck::*;
use crate::common::*;
use crate::emu::*;
use crate::progs::*;
use crate::pt;
use crate::refmodel::*;
use proptest::prelude::*;
use serde_json::json;

#[derive(Clone, Debug)]
pub struct PCase {
    pub prog: Program,
    pub layout: Layout,
    pub script: Vec<PromptCmd>,
}

fn mov16(r: R16, v: u16) -> Item {
    Item::Ins(Insn::new("mov", vec![Opd::R16(r), Opd::Imm(v, ImmKind::SW)]))
}
fn movsr(s: Seg, r: R16) -> Item {
    Item::Ins(Insn::new("mov", vec![Opd::Sr(s), Opd::R16(r)]))
}
fn ins0(mn: &'static str) -> Item {
    Item::Ins(Insn::new(mn, vec![]))
}

pub fn data_s() -> BoxedStrategy<Vec<DataDecl>> {
    let kind = prop_oneof![
        pt::u16s().prop_map(DataKind::Val),
        (0u16..40).prop_map(DataKind::Zeros),
        (pt::u16s(), 0u16..40).prop_map(|(v, n)| DataKind::Fill(v, n)),
        "[ -!#-:<-~]{0,20}".prop_map(DataKind::Str),
    ];
    let item = (proptest::option::of(0u8..6), any::<bool>(), kind).prop_map(|(l, word, kind)| (l, word, kind));
    let decl = prop_oneof![
        1 => proptest::sample::select(vec![0u16, 1, 0x10, 0x1000, 0xFFF0, 0xFFFF]).prop_map(|s| (None, false, DataKind::Val(s), true)),
        5 => item.prop_map(|(l, w, k)| (l, w, k, false)),
    ];
    proptest::collection::vec(decl, 0..6)
        .prop_map(|v| {
            let mut out = Vec::new();
            let mut used = std::collections::HashSet::new();
            for (l, word, kind, is_set) in v {
                if is_set {
                    if let DataKind::Val(s) = kind {
                        out.push(DataDecl::Set(s));
                    }
                } else {
                    let label = l.and_then(|n| {
                        let name = format!("d_{}", n);
                        if used.insert(name.clone()) {
                            Some(name)
                        } else {
                            None
                        }
                    });
                    let kind = match kind {
                        DataKind::Val(v) if !word => DataKind::Val(v & 0xFF),
                        DataKind::Fill(v, n) if !word => DataKind::Fill(v & 0xFF, n),
                        k => k,
                    };
                    out.push(DataDecl::Item { label, word, kind });
                }
            }
            out
        })
        .boxed()
}

pub fn print_s(max_ds_off: u32) -> BoxedStrategy<PrintStmt> {
    let starts = prop_oneof![
        3 => proptest::sample::select(vec![0u32, 1, 15, 16, 17, 255, 256, 0x100, 0x10000, 0xFFFF0, 0xFFFEF, 0xFFFFF, 0xFFF00]),
        1 => 0u32..0x100000,
    ];
    let lens = prop_oneof![
        3 => proptest::sample::select(vec![0u32, 1, 15, 16, 17, 31, 32, 33, 255, 256]),
        1 => 0u32..300,
    ];
    prop_oneof![
        1 => Just(PrintStmt::Flags),
        1 => Just(PrintStmt::Reg),
        3 => (starts.clone(), lens.clone(), 0u8..8).prop_map(|(a, l, back)| {
            let b = (a + l).min(0xFFFFF);
            if back == 0 && b > a { PrintStmt::MemRange(b, a) } else { PrintStmt::MemRange(a, b) }
        }),
        2 => (starts, lens.clone()).prop_map(|(a, l)| {
            let l = l.min(0xFFFFF - a);
            PrintStmt::MemLen(a, l)
        }),
        2 => lens.prop_map(move |l| PrintStmt::MemDs(l.min(max_ds_off))),
    ]
    .boxed()
}

fn prompt_text(p: &PrintStmt, up: bool) -> String {
    let s = match p {
        PrintStmt::Flags => "print flags".to_string(),
        PrintStmt::Reg => "print reg".to_string(),
        PrintStmt::MemRange(a, b) => format!("print mem {} -> {}", a, b),
        PrintStmt::MemLen(a, n) => format!("print mem {} : {}", a, n),
        PrintStmt::MemDs(n) => format!("print mem :{}", n),
    };
    if up {
        // the second spelling: upper case, surrounded by blanks, numbers zero-padded (decimal all the same)
        let padded: String = s.split(' ').map(|t| if t.len() >= 2 && t.len() <= 5 && t.chars().all(|c| c.is_ascii_digit()) { format!("00{}", t) } else { t.to_string() }).collect::<Vec<_>>().join(" ");
        format!("  {}  ", padded.to_uppercase())
    } else {
        s
    }
}

/// a third spelling for the prompt, which reads its commands without regard to letter case: every word capitalised
fn capitalised(s: &str) -> String {
    s.split(' ')
        .map(|t| {
            let mut c = t.chars();
            match c.next() {
                Some(f) if f.is_ascii_lowercase() => format!("{}{}", f.to_ascii_uppercase(), c.as_str()),
                _ => t.to_string(),
            }
        })
        .collect::<Vec<_>>()
        .join(" ")
}

pub fn case_s() -> BoxedStrategy<PCase> {
    let regs = proptest::collection::vec(pt::u16s(), 8);
    let segv = || prop_oneof![3 => proptest::sample::select(vec![0u16, 1, 0x10, 0x0FFF, 0xF000, 0xFFF0, 0xFFFF]), 1 => any::<u16>()];
    let stores = proptest::collection::vec((any::<bool>(), pt::u16s(), pt::u16s()), 0..4);
    let tweaks = proptest::collection::vec(proptest::sample::select(vec!["stc", "clc", "cmc", "std", "cld", "sti", "cli"]), 0..4);
    let prints = proptest::collection::vec(print_s(300), 2..6);
    (
        data_s(),
        regs,
        (segv(), segv(), segv()),
        pt::flagword(),
        stores,
        tweaks,
        prints,
        (0u8..4, proptest::collection::vec(any::<u8>(), 40), any::<bool>(), any::<bool>()),
    )
        .prop_map(|(data, regs, (dsv, esv, ssv), fw, stores, tweaks, prints, (variant, choices, comments, ah_sahf))| {
            let mut code: Vec<Item> = Vec::new();
            code.push(Item::Label("start".into()));
            code.push(mov16(R16::SP, 0x2000));
            let fw = fw & !TF;
            code.push(mov16(R16::AX, fw));
            code.push(Item::Ins(Insn::new("push", vec![Opd::R16(R16::AX)])));
            code.push(ins0("popf"));
            if ah_sahf {
                code.push(Item::Ins(Insn::new("mov", vec![Opd::R8(R8::AH), Opd::Imm((fw >> 3) & 0xFF, ImmKind::SB)])));
                code.push(ins0("sahf"));
            }
            code.push(mov16(R16::AX, dsv));
            code.push(movsr(Seg::DS, R16::AX));
            for (word, off, val) in stores {
                let w = if word { W::W } else { W::B };
                let k = if word { ImmKind::SW } else { ImmKind::SB };
                code.push(Item::Ins(Insn::new("mov", vec![Opd::Mem(w, Mem { seg: None, shape: Shape::Direct(off) }), Opd::Imm(if word { val } else { val & 0xFF }, k)])));
            }
            code.push(mov16(R16::BX, esv));
            code.push(movsr(Seg::ES, R16::BX));
            code.push(mov16(R16::CX, ssv));
            code.push(movsr(Seg::SS, R16::CX));
            // pairwise distinct non-zero general registers
            let order = [R16::AX, R16::BX, R16::CX, R16::DX, R16::SP, R16::BP, R16::SI, R16::DI];
            let mut seen = std::collections::HashSet::new();
            for (i, r) in order.iter().enumerate() {
                let mut v = regs[i];
                while v == 0 || !seen.insert(v) {
                    v = v.wrapping_add(0x0101).wrapping_add(i as u16);
                }
                code.push(mov16(*r, v));
            }
            for t in tweaks {
                code.push(ins0(t));
            }
            // one program in three defines one or two procedures (closing brace = implied ret, or a written ret) and calls
            // them before it prints: print statements are then not the only statements without an operand
            let nprocs = if choices[5] % 3 == 0 { 1 + (choices[6] as usize & 1) } else { 0 };
            for k in 0..nprocs {
                let mut body = vec![ins0("nop")];
                if choices[7] >> k & 1 == 1 {
                    body.push(ins0("ret"));
                }
                code.insert(k, Item::Proc { name: format!("p17_{}", k), body });
                code.push(Item::Ins(Insn::new("call", vec![Opd::Name(format!("p17_{}", k))])));
            }
            let mut script: Vec<PromptCmd> = Vec::new();
            if variant == 0 {
                // the same commands typed at the prompt of an int 3
                code.push(Item::Ins(Insn::new("int", vec![Opd::Imm(3, ImmKind::UB)])));
                for (k, p) in prints.iter().enumerate() {
                    script.push(PromptCmd::Print(p.clone(), if k % 3 == 2 { capitalised(&prompt_text(p, false)) } else { prompt_text(p, k % 2 == 1) }));
                    script.push(PromptCmd::Print(p.clone(), prompt_text(p, false)));
                }
                script.push(PromptCmd::Next("n".into()));
            } else if variant == 3 {
                // the same print statements executed two or three times (a loop), with DS, a register, memory and the flags
                // changed between the passes: a statement shows the state of the moment it runs, every time it runs
                let passes = 2 + (choices[0] as u16 & 1);
                let k = 0x0011 + ((choices[1] as u16) << 4 | choices[2] as u16 & 0x0F0F);
                code.push(mov16(R16::DI, passes));
                code.push(Item::Label("again".into()));
                for p in &prints {
                    code.push(Item::Print(p.clone()));
                }
                code.push(Item::Ins(Insn::new("mov", vec![Opd::R16(R16::AX), Opd::Sr(Seg::DS)])));
                code.push(Item::Ins(Insn::new("add", vec![Opd::R16(R16::AX), Opd::Imm(k, ImmKind::SW)])));
                code.push(movsr(Seg::DS, R16::AX));
                code.push(Item::Ins(Insn::new("add", vec![Opd::R16(R16::BX), Opd::Imm(0x1111, ImmKind::SW)])));
                code.push(Item::Ins(Insn::new("mov", vec![Opd::Mem(W::B, Mem { seg: None, shape: Shape::Direct(choices[3] as u16 % 32) }), Opd::Imm(0xA0 | (choices[4] as u16 & 0x0F), ImmKind::SB)])));
                code.push(Item::Ins(Insn::new("sub", vec![Opd::R16(R16::DI), Opd::Imm(1, ImmKind::SW)])));
                code.push(Item::Ins(Insn::new("jnz", vec![Opd::Name("again".into())])));
            } else {
                for p in &prints {
                    code.push(Item::Print(p.clone()));
                    code.push(Item::Print(p.clone()));
                }
            }
            code.push(Item::Print(PrintStmt::Reg));
            code.push(Item::Print(PrintStmt::Flags));
            PCase { prog: Program { data, code }, layout: Layout { choices, comments, trailing_newline: true, pack_lines: false }, script }
        })
        .boxed()
}

pub fn script_bytes(script: &[PromptCmd]) -> Vec<u8> {
    let mut v = Vec::new();
    for c in script {
        v.extend_from_slice(c.text().as_bytes());
        v.push(b'\n');
    }
    v
}

/// events with the line numbers blanked (line attribution is C16's subject)
pub fn blank_lines(evs: &[Ev]) -> Vec<Ev> {
    evs.iter()
        .map(|e| match e {
            Ev::PrintHdr(_) => Ev::PrintHdr(0),
            Ev::About(_) => Ev::About(0),
            Ev::Int3(_) => Ev::Int3(0),
            Ev::DivErr(_) => Ev::DivErr(0),
            Ev::UnsupInt(_) => Ev::UnsupInt(0),
            x => x.clone(),
        })
        .collect()
}

pub fn first_diff(a: &[Ev], b: &[Ev]) -> String {
    for i in 0..a.len().max(b.len()) {
        if a.get(i) != b.get(i) {
            let f = |e: Option<&Ev>| match e {
                None => "(nothing)".to_string(),
                Some(Ev::Mem(v)) => format!("Mem({} bytes: {:02X?}...)", v.len(), &v[..v.len().min(24)]),
                Some(x) => format!("{:?}", x),
            };
            return format!("event {}: expected {} observed {}", i, f(a.get(i)), f(b.get(i)));
        }
    }
    "no difference".into()
}

pub fn eval(c: &PCase) -> CaseOutcome {
    eval_with(c, false, false)
}

/// `refusal_any`: a print command that must be refused may be answered with any of the emulator's reports (the
/// 'Invalid input' line of the prompt or a message of the print reader)
pub fn eval_with(c: &PCase, refusal_any: bool, interpreted: bool) -> CaseOutcome {
    let rendered = render_program(&c.prog, &c.layout);
    let flat = flatten(&c.prog);
    let lines: Vec<usize> = rendered.flat_offsets.iter().map(|o| rendered.line_of(*o)).collect();
    let image = data_image(&c.prog.data);
    let cfg = RunCfg { interpreted, script: &c.script, lines: &lines, max_steps: 10_000, input_lines: None, buf_fill: None };
    let rr = ref_run(&flat, &image, &cfg, &Quirks::none());
    let stdin = script_bytes(&c.script);
    let out = run_cli(rendered.text.as_bytes(), if c.script.is_empty() { Stdin::Closed } else { Stdin::Data(&stdin) }, interpreted, 4 << 20, 20_000);
    let lenient = |v: Vec<Ev>| -> Vec<Ev> { if refusal_any { v.into_iter().map(|e| if e == Ev::Invalid { Ev::PrintRefused } else { e }).collect() } else { v } };
    let exp = lenient(blank_lines(&normalise(&rr.events)));
    let replay = json!({"kind":"cli","source":rendered.text,"stdin":String::from_utf8_lossy(&stdin),"interpreted":interpreted,
        "blank_line_numbers": true, "refusal_any": refusal_any, "expected_events": exp.iter().map(|e| format!("{:?}", e)).collect::<Vec<_>>()});
    match &out.status {
        Status::Timeout | Status::SpawnError(_) => return CaseOutcome::Inconclusive(format!("{:?}", out.status)),
        _ => {}
    }
    if !out.clean() {
        return CaseOutcome::Fail { key: "c17|abnormal-exit".into(), what: format!("status {:?}, stderr {:?}", out.status, out.err_str().lines().next().unwrap_or("")), replay };
    }
    let toks = match tokenize(&out.stdout) {
        Ok(t) => t,
        Err(e) => return CaseOutcome::Fail { key: "c17|unparsable-output".into(), what: e, replay },
    };
    let obs = lenient(blank_lines(&toks));
    if exp != obs {
        let d = first_diff(&exp, &obs);
        let kind = if d.contains("Mem(") { "mem" } else if d.contains("Regs") { "reg" } else if d.contains("Flags") { "flags" } else if d.contains("PrintRefused") { "refusal" } else { "events" };
        return CaseOutcome::Fail { key: format!("c17|{}", kind), what: d, replay };
    }
    // classes
    let mut classes = vec![if c.script.is_empty() { "c17/in-program".to_string() } else { "c17/at-prompt".to_string() }];
    if c.prog.code.iter().any(|i| matches!(i, Item::Proc { .. })) {
        classes.push("c17/program-with-procedures".into());
    }
    if c.prog.code.iter().any(|i| matches!(i, Item::Label(n) if n == "again")) {
        classes.push("c17/same-statement-again-after-the-state-changed".into());
        if c.prog.code.iter().any(|i| matches!(i, Item::Print(PrintStmt::MemDs(_)))) {
            classes.push("c17/ds-relative-dump-again-after-DS-changed".into());
        }
    }
    let mut nt = false;
    for e in &rr.events {
        match e {
            Ev::Mem(v) => {
                if v.len() % 16 != 0 {
                    classes.push("c17/mem-len-not-multiple-of-16".into());
                    nt = true;
                }
                if v.len() == 1 {
                    classes.push("c17/mem-len-1".into());
                }
            }
            Ev::PrintRefused => classes.push("c17/refused".into()),
            Ev::Regs(_) => nt = true,
            _ => {}
        }
    }
    for it in &c.prog.code {
        if let Item::Print(PrintStmt::MemRange(_, b)) = it {
            if *b == 0xFFFFF {
                classes.push("c17/range-ends-at-FFFFF".into());
            }
        }
    }
    CaseOutcome::Pass { nontrivial: nt, classes, digest: fnv_str(&rendered.text) }
}

/// "printing never alters the state": the same program with the intermediate prints removed
/// ends with the same final dumps
fn eval_transparency(c: &PCase) -> CaseOutcome {
    if !c.script.is_empty() {
        return CaseOutcome::Pass { nontrivial: false, classes: vec![], digest: 0 };
    }
    let mut stripped = c.prog.clone();
    let n = stripped.code.len();
    let mut k = 0;
    stripped.code.retain(|it| {
        k += 1;
        !(matches!(it, Item::Print(_)) && k <= n - 2)
    });
    let a = run_cli(render_program(&c.prog, &c.layout).text.as_bytes(), Stdin::Closed, false, 4 << 20, 20_000);
    let b = run_cli(render_program(&stripped, &c.layout).text.as_bytes(), Stdin::Closed, false, 4 << 20, 20_000);
    if matches!(a.status, Status::Timeout | Status::SpawnError(_)) || matches!(b.status, Status::Timeout | Status::SpawnError(_)) {
        return CaseOutcome::Inconclusive("watchdog".into());
    }
    let (ta, tb) = match (tokenize(&a.stdout), tokenize(&b.stdout)) {
        (Ok(x), Ok(y)) => (x, y),
        _ => return CaseOutcome::Pass { nontrivial: false, classes: vec![], digest: 0 },
    };
    let tail = |t: &Vec<Ev>| t.iter().rev().filter(|e| matches!(e, Ev::Regs(_) | Ev::Flags(_))).take(2).cloned().collect::<Vec<_>>();
    if tail(&ta) != tail(&tb) {
        return CaseOutcome::Fail {
            key: "c17|print-changes-state".into(),
            what: format!("final dumps differ with/without intermediate prints: {:?} vs {:?}", tail(&ta), tail(&tb)),
            replay: json!({"kind":"cli","source":render_program(&c.prog, &c.layout).text,"stdin":"","interpreted":false}),
        };
    }
    CaseOutcome::Pass { nontrivial: true, classes: vec!["c17/transparency".into()], digest: fnv_str(&render_program(&stripped, &c.layout).text) ^ 1 }
}

/// ranges that leave the 1 MiB space: must be reported (at assembly or at run time), never dumped
fn refusal_family() -> Vec<(String, String)> {
    let mut v = Vec::new();
    for (a, b) in [("1048576", "1048580"), ("5", "1048576"), ("0x100000", "0x100005"), ("1048575", "1048576"), ("2097152", "2097160"), ("0b100000000000000000000", "0b100000000000000000001")] {
        v.push((format!("range {} -> {}", a, b), format!("start: print mem {} -> {}\n", a, b)));
    }
    for (a, n) in [("1048575", "1"), ("1048576", "0"), ("0", "1048576"), ("0xFFFFF", "0x10"), ("1048570", "6")] {
        v.push((format!("len {} : {}", a, n), format!("start: print mem {} : {}\n", a, n)));
    }
    for n in ["1048576", "2097151"] {
        v.push((format!("ds : {}", n), format!("start: print mem :{}\n", n)));
    }
    v.push(("ds-overflow".into(), "start: mov ax, 0xFFFF\nmov ds, ax\nprint mem :16\n".into()));
    v.push(("backward".into(), "start: print mem 16 -> 15\n".into()));
    v
}

/// print commands on both sides of every bound of the print reader, for a machine whose DS is `ds`: the last range
/// that still fits (answered with exactly its bytes) and the first that does not (reported, nothing dumped, no abort)
pub fn boundary_cmds(ds: u16) -> Vec<PromptCmd> {
    let mb = 1u32 << 20;
    let base = ds as u32 * 16;
    let mut v: Vec<PromptCmd> = Vec::new();
    let mut add = |p: PrintStmt, up: bool| {
        let t = prompt_text(&p, up);
        v.push(PromptCmd::Print(p, t));
    };
    for (k, (a, n)) in [(mb - 16, 15u32), (mb - 16, 16), (mb - 16, 17), (mb - 1, 0), (mb - 1, 1), (mb - 300, 299), (mb - 300, 300), (1, mb - 1), (mb - 1, mb - 1), (0x80000, 0x80000), (2, mb - 2)].into_iter().enumerate() {
        add(PrintStmt::MemLen(a, n), k % 3 == 1);
    }
    for (k, (a, b)) in [(mb - 4, mb - 1), (mb - 1, mb - 1), (mb - 4, mb), (mb, mb + 1), (16, 15), (mb - 1, 0), (mb - 20, mb - 1)].into_iter().enumerate() {
        add(PrintStmt::MemRange(a, b), k % 3 == 2);
    }
    for d in [-2i64, -1, 0, 1, 2, 16] {
        // end = base + n; the last valid end is mb - 1
        let n = mb as i64 - 1 - base as i64 + d;
        if n < 0 || n >= mb as i64 {
            continue;
        }
        // dumps that fit are only asked for when they are short
        if d <= 0 && n > 600 {
            continue;
        }
        add(PrintStmt::MemDs(n as u32), d == 1);
    }
    // counts around 2^16 (the count is not a 16-bit quantity), where they fit
    if ds == 0x1234 || ds == 1 {
        for n in [65_535u32, 65_536, 65_539] {
            add(PrintStmt::MemDs(n), n % 2 == 0);
        }
    }
    v
}

pub fn boundary_prompt_family(ctx: &Ctx, owner: &str) {
    use rayon::prelude::*;
    let dss = [0xFFFFu16, 0xFFF0, 0xFFDB, 0xFFDA, 0xF000, 0x8000, 0x1234, 0x0001, 0];
    let outcomes: Vec<(u16, bool, CaseOutcome)> = dss
        .par_iter()
        .flat_map(|ds| [(*ds, false), (*ds, true)])
        .map(|(ds, interpreted)| {
            let mut code: Vec<Item> = vec![Item::Label("start".into())];
            code.push(mov16(R16::AX, ds));
            code.push(movsr(Seg::DS, R16::AX));
            code.push(Item::Ins(Insn::new("mov", vec![Opd::Mem(W::W, Mem { seg: None, shape: Shape::Direct(0xFFFE_u16.wrapping_sub(ds << 4) & 0xFFF0) }), Opd::Imm(0xA55A, ImmKind::SW)])));
            code.push(mov16(R16::BX, 0x1111));
            let mut script: Vec<PromptCmd> = Vec::new();
            if interpreted {
                // -i: a prompt before every instruction; the commands are typed at the prompt of the last one
                for _ in 0..4 {
                    script.push(PromptCmd::Next("n".into()));
                }
            } else {
                code.push(Item::Ins(Insn::new("int", vec![Opd::Imm(3, ImmKind::UB)])));
            }
            script.extend(boundary_cmds(ds));
            script.push(PromptCmd::Next("next".into()));
            code.push(Item::Print(PrintStmt::Reg));
            if interpreted {
                script.push(PromptCmd::Next("n".into()));
            }
            let c = PCase { prog: Program { data: vec![], code }, layout: Layout::plain(), script };
            (ds, interpreted, eval_with(&c, true, interpreted))
        })
        .collect();
    for (ds, interpreted, o) in outcomes {
        ctx.add_evals(1);
        match o {
            CaseOutcome::Pass { .. } => {
                ctx.add_nontrivial(1);
                ctx.class(&format!("{}/prompt-boundary-family", owner), 1);
            }
            CaseOutcome::Fail { key, what, replay } => ctx.fail(Failure { key: format!("{}|prompt-boundary", key.replace("c17|", &format!("{}|", owner))), what: format!("boundary print commands at the prompt, DS={:04X}{}: {}", ds, if interpreted { " (-i)" } else { "" }, what), replay }),
            CaseOutcome::Inconclusive(w) => ctx.inconclusive(&w),
            CaseOutcome::Known(_) => {}
        }
    }
}

pub fn run(ctx: &Ctx) {
    ctx.set_rule("L3: proptest-generated programs establish a random machine state with MOV/PUSH/POPF/SAHF/flag-control instructions and data definitions (eight pairwise distinct non-zero general registers, DS/ES/SS, all nine flags, stores), then issue print reg / print flags / print mem in the three range forms (start/length over 0,1,15,16,17,255,256, ranges ending at FFFFFh, DS-relative with DS up to FFFFh, backward ranges; constants in decimal/hex/binary), each print twice in a row, in the program or typed at an INT 3 prompt; stdout is tokenised and compared event by event with the reference machine; plus a family of ranges leaving the 1 MiB space, which must be reported and not dumped. One program in four runs its print statements two or three times in a loop with DS, BX, a memory byte and the flags changed between the passes; one in three defines and calls procedures before it prints. Non-trivial = a run that printed registers (pairwise distinct, non-zero) or a memory range whose length is not a multiple of 16.");
    ctx.assume("layout (tabs, blank separators) is normalised; the 16-cells-per-row rule, four upper-case hex digits per register and 0/1 flags are enforced by the output parser");
    ctx.set_exhaustive(false);
    if !cli_available() {
        ctx.harness_error("CLI binary not built");
        return;
    }
    let n = ctx.tier.pick(900usize, 20_000usize);
    run_cases(ctx, "c17", n, case_s, eval, |c| json!({"source": render_program(&c.prog, &c.layout).text, "stdin": String::from_utf8_lossy(&script_bytes(&c.script))}));
    let n2 = ctx.tier.pick(150usize, 2_000usize);
    run_cases(ctx, "c17-transparency", n2, case_s, eval_transparency, |c| json!({"source": render_program(&c.prog, &c.layout).text}));
    for (name, src) in refusal_family() {
        ctx.add_evals(1);
        ctx.add_nontrivial(1);
        ctx.class("c17/refusal-family", 1);
        let out = run_cli(src.as_bytes(), Stdin::Closed, false, 8 << 20, 20_000);
        let replay = json!({"kind":"cli","source":src,"stdin":"","interpreted":false});
        if matches!(out.status, Status::Timeout | Status::SpawnError(_)) {
            ctx.inconclusive(&format!("refusal {}: {:?}", name, out.status));
            continue;
        }
        if !out.clean() {
            ctx.fail(Failure { key: format!("c17|refusal|abnormal-exit|{}", name), what: format!("{}: status {:?} {}", name, out.status, out.err_str().lines().next().unwrap_or("")), replay });
            continue;
        }
        let s = out.out_str();
        // a dump = a line made of two-digit hex cells only; a report = any other line besides the statement's own header
        let is_row = |l: &str| !l.trim().is_empty() && l.split_whitespace().all(|c| c.len() == 2 && c.chars().all(|x| x.is_ascii_hexdigit()));
        let dumped = match tokenize(&out.stdout) {
            Ok(t) => t.iter().any(|e| matches!(e, Ev::Mem(_))),
            Err(_) => s.lines().any(|l| is_row(l)),
        };
        let reported = s.lines().any(|l| !l.trim().is_empty() && !l.starts_with("Output of line") && !is_row(l));
        if dumped || !reported {
            ctx.fail(Failure {
                key: format!("c17|range-outside-1MiB-printed|{}", name.split(' ').next().unwrap_or("")),
                what: format!("'{}' leaves the 1 MiB space (or runs backwards) but was {} (stdout starts {:?})", src.trim(), if dumped { "dumped" } else { "not reported" }, s.chars().take(80).collect::<String>()),
                replay,
            });
        }
    }
    boundary_prompt_family(ctx, "c17");
    ctx.require_class("c17/in-program", 100);
    ctx.require_class("c17/at-prompt", 50);
    ctx.require_class("c17/mem-len-not-multiple-of-16", 50);
    ctx.require_class("c17/refused", 5);
    ctx.require_class("c17/program-with-procedures", 50);
    ctx.require_class("c17/same-statement-again-after-the-state-changed", 50);
    ctx.require_class("c17/ds-relative-dump-again-after-DS-changed", 20);
}
