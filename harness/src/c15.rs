//! C15 -- any input text is answered with a result or a diagnostic: no abort, no hang.
use crate::cli::*;
use crate::clicheck::*;
use crate::common::*;
use crate::emu::*;
use crate::pipeline::*;
use crate::progs::*;
use emulator_8086_lib::{InterpreterContext, Label, LabelType, VM};
use proptest::prelude::*;
use serde_json::{json, Value};
use std::collections::HashMap;

// ------------------------------------------------------------------ in-process probes

thread_local! {
    static VMS: std::cell::RefCell<VM> = std::cell::RefCell::new(VM::new());
}

fn benign(vm: &mut VM) {
    let mut r = Regs::default();
    r.r = [0x0102, 0x0304, 0x0003, 0x0000, 0x8000, 0x0506, 0x0708, 0x090A, 0xFFFF, 0x0100, 0x0200, 0x0300, 0xF002, 0];
    load(vm, &r);
}

fn probe_ictx() -> InterpreterContext {
    let mut label_map: HashMap<String, Label> = HashMap::new();
    for (n, t, m) in [("start", LabelType::CODE, 0usize), ("L1", LabelType::CODE, 1), ("t_1", LabelType::CODE, 2), ("v_1", LabelType::DATA, 4), ("d_0", LabelType::DATA, 0)] {
        label_map.insert(n.to_string(), Label::new(t, 0, m));
    }
    let mut fn_map = HashMap::new();
    fn_map.insert("p_0".to_string(), 0usize);
    InterpreterContext { fn_map, label_map, call_stack: vec![0], ..Default::default() }
}

/// give `text` to the driver's preprocess() (comment stripping first, as the driver does) and to the
/// three other parsers (whole text and line by line); returns (parser, panic message) for every panic
pub fn probe_all(text: &str, real_preprocess: bool) -> Vec<(&'static str, String)> {
    let mut out: Vec<(&'static str, String)> = Vec::new();
    let stripped = strip_comments(text);
    if real_preprocess {
        if let Err(p) = catch(|| preprocess::preprocess(&stripped).map(|_| ()).map_err(|_| ())) {
            out.push(("preprocess", p));
        }
    } else if let Err(e) = assemble(&stripped) {
        if e.starts_with("PANIC") {
            out.push(("preprocessor", e));
        }
    }
    let mut pieces: Vec<&str> = vec![text];
    for l in text.split('\n').take(24) {
        if !l.trim().is_empty() && l.len() != text.len() {
            pieces.push(l);
        }
    }
    VMS.with(|vmc| {
        let mut vm = vmc.borrow_mut();
        let vm: &mut VM = &mut vm;
        for piece in pieces {
            benign(vm);
            let mut ctr = 0usize;
            if let Err(p) = catch(|| DATA.with(|d| d.parse(vm, &mut ctr, piece).map_err(|_| ()))) {
                out.push(("data-loader", p));
            }
            // "for every string given directly to the interpreter": in a benign machine state and in two hostile ones
            // (every register at its extreme, the most negative dividend with divisor -1, segments at the top)
            for st in 0..3 {
                match st {
                    0 => benign(vm),
                    1 => {
                        let mut r = Regs::default();
                        r.r = [0x8000, 0xFFFF, 0xFFFF, 0x8000, 0x0001, 0xFFFF, 0xFFFF, 0xFFFF, 0xFFFF, 0xFFFF, 0xFFFF, 0xFFFF, 0xFEFF, 0];
                        load(vm, &r);
                    }
                    _ => {
                        let mut r = Regs::default();
                        r.r = [0x0080, 0x00FF, 0x0000, 0xFFFF, 0xFFFF, 0x0000, 0xFFFE, 0x0001, 0x0000, 0xF001, 0xFFF0, 0x0000, 0x0000, 0];
                        load(vm, &r);
                    }
                }
                let mut ictx = probe_ictx();
                let mut reps = 0;
                let mut panicked = false;
                loop {
                    match step(vm, &mut ictx, 0, piece) {
                        StepOut::Panic(p) => {
                            out.push(("interpreter", p));
                            panicked = true;
                            break;
                        }
                        StepOut::State(St::Repeat) if reps < 4 => reps += 1,
                        _ => break,
                    }
                }
                if panicked {
                    break;
                }
            }
            benign(vm);
            if let Err(p) = catch(|| PRINT.with(|pr| pr.parse(vm, piece).map_err(|_| ()))) {
                out.push(("print-reader", p));
            }
        }
    });
    out
}

// ------------------------------------------------------------------ generators

#[derive(Clone, Debug)]
pub struct MOp {
    pub kind: u8,
    pub pos: u16,
    pub len: u8,
    pub val: u8,
}

#[derive(Clone, Debug)]
pub struct TCase {
    pub base: String,
    pub ops: Vec<MOp>,
    /// the unmutated base terminates by construction (may be run by the CLI as it is)
    pub runnable: bool,
}

const SPECIAL_BYTES: [&[u8]; 28] = [
    b"\"", b"[", b"]", b"{", b"}", b"(", b")", b",", b":", b";", b"-", b">", b"<", b"\n", b"\r", b"\t", b" ", b"0", b"9", b"x", b"\0", b"\xC3\xA9", b"\xE2\x82\xAC", b"\xF0\x9F\x98\x80", b"->", b"<-", b"\\", b"'",
];

const WORDS: [&str; 40] = [
    "mov", "MOV", "byte", "WORD", "offset", "db", "DW", "set", "macro", "def", "print", "mem", "flags", "reg", "start:", "ax", "AL", "es", "[", "]", "{", "}", "(", ")", "->", "<-", ",", ":", "65536", "99999999999999999999", "-1", "-",
    "0x", "0b", "0xG", "\"", "rep", "int", "call", "ret",
];

fn specials() -> Vec<String> {
    let mut v: Vec<String> = Vec::new();
    // long lines made of multi-byte characters with a diagnostic on the same line: wherever a cited line is cut
    // or measured, the position falls inside a character for one of the alignments
    for lead in ["", " ", "  "] {
        for (chr, n) in [("\u{e9}", 260usize), ("\u{20ac}", 180), ("\u{1F600}", 130)] {
            v.push(format!("start: hlt\n{}db \"{}\" @\n", lead, chr.repeat(n)));
            v.push(format!("{}x: db \"{}\"\nstart: mov ax, 70000\n", lead, chr.repeat(n)));
            v.push(format!("start: nop\n{}mov al, 5 ; {}\n{}mov ax, bl ; {}\n", lead, chr.repeat(n), lead, chr.repeat(n)));
            v.push(format!("start: jmp nowhere{} ; {}", lead, chr.repeat(n)));
        }
    }
    v.extend(vec![
        "".into(),
        " ".into(),
        "\n".into(),
        "\n\n\n".into(),
        "\t \r\n".into(),
        "start:".into(),
        "start: hlt".into(),
        "hlt".into(),
        "mov".into(),
        "mov ax".into(),
        "mov ax,".into(),
        "mov ax, 5".into(),
        "start: mov ax, 5\nhlt".into(),
        "start: mov ax, 5\r\nhlt\r\n".into(),
        "db".into(),
        "db \"".into(),
        "db \"abc".into(),
        "db \"abc\"".into(),
        "x: db \"abc\"\nstart: mov al, byte x".into(),
        // backslashes in strings (syntax.md: characters are not escaped), a lone backslash before the closing quote
        "x: db \"C:\\TOOLS\\\"\nstart: mov al, byte x\n".into(),
        "dw \"\\\"\nstart: hlt\n".into(),
        "db \"\\x\"\ndb \"\\xZ\"\ndb \"\\n\\t\\0\\\\\"\nstart: hlt\n".into(),
        // a label inside a macro body, defined again at top level, long expansion
        "macro m(a) -> l1: inc a inc a inc a inc a inc a inc a inc a inc a inc a inc a inc a inc a inc a inc a inc a inc a inc a inc a inc a inc a <-\nstart: m(ax)\nl1: nop\n".into(),
        "macro m(a) -> inc a l1: <-\nstart: m(ax)\nm(bx)\n".into(),
        // ... with an expansion much longer than the whole source (long arguments), the label at its end
        "macro m(a,b) -> add a,b add a,b add a,b add a,b add a,b add a,b add a,b add a,b add a,b add a,b add a,b add a,b l1: <-\nstart: m(word [bx, si, 0b0000000000001111], 0b0000000000000001)\nl1: nop\n".into(),
        "macro m(a,b) -> l1: add a,b add a,b add a,b add a,b add a,b add a,b add a,b add a,b add a,b l2: <-\nstart: m(word es [bp, di, 0b0000000000001111], 0x00000001)\nl2: nop\nl1: nop\n".into(),
        // every kind of definition laid across the end of the 1 MiB address space (the loader must wrap)
        "set 0xFFFF\ndb [10]\ndb \"wrapped around!\"\nstart: print mem 0 -> 15\n".into(),
        "SET 0xFFFF\nDB [13]\nDW \"wide chars\"\nstart: print mem 0xFFFF0 -> 0xFFFFF\n".into(),
        "set 0xFFFF\ndb [9]\ndb [0x5A , 20]\nstart: hlt\n".into(),
        "set 0xFFFF\ndb [9]\ndb [20]\nstart: hlt\n".into(),
        "set 0xFFFF\ndb [11]\ndw [0x1234 , 20]\nstart: hlt\n".into(),
        "set 0xFFFF\ndb [11]\ndw [20]\nstart: hlt\n".into(),
        "set 0xFFFF\ndb [15]\ndw 0xBEEF\nx: db 1\nstart: mov al, byte x\n".into(),
        "set 0xFFF0\ndb [250]\ndb \"0123456789ABCDEF\"\nstart: hlt\n".into(),
        "set 0xF001\ndb [65500]\ndb \"crossing the top of memory with a string\"\nstart: hlt\n".into(),
        "macro".into(),
        "macro m".into(),
        "macro m(".into(),
        "macro m(a) ->".into(),
        "macro m(a) -> inc a".into(),
        "macro m(a) -> inc a <-".into(),
        "macro m(a) -> inc a <-\nstart: m(".into(),
        "def".into(),
        "def f".into(),
        "def f {".into(),
        "def f { inc ax".into(),
        "def f { }".into(),
        "start: print".into(),
        "start: print mem".into(),
        "start: print mem 5".into(),
        "start: print mem 5 ->".into(),
        "start: print mem : ".into(),
        "start: jmp nowhere".into(),
        "start: jmp nowhere\n".into(),
        "start: \u{e9}".into(),
        "\u{e9}\nstart: mov".into(),
        "; \u{20ac}\nstart: mov ax, \u{e9}\n".into(),
        "db \"\u{e9}\"\nstart: hlt\n".into(),
        "x: db 5 ; \u{1F600}\nstart: jmp q\n".into(),
        "start: \0".into(),
        "\u{feff}start: hlt\n".into(),
        "start: mov ax, [".into(),
        "start: mov ax, word [[[[[[[[".into(),
        "start: mov ax, word [bx,si,".into(),
        ";".into(),
        "; only a comment".into(),
        "start: hlt ; comment without newline".into(),
        "print reg".into(),
        "print mem 0 -> 1048575".into(),
        "print mem 1048575:0".into(),
        "set 5".into(),
        "dw [40000]".into(),
        "dw [32768]".into(),
        "dw [1 , 65535]".into(),
        "db [65535]".into(),
        "db [5 , 65535]".into(),
        // labels at the very end of the file that a taken jump reaches (nothing follows them but the driver's own halt)
        "start: jmp fin\nhlt\nfin:".into(),
        "start: jmp fin\nhlt\nfin:\n".into(),
        "start: hlt\nfin:\n".into(),
        "start: cmp ax, 0\nje fin\nhlt\nfin:\n".into(),
        "start: mov cx, 2\nagain: loop again\njmp fin\nnop\nhlt\nfin:".into(),
        "def f { ret }\nstart: call f\njmp e\nhlt\ne:\n".into(),
        "def f { inc ax }\nstart: call f\njmp e\ne:".into(),
        "start: jmp a\nb: hlt\na: jmp b\nc:\n".into(),
        "start: jcxz z\nhlt\nz:\n".into(),
        "start: print reg\njmp z\nhlt\nz:".into(),
        "x: db 1\nstart: jmp z\nhlt\nhlt\nz:\n\n\n".into(),
    ]);
    for n in [1usize, 5, 19, 20, 21, 40, 1000] {
        v.push(format!("start: mov ax, {}", "9".repeat(n)));
        v.push(format!("db {}\nstart: hlt\n", "1".repeat(n)));
        v.push(format!("start: mov ax, 0x{}\n", "F".repeat(n)));
        v.push(format!("start: mov ax, 0b{}", "1".repeat(n)));
        v.push(format!("start: mov ax, -{}\n", "7".repeat(n)));
        v.push(format!("print mem {}", "3".repeat(n)));
        v.push(format!("db [{}]", "6".repeat(n)));
        v.push(format!("int {}", "2".repeat(n)));
        v.push(format!("rol al, {}", "5".repeat(n)));
        v.push(format!("mov word [bx,{}], 1", "8".repeat(n)));
    }
    v
}

pub fn base_s() -> BoxedStrategy<(String, bool)> {
    let id = |s: &str| s.to_string();
    let _ = id;
    prop_oneof![
        4 => crate::c11::case_s().prop_map(|c| {
            let id = |s: &str| s.to_string();
            (render_program(&crate::c11::build(&c, &id), &crate::progs::Layout { choices: c.ch1.clone(), comments: c.pack, trailing_newline: c.ch1[0] & 1 == 0, pack_lines: c.pack }).text, false)
        }),
        2 => crate::c13::raw_s().prop_map(|r| (crate::c13::render(&crate::c13::build(&r)).text, false)),
        2 => (crate::gen::gencfg_s(12, 2), proptest::collection::vec(any::<u8>(), 16)).prop_map(|(g, ch)| (render_program(&crate::gen::build_program(&g), &crate::progs::Layout { choices: ch, comments: true, trailing_newline: true, pack_lines: true }).text, true)),
        2 => crate::c12::case_s().prop_map(|c| {
            let mut c = c;
            c.data.truncate(8);
            (crate::c12::render_case(&c, 3).0.chars().take(3000).collect::<String>(), true)
        }),
        2 => proptest::sample::select(specials()).prop_map(|s| (s, true)),
    ]
    .boxed()
}

pub fn tcase_s() -> BoxedStrategy<TCase> {
    let op = (0u8..12, any::<u16>(), any::<u8>(), any::<u8>()).prop_map(|(kind, pos, len, val)| MOp { kind, pos, len, val });
    (base_s(), proptest::collection::vec(op, 0..4)).prop_map(|((base, runnable), ops)| TCase { base, ops, runnable }).boxed()
}

/// apply the mutations; works on bytes (may produce invalid UTF-8)
pub fn mutate(c: &TCase) -> Vec<u8> {
    let mut b: Vec<u8> = c.base.as_bytes().to_vec();
    for op in &c.ops {
        let n = b.len();
        let pos = if n == 0 { 0 } else { (op.pos as usize * (n + 1)) >> 16 };
        match op.kind {
            0 => {
                // flip one byte to a special or arbitrary value
                if pos < n {
                    let s = SPECIAL_BYTES[op.val as usize % SPECIAL_BYTES.len()];
                    if op.len % 3 == 0 {
                        b[pos] = op.val;
                    } else {
                        b.splice(pos..pos + 1, s.iter().copied());
                    }
                }
            }
            1 => {
                let s = SPECIAL_BYTES[op.val as usize % SPECIAL_BYTES.len()];
                b.splice(pos..pos, s.iter().copied());
            }
            2 => {
                // delete a span
                let e = (pos + 1 + (op.len as usize % 8)).min(n);
                if pos < e {
                    b.drain(pos..e);
                }
            }
            3 => {
                // duplicate a span
                let e = (pos + 1 + op.len as usize).min(n);
                if pos < e {
                    let span: Vec<u8> = b[pos..e].to_vec();
                    b.splice(e..e, span);
                }
            }
            4 => b.truncate(pos),
            5 => {
                // truncate right before the final newline / drop all trailing newlines
                while b.last() == Some(&b'\n') || b.last() == Some(&b'\r') {
                    b.pop();
                }
            }
            6 | 7 | 8 | 9 => {
                // token level: split on blanks, operate on token index
                let text = String::from_utf8_lossy(&b).to_string();
                let mut toks: Vec<String> = Vec::new();
                let mut cur = String::new();
                let mut in_ws = false;
                for ch in text.chars() {
                    let ws = ch == ' ' || ch == '\n' || ch == '\t' || ch == '\r';
                    if ws != in_ws && !cur.is_empty() {
                        toks.push(std::mem::take(&mut cur));
                    }
                    in_ws = ws;
                    cur.push(ch);
                }
                if !cur.is_empty() {
                    toks.push(cur);
                }
                if !toks.is_empty() {
                    let i = (op.pos as usize * toks.len()) >> 16;
                    match op.kind {
                        6 => {
                            toks.remove(i);
                        }
                        7 => {
                            let t = toks[i].clone();
                            toks.insert(i, t);
                        }
                        8 => {
                            let j = (op.val as usize * toks.len()) >> 8;
                            toks.swap(i, j);
                        }
                        _ => toks[i] = WORDS[op.val as usize % WORDS.len()].to_string(),
                    }
                    b = toks.concat().into_bytes();
                }
            }
            10 => {
                // CR-LF line ends
                let mut v = Vec::with_capacity(b.len() + 16);
                for x in &b {
                    if *x == b'\n' {
                        v.push(b'\r');
                    }
                    v.push(*x);
                }
                b = v;
            }
            _ => {
                // raw high byte (invalid UTF-8 in files)
                b.insert(pos.min(b.len()), 0x80 | (op.val & 0x7F));
            }
        }
    }
    b
}

fn panic_key(parser: &str, msg: &str) -> String {
    format!("c15|{}|panic|{}", parser, panic_class(msg).chars().take(70).collect::<String>())
}

pub fn eval_text(c: &TCase) -> CaseOutcome {
    let bytes = mutate(c);
    let text = String::from_utf8_lossy(&bytes).to_string();
    let real = true;
    let ps = probe_all(&text, real);
    if let Some((parser, msg)) = ps.first() {
        return CaseOutcome::Fail {
            key: panic_key(parser, msg),
            what: format!("{} aborted (panic) on a {}-byte input: {}", parser, text.len(), msg.chars().take(200).collect::<String>()),
            replay: json!({"kind":"c15","text":text,"parser":parser}),
        };
    }
    let mut classes = vec![];
    let nt = c.ops.len() == 1;
    if c.ops.is_empty() {
        classes.push("c15/unmutated".to_string());
    }
    if !text.is_ascii() {
        classes.push("c15/non-ascii".into());
    }
    if !text.ends_with('\n') {
        classes.push("c15/no-final-newline".into());
    }
    if !text.contains('\n') {
        classes.push("c15/no-newline-at-all".into());
    }
    if text.contains("\r\n") {
        classes.push("c15/crlf".into());
    }
    if text.matches('"').count() % 2 == 1 {
        classes.push("c15/unbalanced-quote".into());
    }
    if text.matches('[').count() != text.matches(']').count() {
        classes.push("c15/unbalanced-bracket".into());
    }
    CaseOutcome::Pass { nontrivial: nt, classes, digest: fnv_str(&text) }
}

// ------------------------------------------------------------------ CLI

/// programs given to the binary are made non-startable (start renamed) unless unmutated: a mutated
/// program may legitimately loop forever, which is not this property's subject
fn cli_bytes(c: &TCase) -> (Vec<u8>, bool) {
    if c.ops.is_empty() && c.runnable {
        return (c.base.as_bytes().to_vec(), true);
    }
    let c2 = TCase { base: c.base.replace("start:", "begin:"), ops: c.ops.clone(), runnable: false };
    (mutate(&c2), false)
}

pub fn eval_cli(c: &TCase) -> CaseOutcome {
    eval_cli_bin(c, CLI_BIN)
}

/// the same in the emulator built with cargo's default profile (unoptimised, arithmetic overflow checked)
pub fn eval_cli_unopt(c: &TCase) -> CaseOutcome {
    match eval_cli_bin(c, CLI_DEBUG_BIN) {
        CaseOutcome::Fail { key, what, replay } => CaseOutcome::Fail { key: key.replace("c15|cli|", "c15|cli-unoptimised|"), what: format!("[emulator built with cargo's default profile] {}", what), replay },
        CaseOutcome::Pass { nontrivial, classes, digest } => CaseOutcome::Pass { nontrivial, classes: classes.into_iter().map(|k| k.replace("c15/cli", "c15/cli-unoptimised")).collect(), digest },
        o => o,
    }
}

fn eval_cli_bin(c: &TCase, bin: &'static str) -> CaseOutcome {
    let (bytes, may_run) = cli_bytes(c);
    let out = run_bin_limited(bin, &bytes, Stdin::Closed, false, 8 << 20, if bin == CLI_BIN { 30_000 } else { 90_000 }, DEFAULT_LIMITS);
    let lossy = String::from_utf8_lossy(&bytes).to_string();
    let replay = json!({"kind":"cli-bytes","bytes_hex": bytes.iter().map(|b| format!("{:02x}", b)).collect::<String>(), "text_lossy": lossy, "binary": if bin == CLI_BIN { "optimised" } else { "unoptimised" }});
    match &out.status {
        Status::SpawnError(e) => return CaseOutcome::Inconclusive(e.clone()),
        Status::Timeout => {
            if may_run || lossy.contains("start:") {
                // a program that runs long (its own loop) is not a defect of input handling
                return CaseOutcome::Pass { nontrivial: false, classes: vec!["c15/cli-program-ran-long".into()], digest: 0 };
            }
            return CaseOutcome::Inconclusive("watchdog on a program that cannot start".into());
        }
        Status::OutputCap => {
            if may_run || lossy.contains("start:") {
                return CaseOutcome::Pass { nontrivial: false, classes: vec!["c15/cli-program-ran-long".into()], digest: 0 };
            }
            return CaseOutcome::Fail { key: "c15|cli|runaway-output".into(), what: "output beyond 8 MiB for a program that cannot start".into(), replay };
        }
        Status::Signal(s) => return CaseOutcome::Fail { key: format!("c15|cli|signal-{}", s), what: format!("killed by signal {} {}", s, out.err_str().lines().last().unwrap_or("")), replay },
        Status::Blocked => return CaseOutcome::Fail { key: "c15|cli|blocked".into(), what: "the emulator went to sleep without using CPU time although its input was complete (it waits for something that cannot come)".into(), replay },
        Status::Exit(code) => {
            // status 0, or a status the emulator chose itself (1 after "Error Reading file" for a file that is not UTF-8)
            let ok = own_exit(*code);
            if out.panicked() || !ok {
                let msg = out.err_str().lines().find(|l| l.contains("panicked at")).map(|l| l.to_string()).unwrap_or_default();
                let detail = out.err_str().lines().skip_while(|l| !l.contains("panicked at")).nth(1).unwrap_or("").to_string();
                return CaseOutcome::Fail {
                    key: format!("c15|cli|exit-{}|{}", code, panic_class(&format!("{} {}", msg.split(" at ").last().unwrap_or("").split(':').next().unwrap_or(""), detail)).chars().take(70).collect::<String>()),
                    what: format!("exit status {} on a {}-byte file: {} {}", code, bytes.len(), msg, detail),
                    replay,
                };
            }
            if out.stdout.is_empty() {
                return CaseOutcome::Fail { key: "c15|cli|silent".into(), what: "neither output nor diagnostic".into(), replay };
            }
        }
    }
    let mut classes = vec!["c15/cli".to_string()];
    if std::str::from_utf8(&bytes).is_err() {
        classes.push("c15/cli-invalid-utf8".into());
    }
    if !bytes.contains(&b'\n') {
        classes.push("c15/cli-no-newline-at-all".into());
    }
    if bytes.last() != Some(&b'\n') {
        classes.push("c15/cli-no-final-newline".into());
    }
    let so = out.out_str();
    if so.to_ascii_lowercase().contains("syntax error") {
        classes.push("c15/cli-syntax-error".into());
    }
    if so.contains("used but not defined") {
        classes.push("c15/cli-undefined-label".into());
    }
    CaseOutcome::Pass { nontrivial: c.ops.len() == 1, classes, digest: fnv64(&bytes) }
}

// ------------------------------------------------------------------ size / depth families

pub fn family(name: &str, n: usize) -> String {
    match name {
        "lines" => {
            let mut s = String::from("start:\n");
            for _ in 0..n {
                s.push_str("inc ax\n");
            }
            s
        }
        "labels" => {
            let mut s = String::from("start:\n");
            for i in 0..n {
                s.push_str(&format!("l{}: nop\n", i));
            }
            s
        }
        "data-items" => {
            let mut s = String::new();
            for i in 0..n {
                // stays below 64 KiB per segment: a new segment every 1000 items
                if i % 1000 == 0 {
                    s.push_str(&format!("set {}\n", (i / 1000) * 0x100 % 0xF000));
                }
                s.push_str(&format!("d{}: dw {}\n", i, i % 65536));
            }
            s.push_str("start: hlt\n");
            s
        }
        "macro-params" => {
            let params: Vec<String> = (0..n).map(|i| format!("p{}", i)).collect();
            let args: Vec<String> = (0..n).map(|i| format!("{}", i % 250)).collect();
            format!("macro big({}) -> mov al, p0 <-\nstart: big({})\n", params.join(","), args.join(","))
        }
        "macro-chain" => {
            let mut s = String::from("macro c0(_) -> inc bx <-\n");
            for i in 1..=n {
                s.push_str(&format!("macro c{}(_) -> c{} (_) <-\n", i, i - 1));
            }
            s.push_str(&format!("start: c{}(_)\n", n));
            s
        }
        "macro-uses" => {
            let mut s = String::from("macro one(a) -> add ax, a <-\nstart:\n");
            for i in 0..n {
                s.push_str(&format!("one({})\n", i % 60000));
            }
            s
        }
        "long-string" => format!("s: db \"{}\"\nstart: hlt\n", "a".repeat(n)),
        "procedures" => {
            let mut s = String::new();
            for i in 0..n {
                s.push_str(&format!("def f{} {{ inc ax }}\n", i));
            }
            s.push_str("start: hlt\n");
            s
        }
        "nested-brackets" => format!("start: mov ax, word {}bx{}\n", "[".repeat(n), "]".repeat(n)),
        "digits" => format!("start: mov ax, {}\n", "7".repeat(n)),
        "undefined-labels" => {
            let mut s = String::from("start:\n");
            for i in 0..n {
                s.push_str(&format!("jmp u{}\n", i));
            }
            s
        }
        "one-long-line" => {
            let mut s = String::from("start: ");
            for _ in 0..n {
                s.push_str("inc ax ");
            }
            s.push('\n');
            s
        }
        "blank-lines" => format!("{}start: hlt\n", "\n".repeat(n)),
        "error-on-last-of-n-lines" => {
            let mut s = String::from("start:\n");
            for _ in 0..n {
                s.push_str("inc ax\n");
            }
            s.push_str("mov ax, bogus bogus\n");
            s
        }
        _ => String::new(),
    }
}

pub const FAMILIES: [&str; 14] =
    ["lines", "labels", "data-items", "macro-params", "macro-chain", "macro-uses", "long-string", "procedures", "nested-brackets", "digits", "undefined-labels", "one-long-line", "blank-lines", "error-on-last-of-n-lines"];

fn run_families(ctx: &Ctx) {
    let maxn = ctx.tier.pick(8_000usize, 64_000usize);
    // every macro use builds a parser inside the code under test (7 ms): these two families stay smaller
    let maxn_macro = ctx.tier.pick(1_000usize, 8_000usize);
    use rayon::prelude::*;
    FAMILIES.par_iter().for_each(|fam| {
        let fam: &str = fam;
        let mut n = 250usize;
        let mut prev: Option<(usize, u64, f64, usize)> = None; // (n, maxrss_kb, cpu_s, out_bytes)
        while n <= (if fam.starts_with("macro-") { maxn_macro } else { maxn }) {
            // macro-chain is limited by the documented nesting limit: beyond it the answer is a diagnostic (cheap)
            let src = family(fam, n);
            let mut best_cpu = f64::MAX;
            let mut rss = 0u64;
            let mut outlen = 0usize;
            let mut bad: Option<String> = None;
            for _rep in 0..ctx.tier.pick(1, 3) {
                let (out, ru) = run_cli_rusage(src.as_bytes(), 64 << 20, 300_000);
                match &out.status {
                    Status::Exit(c) if own_exit(*c) && !out.panicked() => {}
                    Status::Timeout | Status::SpawnError(_) => {
                        ctx.inconclusive(&format!("family {} n={}: {:?}", fam, n, out.status));
                        bad = Some("inconclusive".into());
                        break;
                    }
                    st => {
                        bad = Some(format!("status {:?} {}", st, out.err_str().lines().rev().find(|l| !l.trim().is_empty()).unwrap_or("")));
                        break;
                    }
                }
                best_cpu = best_cpu.min(ru.cpu_s);
                rss = rss.max(ru.maxrss_kb);
                outlen = out.stdout.len();
            }
            ctx.add_evals(1);
            ctx.class(&format!("c15/family/{}", fam), 1);
            let replay = json!({"kind":"c15-family","family":fam,"n":n});
            if let Some(b) = bad {
                if b != "inconclusive" {
                    ctx.fail(Failure { key: format!("c15|family|{}|abnormal", fam), what: format!("family {} with n={}: {}", fam, n, b), replay });
                }
                break;
            }
            if n >= 1000 {
                ctx.add_nontrivial(1);
            }
            // output proportional to the input: generous constant (a diagnostic echoes one line)
            if outlen > 4096 + 64 * src.len() {
                ctx.fail(Failure { key: format!("c15|family|{}|output-not-proportional", fam), what: format!("family {} n={}: {} bytes of output for {} bytes of input", fam, n, outlen, src.len()), replay: replay.clone() });
            }
            if let Some((pn, prss, pcpu, _)) = prev {
                if rss > 3 * prss + 64 * 1024 {
                    ctx.fail(Failure { key: format!("c15|family|{}|memory-not-proportional", fam), what: format!("family {}: peak memory {} KiB at n={} versus {} KiB at n={}", fam, rss, n, prss, pn), replay: replay.clone() });
                }
                if best_cpu > 8.0 * pcpu + 2.0 {
                    ctx.inconclusive(&format!("family {}: CPU time {:.2}s at n={} versus {:.2}s at n={} (super-quadratic growth?)", fam, best_cpu, n, pcpu, pn));
                }
            }
            prev = Some((n, rss, best_cpu, outlen));
            n *= 2;
        }
    });
}

pub fn run(ctx: &Ctx) {
    if !crate::pipeline::DRIVER_SRC {
        ctx.note("the driver's pure modules (preprocess.rs, error_helper.rs, print.rs) of the working tree do not compile stand-alone into the harness: in-process calls of preprocess() and of the print reader are replaced by stubs; the CLI parts decide for them");
    }
    ctx.set_rule("(a) proptest: valid programs from the C11/C13/C08/C12 generators and a list of ~160 hand-picked fragments (empty, blank, single tokens, every prefix of a macro / procedure / print / string definition, no final newline, CR-LF, NUL, BOM, non-ASCII in code, comments and strings, huge numbers in every numeric context, direct loader lines like 'dw [40000]'), subjected to 0-3 byte-level mutations (flip / insert a special byte or multi-byte character / delete / duplicate a span / truncate anywhere / strip the final newline / CR-LF / raw high byte) or token-level mutations (drop, duplicate, swap, replace by a grammar word); every text goes to the driver's own preprocess() (after the driver's comment stripping) and, whole and line by line, to the data loader, the interpreter and the print reader under catch_unwind in a build with overflow checks; (b) a seeded subset goes to the CLI as a file (raw bytes, possibly invalid UTF-8) with closed stdin: exit 0 (or 1 with 'Error Reading file' for non-UTF-8), some output, never a panic or signal; (c) 14 size/depth families (lines, labels, data items, macro parameters, macro chain, macro uses, string length, procedures, nested brackets, digits, undefined labels, one long line, blank lines, error after n lines) with n doubling from 250 in a child process: normal exit, output bytes and peak memory proportional (deterministic bounds), CPU growth only ever reported as inconclusive; (d) the print reader behind the real prompt: ~3000 lines (print commands over a lattice of numbers around 2^16, 2^20, 2^31, 2^32, 2^63, 2^64 and beyond in decimal / 0x / 0X / 0b, in every argument position and pair of positions, digit strings up to 20000, token soups of print words, punctuation, numbers, non-ASCII and over-long words) typed in batches of 40 at the prompt of a stepped program in both builds: the emulator survives every line and ends normally at the final 'q'; a failing batch is narrowed to one line. Non-trivial = exactly one mutation (differs from a valid program in one place) or a family member with n >= 1000.");
    ctx.assume("mutated programs given to the CLI have 'start:' renamed so that they cannot start running (a mutated program may legitimately loop forever); unmutated terminating programs are run as they are");
    ctx.assume("exit status 1 with 'Error Reading file' is the documented answer to a file that is not valid UTF-8");
    ctx.set_exhaustive(false);
    let quiet = QuietStdout::new();
    let n = ctx.tier.pick(16_000u32, 600_000u32);
    crate::pt::set_max_shrink_iters(300);
    run_inproc(ctx, "c15", n, tcase_s, eval_text, |c| json!({"text": String::from_utf8_lossy(&mutate(c)).chars().take(400).collect::<String>(), "mutations": c.ops.len()}));
    // every hand-picked fragment unmutated, deterministically
    for s in specials() {
        let c = TCase { base: s, ops: vec![], runnable: true };
        ctx.add_evals(1);
        ctx.class("c15/fragments", 1);
        match eval_text(&c) {
            CaseOutcome::Fail { key, what, replay } => ctx.fail(Failure { key, what: format!("[fragment] {}", what), replay }),
            _ => ctx.add_nontrivial(1),
        }
    }
    drop(quiet);
    ctx.note(&format!("in-process part finished after {:.1}s", ctx.start.elapsed().as_secs_f64()));
    for k in ["c15/non-ascii", "c15/no-final-newline", "c15/no-newline-at-all", "c15/crlf", "c15/unbalanced-quote", "c15/unbalanced-bracket", "c15/unmutated"] {
        ctx.require_class(k, 100);
    }
    if !cli_available() {
        ctx.harness_error("CLI binary not built");
        return;
    }
    let ncli = ctx.tier.pick(1_200usize, 20_000usize);
    run_cases(ctx, "c15-cli", ncli, tcase_s, eval_cli, |c| json!({"cli_text": String::from_utf8_lossy(&cli_bytes(c).0).chars().take(300).collect::<String>()}));
    // valid terminating programs as they are (run to completion by the real driver loop): labels at the very end,
    // explicit hlt before a trailing label, procedures, prints, with and without a final newline
    let nvalid = ctx.tier.pick(500usize, 6_000usize);
    run_cases(
        ctx,
        "c15-cli-valid",
        nvalid,
        || (crate::gen::gencfg_s(16, 3), proptest::collection::vec(any::<u8>(), 16), any::<bool>(), any::<bool>()),
        |(g, ch, nl, pack)| {
            let mut g = g.clone();
            g.with_prints = true;
            g.label_before_proc = false;
            let text = render_program(&crate::gen::build_program(&g), &crate::progs::Layout { choices: ch.clone(), comments: true, trailing_newline: *nl, pack_lines: *pack }).text;
            eval_cli(&TCase { base: text, ops: vec![], runnable: true })
        },
        |(g, ch, nl, pack)| json!({"valid_program": render_program(&crate::gen::build_program(g), &crate::progs::Layout { choices: ch.clone(), comments: true, trailing_newline: *nl, pack_lines: *pack }).text}),
    );
    for s in specials() {
        let c = TCase { base: s, ops: vec![], runnable: true };
        ctx.add_evals(1);
        ctx.class("c15/cli-fragments", 1);
        match eval_cli(&c) {
            CaseOutcome::Fail { key, what, replay } => ctx.fail(Failure { key, what: format!("[fragment] {}", what), replay }),
            CaseOutcome::Inconclusive(w) => ctx.inconclusive(&w),
            _ => {}
        }
    }
    for k in ["c15/cli-invalid-utf8", "c15/cli-no-newline-at-all", "c15/cli-no-final-newline", "c15/cli-syntax-error"] {
        ctx.require_class(k, 10);
    }
    // print statements executed with DS anywhere, on both sides of every bound of the print reader (what they print is
    // C17's subject; here: the emulator ends normally)
    {
        use rayon::prelude::*;
        let mut progs: Vec<String> = Vec::new();
        for ds in [0xFFFFu32, 0xFFF0, 0xF001, 0xF000, 0x8000, 0x1234, 0] {
            let room = (1u32 << 20) - ds * 16;
            let mut t = format!("start: mov ax, {}\nmov ds, ax\n", ds);
            for n in [0u32, 1, 15, 16, 17, 32, 255, 256, room.saturating_sub(2), room.saturating_sub(1), room, room + 1, 65535, 65536, 65537] {
                if n >= (1 << 20) {
                    continue;
                }
                // dumps that fit are only asked for when they are short
                if n < room && n > 600 {
                    continue;
                }
                t.push_str(&format!("print mem :{}\n", n));
            }
            t.push_str("print mem 1048560:15\nprint mem 1048575 -> 1048575\nprint mem 0xFFFF0 -> 0xFFFFF\nprint mem 5 -> 4\nprint reg\nprint flags\n");
            progs.push(t);
        }
        let bins: Vec<&'static str> = if debug_cli_available() { vec![CLI_BIN, CLI_DEBUG_BIN] } else { vec![CLI_BIN] };
        let jobs: Vec<(usize, &'static str)> = (0..progs.len()).flat_map(|i| bins.iter().map(move |b| (i, *b))).collect();
        let outs: Vec<(usize, &'static str, CliOut)> = jobs.par_iter().map(|(i, b)| (*i, *b, run_bin_limited(b, progs[*i].as_bytes(), Stdin::Closed, false, 8 << 20, 60_000, DEFAULT_LIMITS))).collect();
        for (i, b, out) in outs {
            ctx.add_evals(1);
            let which = if b == CLI_BIN { "optimised" } else { "unoptimised" };
            match out.status {
                Status::Timeout | Status::SpawnError(_) => ctx.inconclusive(&format!("print-bounds program: {:?}", out.status)),
                _ if !out.clean() => ctx.fail(Failure {
                    key: format!("c15|cli{}|print-statement-abort", if b == CLI_BIN { "" } else { "-unoptimised" }),
                    what: format!("a program of print statements with DS loaded first ends with {:?} {} in the {} build", out.status, out.err_str().lines().find(|l| l.contains("panicked")).unwrap_or(""), which),
                    replay: json!({"kind":"cli","source":progs[i],"stdin":"","stdin_closed":true,"interpreted":false,"binary":which}),
                }),
                _ if !out.out_str().contains("AX :") => ctx.harness_error(&format!("print-bounds program did not run to its print reg: {:.200}", out.out_str())),
                _ => {
                    ctx.add_nontrivial(1);
                    ctx.class("c15/print-statements-at-their-bounds-end-normally", 1);
                }
            }
        }
    }
    // programs that read the keyboard and write the screen (the C18 generator: every service, buffers of capacity 0 / 1 /
    // 255, at and across the top of memory, lines longer than the buffer, stdin complete / cut / closed): they end
    // normally in the optimised build and in the one cargo makes by default
    let nio = ctx.tier.pick(300usize, 5_000usize);
    run_cases(ctx, "c15-cli-io", nio, crate::c18::case_s, |c| crate::c18::eval_ends_normally(c, CLI_BIN, "c15|cli|io-program-abort"), |c| {
        let b = crate::c18::build(c);
        json!({"source": render_program(&b.prog, &crate::progs::Layout::plain()).text, "stdin": String::from_utf8_lossy(&b.stdin)})
    });
    if debug_cli_available() {
        run_cases(ctx, "c15-cli-io-unoptimised", nio, crate::c18::case_s, |c| crate::c18::eval_ends_normally(c, CLI_DEBUG_BIN, "c15|cli-unoptimised|io-program-abort"), |c| {
            let b = crate::c18::build(c);
            json!({"source": render_program(&b.prog, &crate::progs::Layout::plain()).text, "stdin": String::from_utf8_lossy(&b.stdin), "binary": "unoptimised"})
        });
        let nun = ctx.tier.pick(300usize, 5_000usize);
        run_cases(ctx, "c15-cli-unoptimised", nun, tcase_s, eval_cli_unopt, |c| json!({"cli_text": String::from_utf8_lossy(&cli_bytes(c).0).chars().take(300).collect::<String>(), "binary": "unoptimised"}));
        ctx.require_class("c15/cli-unoptimised", 100);
    } else {
        ctx.note("the unoptimised build of the emulator is not available (./check builds it): programs are run in the optimised build only");
    }
    prompt_family(ctx);
    ctx.note(&format!("CLI part finished after {:.1}s", ctx.start.elapsed().as_secs_f64()));
    run_families(ctx);
    // recursion that only appears through a redefinition or after a successful use: refused, never a stack overflow
    crate::c13::late_recursion_family(ctx, "c15");
    ctx.require_class("c15/late-recursion-refused", 40);
    ctx.note(&format!("families finished after {:.1}s", ctx.start.elapsed().as_secs_f64()));
    if ctx.tier == Tier::Thorough {
        crate::fuzzrun::campaigns(ctx, &["pre", "data", "interp", "print"]);
    }
}


/// The print reader behind the real prompt: "every string given directly to the ... print reader" is also every line a
/// user types at `>>> `.  Batches of prompt lines (print commands over a lattice of numbers around 2^16, 2^20, 2^31,
/// 2^32, 2^63, 2^64 and beyond, in three radices, in every argument position and pair of positions; plus token soups
/// of print words, punctuation, numbers, non-ASCII and very long words) are typed into a stepped program; the
/// emulator must answer each and still obey the final `q`.  A failing batch is narrowed to one line.
pub fn prompt_lines() -> Vec<String> {
    let big: Vec<u128> = vec![
        0, 1, 15, 16, 17, 255, 256, 65535, 65536, 65537, (1 << 20) - 2, (1 << 20) - 1, 1 << 20, (1 << 20) + 1, (1u128 << 31) - 1, 1u128 << 31, (1u128 << 32) - 1, 1u128 << 32, (1u128 << 32) + 1,
        (1u128 << 63) - 1, 1u128 << 63, (1u128 << 63) + 1, (1u128 << 64) - 16, (1u128 << 64) - 2, (1u128 << 64) - 1, 1u128 << 64, (1u128 << 64) + 1, 1u128 << 100,
    ];
    let render = |v: u128, r: usize| match r % 5 {
        0 | 1 => format!("{}", v),
        2 => format!("0x{:x}", v),
        3 => format!("0X{:X}", v),
        _ => format!("0b{:b}", v),
    };
    let small_ok = |a: u128, b: u128| !(a < (1 << 20) && b < (1 << 20) && b > a && b - a > 2048);
    let mut out: Vec<String> = Vec::new();
    let mut k = 0usize;
    for &a in &big {
        for r in 0..5 {
            if a < (1 << 20) && a > 2048 {
                // a dump of that length is C17's subject
            } else {
                out.push(format!("print mem :{}", render(a, r)));
            }
        }
        for &b in &big {
            k += 1;
            if small_ok(a, b) {
                out.push(format!("print mem {} -> {}", render(a, k), render(b, k / 5)));
            }
            if small_ok(a, a + b) {
                out.push(format!("print mem {} : {}", render(a, k / 3), render(b, k)));
                out.push(format!("PRINT MEM {}:{}", render(a, k / 7), render(b, k / 2)));
            }
        }
    }
    for d in [19usize, 20, 21, 39, 40, 100, 1000, 20000] {
        let n = "9".repeat(d);
        out.push(format!("print mem {} -> {}", n, n));
        out.push(format!("print mem 0 : {}", n));
        out.push(format!("print mem : {}", n));
        out.push(format!("print mem 0x{} : 1", "f".repeat(d)));
        out.push(format!("print mem 0b{} -> 1", "1".repeat(d)));
    }
    // token soups
    let words = ["print", "PRINT", "mem", "MEM", "reg", "flags", "->", ":", "-", ">", "0", "1", "16", "0x", "0b", "0x10", "0b101", "1048575", "1048576", "n", "next", "q1", "x", "\u{e9}", "\u{2713}", "\t", "  ", "\"", "[", "]", ",", ";", "-1", "+1", "1e5", "0.5", "18446744073709551615", "18446744073709551616"];
    let mut x: u64 = 0x9E3779B97F4A7C15;
    for _ in 0..600 {
        let mut l = String::new();
        x ^= x << 13; x ^= x >> 7; x ^= x << 17;
        let n = 1 + (x % 6) as usize;
        for j in 0..n {
            x ^= x << 13; x ^= x >> 7; x ^= x << 17;
            if j > 0 && x % 5 != 0 {
                l.push(' ');
            }
            l.push_str(words[(x >> 8) as usize % words.len()]);
        }
        let t = l.trim();
        // lines that are commands of the prompt itself would end or advance the run
        if matches!(t.to_ascii_lowercase().as_str(), "q" | "quit" | "n" | "next" | "") {
            continue;
        }
        out.push(l);
    }
    out.push(format!("print {}", "x".repeat(70000)));
    out.push("\u{feff}print reg".to_string());
    out
}

const PROMPT_PROG: &str = "vals: db [7,4]\nstart: mov ax, 0x1234\nmov ds, ax\nmov bx, 2\nmov cx, 3\n";

fn prompt_batch(bin: &'static str, lines: &[String]) -> CliOut {
    let mut stdin = String::new();
    for l in lines {
        stdin.push_str(l);
        stdin.push('\n');
    }
    stdin.push_str("q\n");
    run_bin_limited(bin, PROMPT_PROG.as_bytes(), Stdin::Data(stdin.as_bytes()), true, 32 << 20, 60_000, DEFAULT_LIMITS)
}

fn prompt_family(ctx: &Ctx) {
    use rayon::prelude::*;
    let lines = prompt_lines();
    ctx.extra("prompt_lines", json!({"count": lines.len(), "samples": lines.iter().step_by(lines.len() / 12 + 1).map(|l| l.chars().take(80).collect::<String>()).collect::<Vec<_>>()}));
    let bins: Vec<&'static str> = if debug_cli_available() { vec![CLI_BIN, CLI_DEBUG_BIN] } else { vec![CLI_BIN] };
    let batches: Vec<&[String]> = lines.chunks(40).collect();
    let jobs: Vec<(usize, &'static str)> = (0..batches.len()).flat_map(|i| bins.iter().map(move |b| (i, *b))).collect();
    let outs: Vec<(usize, &'static str, CliOut)> = jobs.par_iter().map(|(i, b)| (*i, *b, prompt_batch(b, batches[*i]))).collect();
    let mut reported = 0;
    for (i, b, out) in outs {
        ctx.add_evals(batches[i].len() as u64);
        let which = if b == CLI_BIN { "optimised" } else { "unoptimised" };
        match out.status {
            Status::Timeout | Status::SpawnError(_) => ctx.inconclusive(&format!("prompt batch {}: {:?}", i, out.status)),
            _ if out.clean() => {
                ctx.add_nontrivial(batches[i].len() as u64);
                ctx.class("c15/prompt-lines-answered-and-quit-obeyed", batches[i].len() as u64);
            }
            _ => {
                if reported >= 3 {
                    continue;
                }
                reported += 1;
                // narrow to the first single line that does it alone
                let mut culprit: Option<(String, CliOut)> = None;
                for l in batches[i] {
                    let o = prompt_batch(b, std::slice::from_ref(l));
                    if !o.clean() && !matches!(o.status, Status::Timeout | Status::SpawnError(_)) {
                        culprit = Some((l.clone(), o));
                        break;
                    }
                }
                let (stdin, o) = match culprit {
                    Some((l, o)) => (format!("{}\nq\n", l), o),
                    None => (batches[i].iter().map(|l| format!("{}\n", l)).collect::<String>() + "q\n", out),
                };
                ctx.fail(Failure {
                    key: format!("c15|cli{}|prompt-line-abort", if b == CLI_BIN { "" } else { "-unoptimised" }),
                    what: format!("typed at the prompt of the {} build, {:?} ends the emulator with {:?} {} (expected: an answer or a refusal, and a normal end at 'q')", which, stdin.chars().take(120).collect::<String>(), o.status, o.err_str().lines().find(|l| l.contains("panicked")).unwrap_or("")),
                    replay: json!({"kind":"cli","source":PROMPT_PROG,"stdin":stdin,"interpreted":true,"binary":which}),
                });
            }
        }
    }
    ctx.require_class("c15/prompt-lines-answered-and-quit-obeyed", 1000);
}

pub fn replay(v: &Value) -> Result<String, String> {
    match v["kind"].as_str().unwrap_or("") {
        "c15" => {
            let text = v["text"].as_str().ok_or("no text")?;
            let _q = QuietStdout::new();
            let ps = probe_all(text, true);
            drop(_q);
            if ps.is_empty() {
                Ok(format!("{:?}: all four parsers returned a result or a diagnostic", text))
            } else {
                Err(format!("{:?}: {:?}", text, ps))
            }
        }
        "c15-family" => {
            let fam = v["family"].as_str().unwrap_or("");
            let n = v["n"].as_u64().unwrap_or(0) as usize;
            let (out, ru) = run_cli_rusage(family(fam, n).as_bytes(), 64 << 20, 300_000);
            let rep = format!("family {} n={}: status {:?}, {} bytes of output, peak {} KiB, cpu {:.2}s, stderr {:?}", fam, n, out.status, out.stdout.len(), ru.maxrss_kb, ru.cpu_s, out.err_str().lines().last());
            if out.clean() {
                Ok(rep)
            } else {
                Err(rep)
            }
        }
        _ => {
            let hex = v["bytes_hex"].as_str().ok_or("no bytes")?;
            let bytes: Vec<u8> = (0..hex.len() / 2).map(|i| u8::from_str_radix(&hex[2 * i..2 * i + 2], 16).unwrap_or(0)).collect();
            let bin = if v.get("binary").and_then(|x| x.as_str()) == Some("unoptimised") { CLI_DEBUG_BIN } else { CLI_BIN };
            if !std::path::Path::new(bin).exists() {
                return Err(format!("{} is not built (run ./check setup)", bin));
            }
            let out = run_bin_limited(bin, &bytes, Stdin::Closed, false, 8 << 20, 90_000, DEFAULT_LIMITS);
            let rep = format!("file ({} bytes): {:?}\nstatus {:?}\nstdout: {}\nstderr: {}", bytes.len(), String::from_utf8_lossy(&bytes), out.status, out.out_str().chars().take(400).collect::<String>(), out.err_str());
            let ok = match out.status {
                Status::Exit(c) => own_exit(c) && !out.panicked(),
                _ => false,
            };
            if ok {
                Ok(rep)
            } else {
                Err(rep)
            }
        }
    }
}
