//! proptest glue: deterministic runners driven from a binary, stratified value strategies.
#![allow(dead_code)]
use crate::refmodel::lattice16;
use proptest::prelude::*;
use proptest::strategy::{Strategy, ValueTree};
use proptest::test_runner::{Config, RngAlgorithm, TestCaseError, TestError, TestRng, TestRunner};
use std::cell::Cell;

static MAX_SHRINK: std::sync::atomic::AtomicU32 = std::sync::atomic::AtomicU32::new(4096);
/// checks whose single evaluation is expensive bound the shrinking work
pub fn set_max_shrink_iters(n: u32) {
    MAX_SHRINK.store(n, std::sync::atomic::Ordering::Relaxed);
}

pub fn config(cases: u32) -> Config {
    let mut c = Config::default();
    c.cases = cases;
    c.failure_persistence = None;
    c.max_shrink_iters = MAX_SHRINK.load(std::sync::atomic::Ordering::Relaxed);
    c.max_global_rejects = 1_000_000;
    c.source_file = None;
    c.verbose = 0;
    c
}

pub fn runner(seed: u64, cases: u32) -> TestRunner {
    let mut bytes = [0u8; 32];
    let mut x = seed;
    for i in 0..4 {
        x = crate::common::splitmix(x);
        bytes[i * 8..i * 8 + 8].copy_from_slice(&x.to_le_bytes());
    }
    TestRunner::new_with_rng(config(cases), TestRng::from_seed(RngAlgorithm::ChaCha, &bytes))
}

/// Run `cases` generated cases; on failure return the shrunk value and the reason.
/// `test` returns Ok(()) for pass, Err(reason) for fail.  The `first_pass` flag lets the
/// closure know whether statistics should still be counted (false once shrinking started).
pub fn run<S, F>(seed: u64, cases: u32, strat: &S, test: F) -> Option<(S::Value, String)>
where
    S: Strategy,
    S::Value: Clone + std::fmt::Debug,
    F: Fn(&S::Value, bool) -> Result<(), String>,
{
    let mut r = runner(seed, cases);
    let failed = Cell::new(false);
    let res = r.run(strat, |v| {
        let counting = !failed.get();
        match test(&v, counting) {
            Ok(()) => Ok(()),
            Err(e) => {
                failed.set(true);
                Err(TestCaseError::fail(e))
            }
        }
    });
    match res {
        Ok(()) => None,
        Err(TestError::Fail(reason, v)) => Some((v, reason.message().to_string())),
        Err(TestError::Abort(reason)) => {
            panic!("proptest aborted: {}", reason.message());
        }
    }
}

/// Generate `n` values (no shrinking) -- used for CLI batches that are evaluated in
/// parallel child processes before a failing one is handed to `shrink_with`.
pub fn generate<S: Strategy>(seed: u64, n: usize, strat: &S) -> Vec<S::Value> {
    let mut r = runner(seed, n as u32);
    let mut v = Vec::with_capacity(n);
    for _ in 0..n {
        let t = strat.new_tree(&mut r).expect("strategy failed");
        v.push(t.current());
    }
    v
}

/// Re-generate the i-th value tree of a `generate` sequence and shrink it with `test`
/// (Err = still failing).  Returns the minimal failing value.
pub fn shrink_nth<S, F>(seed: u64, idx: usize, strat: &S, test: F, max_iters: usize) -> S::Value
where
    S: Strategy,
    F: Fn(&S::Value) -> bool, // true = fails
{
    let mut r = runner(seed, (idx + 1) as u32);
    let mut tree = None;
    for _ in 0..=idx {
        tree = Some(strat.new_tree(&mut r).expect("strategy failed"));
    }
    let mut tree = tree.unwrap();
    let mut best = tree.current();
    let mut iters = 0;
    // standard proptest shrink loop
    loop {
        if iters >= max_iters {
            break;
        }
        if !tree.simplify() {
            break;
        }
        loop {
            iters += 1;
            let cur = tree.current();
            if test(&cur) {
                best = cur;
                break; // keep simplifying
            } else {
                if !tree.complicate() {
                    return best;
                }
                if iters >= max_iters {
                    return best;
                }
            }
        }
    }
    best
}

/// stratified 16-bit value: boundary lattice, neighbours of boundaries, uniform
pub fn u16s() -> BoxedStrategy<u16> {
    let lat = lattice16();
    let lat2 = lat.clone();
    prop_oneof![
        3 => proptest::sample::select(lat),
        2 => (proptest::sample::select(lat2), -3i32..=3).prop_map(|(b, d)| (b as i32 + d) as u16),
        5 => any::<u16>(),
    ]
    .boxed()
}

pub fn u8s() -> BoxedStrategy<u8> {
    prop_oneof![
        3 => proptest::sample::select(vec![0u8, 1, 2, 7, 8, 9, 0xF, 0x10, 0x7F, 0x80, 0x81, 0x99, 0x9A, 0xA0, 0xFE, 0xFF]),
        5 => any::<u8>(),
    ]
    .boxed()
}

/// flag word: arbitrary 16 bits, with the extremes over-represented
pub fn flagword() -> BoxedStrategy<u16> {
    prop_oneof![
        1 => Just(0u16),
        1 => Just(0xFFFFu16),
        1 => Just(0xF000u16),
        1 => Just(0xF002u16),
        6 => any::<u16>(),
    ]
    .boxed()
}

/// monotone index mapping (shrinks towards 0 without stalling)
#[inline]
pub fn idx(i: u16, len: usize) -> usize {
    if len == 0 {
        0
    } else {
        ((i as usize) * len) >> 16
    }
}
