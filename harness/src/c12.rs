//! C12 -- data definitions are laid out exactly and labels resolve to their first byte.
use crate::asm::*;
use crate::cli::*;
use crate::clicheck::*;
use crate::common::*;
use crate::emu::*;
use crate::pipeline::*;
use crate::progs::*;
use crate::pt;
use crate::refmodel::Quirks;
use emulator_8086_lib::{LabelType, VM};
use proptest::prelude::*;
use serde_json::{json, Value};

#[derive(Clone, Debug)]
pub struct DCase {
    pub data: Vec<DataDecl>,
    pub choices: Vec<u8>,
}

// ------------------------------------------------------------------ reference

#[derive(Clone, Debug)]
pub struct LabelRef {
    pub name: String,
    pub seg: u16,
    /// offset of the first byte of the definition in its segment (may be 65536 = not representable)
    pub off: u32,
}

pub struct Layout12 {
    pub labels: Vec<LabelRef>,
    /// largest total of one segment's definitions
    pub max_total: u32,
    /// a string literal longer than the documented single-string limit is present
    pub string_over_limit: bool,
    /// (seg, first offset, size) of every item
    pub items: Vec<(u16, u32, u32)>,
}

pub fn layout(data: &[DataDecl]) -> Layout12 {
    let mut l = Layout12 { labels: vec![], max_total: 0, string_over_limit: false, items: vec![] };
    let mut seg = 0u16;
    let mut ctr = 0u32;
    for d in data {
        match d {
            DataDecl::Set(s) => {
                seg = *s;
                ctr = 0;
            }
            DataDecl::Item { label, word, kind } => {
                if let Some(n) = label {
                    l.labels.push(LabelRef { name: n.clone(), seg, off: ctr });
                }
                if let DataKind::Str(s) = kind {
                    // syntax limit of the assembler (documented in its diagnostic): db 65525, dw 32757 including quotes
                    let lim = if *word { 32757 } else { 65525 };
                    if s.len() + 2 > lim {
                        l.string_over_limit = true;
                    }
                }
                l.items.push((seg, ctr, d.size()));
                ctr += d.size();
                l.max_total = l.max_total.max(ctr);
            }
        }
    }
    l
}

fn render_decl(d: &DataDecl, ch: &mut Choices, labels: &[(String, u16)]) -> String {
    let k = |s: &str, ch: &mut Choices| if ch.next() & 1 == 1 { s.to_uppercase() } else { s.to_string() };
    match d {
        DataDecl::Set(n) => format!("{} {}", k("set", ch), render_imm(*n, ImmKind::UW, ch, labels)),
        DataDecl::Item { label, word, kind } => {
            let mut s = String::new();
            if let Some(l) = label {
                s.push_str(l);
                s.push_str(match ch.next() % 4 {
                    0 => ":",
                    1 => ":\n",
                    2 => ":\t",
                    _ => ": ",
                });
            }
            s.push_str(&k(if *word { "dw" } else { "db" }, ch));
            s.push(' ');
            let ik = if *word { ImmKind::SW } else { ImmKind::SB };
            match kind {
                DataKind::Val(v) => s.push_str(&render_imm(*v, ik, ch, labels)),
                DataKind::Zeros(n) => s.push_str(&format!("[{}]", render_imm(*n, ImmKind::UW, ch, labels))),
                DataKind::Fill(v, n) => {
                    let sp = if ch.next() & 1 == 1 { " , " } else { "," };
                    s.push_str(&format!("[{}{}{}]", render_imm(*v, ik, ch, labels), sp, render_imm(*n, ImmKind::UW, ch, labels)))
                }
                DataKind::Str(st) => s.push_str(&format!("\"{}\"", st)),
            }
            s
        }
    }
}

/// the data section plus a code part using every label (at most `max_labels`) as byte/word
/// operand and through OFFSET; returns (source, labels used in the code part)
pub fn render_case(c: &DCase, max_labels: usize) -> (String, Vec<LabelRef>) {
    let mut ch = Choices::new(c.choices.clone());
    let lay = layout(&c.data);
    let mut src = String::new();
    let mut sofar: Vec<(String, u16)> = Vec::new();
    let mut li = 0usize;
    for d in &c.data {
        src.push_str(&render_decl(d, &mut ch, &sofar));
        src.push('\n');
        if let DataDecl::Item { label: Some(_), .. } = d {
            let l = &lay.labels[li];
            li += 1;
            if l.off < 65536 {
                sofar.push((l.name.clone(), l.off as u16));
            }
        }
    }
    src.push_str("start:\n");
    let used: Vec<LabelRef> = lay.labels.iter().filter(|l| l.off < 65536).take(max_labels).cloned().collect();
    for l in &used {
        src.push_str(&format!("mov al, byte {}\nMOV AX, WORD {}\nmov bx, offset {}\nmov byte [OFFSET {}], al\n", l.name, l.name, l.name, l.name));
    }
    (src, used)
}

pub fn decl_to_json(d: &DataDecl) -> Value {
    match d {
        DataDecl::Set(s) => json!({"set": s}),
        DataDecl::Item { label, word, kind } => {
            let (k, a, b, s): (&str, u16, u16, String) = match kind {
                DataKind::Val(v) => ("val", *v, 0, String::new()),
                DataKind::Zeros(n) => ("zeros", 0, *n, String::new()),
                DataKind::Fill(v, n) => ("fill", *v, *n, String::new()),
                DataKind::Str(s) => ("str", 0, 0, s.clone()),
            };
            if k == "str" && s.len() > 64 {
                json!({"label": label, "word": word, "kind": "str-repeat", "ch": &s[..1], "n": s.len()})
            } else {
                json!({"label": label, "word": word, "kind": k, "v": a, "n": b, "s": s})
            }
        }
    }
}

pub fn decl_from_json(v: &Value) -> DataDecl {
    if let Some(s) = v.get("set") {
        return DataDecl::Set(s.as_u64().unwrap_or(0) as u16);
    }
    let label = v["label"].as_str().map(|s| s.to_string());
    let word = v["word"].as_bool().unwrap_or(false);
    let a = v["v"].as_u64().unwrap_or(0) as u16;
    let n = v["n"].as_u64().unwrap_or(0);
    let kind = match v["kind"].as_str().unwrap_or("") {
        "val" => DataKind::Val(a),
        "zeros" => DataKind::Zeros(n as u16),
        "fill" => DataKind::Fill(a, n as u16),
        "str-repeat" => DataKind::Str(v["ch"].as_str().unwrap_or("x").repeat(n as usize)),
        _ => DataKind::Str(v["s"].as_str().unwrap_or("").to_string()),
    };
    DataDecl::Item { label, word, kind }
}

// ------------------------------------------------------------------ generator

const LABEL_NAMES: [&str; 12] = ["d_0", "d_1", "v", "vv", "_x", "Buf", "BUF", "buf2", "tbl_9", "S", "msg", "Start"];

fn len_s() -> BoxedStrategy<u16> {
    prop_oneof![
        10 => proptest::sample::select(vec![0u16, 1, 2, 3, 7, 16]),
        6 => 0u16..64,
        3 => proptest::sample::select(vec![255u16, 256, 257, 4095, 4096]),
        1 => proptest::sample::select(vec![32757u16, 32767, 32768, 65525, 65534, 65535]),
        1 => any::<u16>(),
    ]
    .boxed()
}

fn str_s() -> BoxedStrategy<String> {
    prop_oneof![
        8 => "[ -~]{0,24}",
        // no ';' here either: the same sources go through the CLI, which strips comments first
        3 => ("[a-zA-Z0-9 !#-:<-~\"]", proptest::sample::select(vec![255usize, 256, 4095, 32755, 32756, 65523, 65524])).prop_map(|(c, n)| c.repeat(n)),
    ]
    .prop_map(|s: String| s.replace(';', ":"))
    .boxed()
}

fn seg_s() -> BoxedStrategy<u16> {
    prop_oneof![
        4 => proptest::sample::select(vec![0u16, 1, 2, 0x10, 0x1000, 0xF000, 0xFFF0, 0xFFFE, 0xFFFF]),
        1 => any::<u16>(),
    ]
    .boxed()
}

fn decl_s() -> BoxedStrategy<(Option<u8>, DataDecl)> {
    let kind = prop_oneof![
        4 => pt::u16s().prop_map(DataKind::Val),
        2 => len_s().prop_map(DataKind::Zeros),
        3 => (pt::u16s(), len_s()).prop_map(|(v, n)| DataKind::Fill(v, n)),
        3 => str_s().prop_map(DataKind::Str),
    ];
    prop_oneof![
        1 => seg_s().prop_map(|s| (None, DataDecl::Set(s))),
        6 => (proptest::option::weighted(0.6, 0u8..12), any::<bool>(), kind).prop_map(|(l, word, kind)| {
            let kind = match kind {
                DataKind::Val(v) if !word => DataKind::Val(v & 0xFF),
                DataKind::Fill(v, n) if !word => DataKind::Fill(v & 0xFF, n),
                k => k,
            };
            (l, DataDecl::Item { label: None, word, kind })
        }),
    ]
    .boxed()
}

/// mode 0: free; mode 1..: the last segment's total is steered onto 65536 + delta by a final
/// zero array, followed (optionally) by one more labelled byte
pub fn case_s() -> BoxedStrategy<DCase> {
    (
        proptest::collection::vec(decl_s(), 0..40),
        prop_oneof![5 => Just(None), 2 => proptest::sample::select(vec![-3i32, -2, -1, 0, 1, 2, 3]).prop_map(Some)],
        any::<bool>(),
        proptest::collection::vec(any::<u8>(), 32),
        prop_oneof![7 => Just(true), 3 => Just(false)],
        // one case in six: a definition (whatever kind comes next) laid across the end of the 1 MiB space
        proptest::option::weighted(0.17, (proptest::sample::select(vec![(0xFFFFu16, 16u16), (0xFFFE, 32), (0xFFF0, 256), (0xF001, 65520)]), 0u16..12, any::<u16>())),
    )
        .prop_map(|(decls, steer, tail_label, choices, small, wrap)| {
            let mut used = std::collections::HashSet::new();
            let mut data: Vec<DataDecl> = Vec::new();
            for (l, d) in decls {
                match d {
                    DataDecl::Item { word, kind, .. } => {
                        // most cases stay well below 64 KiB per segment; the rest use the big lengths
                        let kind = if small {
                            match kind {
                                DataKind::Zeros(n) if n > 300 => DataKind::Zeros(n % 300),
                                DataKind::Fill(v, n) if n > 300 => DataKind::Fill(v, n % 300),
                                DataKind::Str(s) if s.len() > 300 => DataKind::Str(s[..s.len() % 300].to_string()),
                                k => k,
                            }
                        } else {
                            kind
                        };
                        let label = l.and_then(|i| {
                            let n = LABEL_NAMES[i as usize % LABEL_NAMES.len()].to_string();
                            if used.insert(n.clone()) {
                                Some(n)
                            } else {
                                None
                            }
                        });
                        data.push(DataDecl::Item { label, word, kind });
                    }
                    s => data.push(s),
                }
            }
            if let Some(((seg, room), back, at)) = wrap {
                // SET seg, then zeros up to `back` bytes before the top: the following item straddles FFFFFh -> 0
                let pos = crate::pt::idx(at, data.len() + 1);
                data.insert(pos, DataDecl::Item { label: None, word: false, kind: DataKind::Zeros(room - back.min(room)) });
                data.insert(pos, DataDecl::Set(seg));
                // make sure something of size follows
                if pos + 2 >= data.len() {
                    data.push(DataDecl::Item { label: Some("over_top".into()), word: at & 1 == 1, kind: if at & 2 == 0 { DataKind::Str("across the top!".into()) } else { DataKind::Fill(0x5AA5, 9) } });
                }
            }
            if let Some(delta) = steer {
                let cur = {
                    let mut ctr = 0u32;
                    for d in &data {
                        match d {
                            DataDecl::Set(_) => ctr = 0,
                            i => ctr += i.size(),
                        }
                    }
                    ctr
                };
                let target = (65536i32 + delta) as u32;
                if cur <= target {
                    let mut need = target - cur;
                    while need > 0 {
                        let n = need.min(65535);
                        data.push(DataDecl::Item { label: None, word: false, kind: DataKind::Zeros(n as u16) });
                        need -= n;
                    }
                    if tail_label && used.insert("tail".to_string()) {
                        data.push(DataDecl::Item { label: Some("tail".into()), word: false, kind: DataKind::Val(0x5A) });
                    }
                }
            }
            DCase { data, choices }
        })
        .boxed()
}

// ------------------------------------------------------------------ evaluation (L2)

fn fail(key: &str, what: String, c: &DCase) -> CaseOutcome {
    CaseOutcome::Fail { key: key.to_string(), what, replay: case_json(c) }
}

pub fn case_json(c: &DCase) -> Value {
    json!({"kind":"c12","decls": c.data.iter().map(decl_to_json).collect::<Vec<_>>(), "choices": c.choices})
}

thread_local! {
    static VMS: std::cell::RefCell<VM> = std::cell::RefCell::new(VM::new());
}

pub fn eval(c: &DCase) -> CaseOutcome {
    let lay = layout(&c.data);
    let (src, used) = render_case(c, 6);
    let short = |s: &str| s.chars().take(160).collect::<String>();
    let must_reject = lay.max_total > 65536;
    let may_reject = lay.max_total == 65536 || lay.string_over_limit;
    let asm = match assemble(&src) {
        Err(e) if e.starts_with("PANIC") => {
            return fail(&format!("c12|assembler-panic|{}", panic_class(&e).chars().take(60).collect::<String>()), format!("assembler aborted on a data section with a segment total of {} bytes: {}", lay.max_total, short(&e)), c)
        }
        Err(e) => {
            if must_reject || may_reject {
                if e.trim().is_empty() {
                    return fail("c12|empty-diagnostic", "rejected with an empty diagnostic".into(), c);
                }
                let cls = if must_reject { "c12/over-64k-diagnosed" } else { "c12/boundary-rejected" };
                return CaseOutcome::Pass { nontrivial: true, classes: vec![cls.to_string()], digest: fnv_str(&src) };
            }
            return fail("c12|valid-data-rejected", format!("data section with segment totals <= 65535 bytes rejected: {}", short(&e)), c);
        }
        Ok(a) => a,
    };
    if must_reject {
        return fail(
            "c12|over-64k-accepted",
            format!("one segment's definitions total {} bytes (> 65536) but the assembler accepted the program (labels: {:?})", lay.max_total, lay.labels.iter().map(|l| (l.name.as_str(), l.off)).take(6).collect::<Vec<_>>()),
            c,
        );
    }
    // labels
    for l in &lay.labels {
        if l.off >= 65536 {
            continue;
        }
        match asm.ictx.label_map.get(&l.name) {
            Some(x) if matches!(x.get_type(), LabelType::DATA) => {
                if x.map != l.off as usize {
                    return fail("c12|label-offset", format!("label {} resolves to offset {} but its definition starts at offset {} of segment {:04X}h", l.name, x.map, l.off, l.seg), c);
                }
            }
            _ => return fail("c12|label-missing", format!("data label {} is not in the label map as a data label", l.name), c),
        }
    }
    // image
    let image = data_image(&c.data);
    VMS.with(|vmc| {
        let mut vm = vmc.borrow_mut();
        let vm: &mut VM = &mut vm;
        for b in vm.mem.iter_mut() {
            *b = 0;
        }
        let mut r0 = Regs::default();
        r0.r[FLAGS] = 0xF000;
        r0.r[CS] = 0xFFFF;
        load(vm, &r0);
        if let Err(e) = load_data(vm, &asm.data) {
            let k = if e.starts_with("PANIC") { "c12|loader-panic" } else { "c12|loader-rejects" };
            return fail(k, format!("data loader failed on the emitted data lines: {}", short(&e)), c);
        }
        if vm.mem[..] != image[..] {
            let a = (0..MB).find(|i| vm.mem[*i] != image[*i]).unwrap();
            let n = (0..MB).filter(|i| vm.mem[*i] != image[*i]).count();
            return fail("c12|image", format!("memory image differs from the reference at {} byte(s); first at {:05X}h: expected {:02X} observed {:02X}", n, a, image[a], vm.mem[a]), c);
        }
        // label operands and OFFSET: 4 emitted lines per used label
        if asm.code.len() != used.len() * 4 {
            return fail("c12|code-lines", format!("{} code lines emitted for {} expected", asm.code.len(), used.len() * 4), c);
        }
        let mut ictx = asm.ictx;
        let code = asm.code;
        let mut img = image;
        for (k, l) in used.iter().enumerate() {
            vm.arch.ds = l.seg;
            let a0 = (l.seg as usize * 16 + l.off as usize) % MB;
            let a1 = (l.seg as usize * 16 + ((l.off as usize + 1) & 0xFFFF)) % MB;
            let a1b = (a0 + 1) % MB;
            vm.arch.ax = 0xA55A;
            vm.arch.bx = 0x1234;
            for j in 0..4 {
                match step(vm, &mut ictx, k * 4 + j, &code[k * 4 + j]) {
                    StepOut::State(St::Next) => {}
                    o => return fail("c12|label-operand-step", format!("'{}' did not execute normally: {:?}", code[k * 4 + j], o), c),
                }
                match j {
                    0 => {
                        if vm.arch.ax & 0xFF != img[a0] as u16 {
                            return fail("c12|label-load", format!("mov al, byte {} with DS={:04X}h loaded {:02X}, the first byte of its definition is {:02X} (offset {})", l.name, l.seg, vm.arch.ax & 0xFF, img[a0], l.off), c);
                        }
                    }
                    1 => {
                        let w1 = img[a0] as u16 | (img[a1] as u16) << 8;
                        let w2 = img[a0] as u16 | (img[a1b] as u16) << 8;
                        if vm.arch.ax != w1 && vm.arch.ax != w2 {
                            return fail("c12|label-load", format!("mov ax, word {} with DS={:04X}h loaded {:04X}, the definition starts with {:04X} (offset {})", l.name, l.seg, vm.arch.ax, w1, l.off), c);
                        }
                    }
                    2 => {
                        if vm.arch.bx as u32 != l.off {
                            return fail("c12|offset-value", format!("mov bx, offset {} loaded {} but the definition starts at offset {}", l.name, vm.arch.bx, l.off), c);
                        }
                    }
                    _ => {
                        // mov byte [OFFSET l], al : AL holds the low byte loaded by the word move = img[a0]; memory unchanged
                        img[a0] = (vm.arch.ax & 0xFF) as u8;
                        if vm.mem[a0] != img[a0] {
                            return fail("c12|offset-store", format!("mov byte [offset {}], al did not store at the first byte of the definition", l.name), c);
                        }
                    }
                }
            }
        }
        if vm.mem[..] != img[..] {
            return fail("c12|label-operand-side-effect", "memory changed while label operands were exercised".into(), c);
        }
        // classes
        let mut classes: Vec<String> = Vec::new();
        let mut kinds = std::collections::BTreeSet::new();
        let mut set_after_data = false;
        let mut seen_item = false;
        for d in &c.data {
            match d {
                DataDecl::Set(_) => {
                    if seen_item {
                        set_after_data = true;
                    }
                }
                DataDecl::Item { word, kind, .. } => {
                    seen_item = true;
                    let k = match kind {
                        DataKind::Val(_) => "val",
                        DataKind::Zeros(_) => "zeros",
                        DataKind::Fill(..) => "fill",
                        DataKind::Str(_) => "str",
                    };
                    kinds.insert(format!("c12/{}-{}", if *word { "dw" } else { "db" }, k));
                }
            }
        }
        let nitems = lay.items.len();
        classes.extend(kinds.iter().cloned());
        if set_after_data {
            classes.push("c12/set-after-data".into());
        }
        let near = lay.max_total + 2 >= 65536;
        if near {
            classes.push("c12/total-within-2-of-64k-accepted".into());
        }
        if lay.items.iter().any(|(s, o, n)| *s as u32 * 16 + o + n > MB as u32) {
            classes.push("c12/crosses-1MiB".into());
        }
        if lay.labels.iter().any(|l| l.off > 0) {
            classes.push("c12/label-not-at-0".into());
        }
        let nt = (nitems >= 3 && kinds.len() >= 2 && lay.labels.iter().any(|l| l.off > 0)) || set_after_data || near;
        CaseOutcome::Pass { nontrivial: nt, classes, digest: fnv_str(&src) }
    })
}

// ------------------------------------------------------------------ L3

/// a program that prints DS, the memory around every item and loads through labels
fn cli_program(c: &DCase) -> Program {
    let lay = layout(&c.data);
    let mut code: Vec<Item> = vec![Item::Label("start".into()), Item::Print(PrintStmt::Reg)];
    for (seg, off, n) in lay.items.iter().take(10) {
        if *n == 0 {
            continue;
        }
        let a = (*seg as u32 * 16 + off) % MB as u32;
        let b = (a + (*n).min(40) - 1).min(MB as u32 - 1);
        code.push(Item::Print(PrintStmt::MemRange(a.saturating_sub(2), b.saturating_add(2).min(MB as u32 - 1))));
    }
    for l in lay.labels.iter().filter(|l| l.off < 65535).take(5) {
        code.push(Item::Ins(Insn::new("mov", vec![Opd::R16(R16::DX), Opd::Imm(l.seg, ImmKind::SW)])));
        code.push(Item::Ins(Insn::new("mov", vec![Opd::Sr(Seg::DS), Opd::R16(R16::DX)])));
        code.push(Item::Ins(Insn::new("mov", vec![Opd::R8(R8::AL), Opd::Lab(W::B, l.name.clone())])));
        code.push(Item::Ins(Insn::new("mov", vec![Opd::R16(R16::CX), Opd::Lab(W::W, l.name.clone())])));
        code.push(Item::Ins(Insn::new("mov", vec![Opd::R16(R16::BX), Opd::Imm(l.off as u16, ImmKind::UW)])));
        code.push(Item::Print(PrintStmt::Reg));
    }
    Program { data: c.data.clone(), code }
}

fn eval_cli(c: &DCase) -> CaseOutcome {
    let lay = layout(&c.data);
    if lay.max_total >= 65536 || lay.string_over_limit {
        // the diagnosed side is decided in-process and by the family below
        return CaseOutcome::Pass { nontrivial: false, classes: vec!["c12/cli-skipped-over-64k".into()], digest: 0 };
    }
    let prog = cli_program(c);
    // data section rendered by this check's renderer (radix/OFFSET spellings), code by the shared one
    let mut ch = Choices::new(c.choices.clone());
    let mut text = String::new();
    let mut sofar: Vec<(String, u16)> = Vec::new();
    let mut li = 0;
    // one program in three has ';' comments behind its data definitions (quotes, brackets and arrows inside them): the
    // image is the one of the comment-free program
    let commented = c.choices.get(2).map(|x| x % 3 == 0).unwrap_or(false);
    const DATA_COMMENTS: [&str; 8] = ["; plain", "; two characters, shown as \"name\"", "; 5\" floppy", ";\"", "; say \"hi\" and \"bye\" ; more", "; it's [ 1 , 2 ]", "; db \"a;b\"", ";;"];
    for (dk, d) in c.data.iter().enumerate() {
        text.push_str(&render_decl(d, &mut ch, &sofar));
        if commented && (dk + c.choices.get(3).cloned().unwrap_or(0) as usize) % 2 == 0 {
            text.push(' ');
            text.push_str(DATA_COMMENTS[(dk + c.choices.get(4).cloned().unwrap_or(0) as usize) % DATA_COMMENTS.len()]);
        }
        text.push('\n');
        if let DataDecl::Item { label: Some(_), .. } = d {
            let l = &lay.labels[li];
            li += 1;
            sofar.push((l.name.clone(), l.off as u16));
        }
    }
    let full = render_program(&prog, &crate::progs::Layout { choices: c.choices.clone(), comments: false, trailing_newline: true, pack_lines: false });
    let rendered_code = full.text[full.code_start..].to_string();
    text.push_str(&rendered_code);
    let flat = flatten(&prog);
    let lines = vec![0usize; flat.ops.len()];
    let image = data_image(&c.data);
    let cfg = RunCfg { interpreted: false, script: &[], lines: &lines, max_steps: 10_000, input_lines: None, buf_fill: None };
    let rr = ref_run(&flat, &image, &cfg, &Quirks::none());
    let exp = crate::c17::blank_lines(&normalise(&rr.events));
    let out = run_cli(text.as_bytes(), Stdin::Closed, false, 4 << 20, 30_000);
    let replay = json!({"kind":"cli","source":text,"stdin":"","interpreted":false,"blank_line_numbers":true,
        "expected_events": exp.iter().map(|e| format!("{:?}", e)).collect::<Vec<_>>()});
    if matches!(out.status, Status::Timeout | Status::SpawnError(_)) {
        return CaseOutcome::Inconclusive(format!("{:?}", out.status));
    }
    if !out.clean() {
        return CaseOutcome::Fail { key: "c12|cli|abnormal-exit".into(), what: format!("status {:?} {}", out.status, out.err_str().lines().next().unwrap_or("")), replay };
    }
    let toks = match tokenize(&out.stdout) {
        Ok(t) => crate::c17::blank_lines(&t),
        Err(e) => return CaseOutcome::Fail { key: "c12|cli|unparsable-output".into(), what: e, replay },
    };
    if toks != exp {
        let d = crate::c17::first_diff(&exp, &toks);
        let kind = if d.starts_with("event 1:") { "ds-or-registers-at-start" } else if d.contains("Mem(") { "image" } else { "label-load" };
        return CaseOutcome::Fail { key: format!("c12|cli|{}", kind), what: d, replay };
    }
    let nt = lay.items.len() >= 3 && lay.labels.iter().any(|l| l.off > 0);
    let mut classes = vec!["c12/cli-run".to_string()];
    if commented && text.contains("\" ;") {
        classes.push("c12/cli-comment-behind-a-string".into());
    }
    CaseOutcome::Pass { nontrivial: nt, classes, digest: fnv_str(&text) }
}

/// a deterministic family around the 64 KiB boundary and the documented string limits,
/// in-process and through the CLI
fn boundary_family() -> Vec<(String, DCase)> {
    let z = |n: u32| DataDecl::Item { label: None, word: false, kind: DataKind::Zeros(n as u16) };
    let lab = |n: &str, word: bool, kind: DataKind| DataDecl::Item { label: Some(n.into()), word, kind };
    let mut v: Vec<(String, Vec<DataDecl>)> = Vec::new();
    for total in [65533u32, 65534, 65535, 65536, 65537, 65538, 70000, 131071, 131072] {
        // total bytes, then a labelled byte
        let mut d = vec![];
        let mut need = total;
        while need > 0 {
            let n = need.min(65535);
            d.push(z(n));
            need -= n;
        }
        let mut with_tail = d.clone();
        with_tail.push(lab("tail", false, DataKind::Val(0x77)));
        v.push((format!("db-zeros-{}", total), d));
        v.push((format!("db-zeros-{}-then-label", total), with_tail));
    }
    for n in [32767u32, 32768, 32769, 40000, 65535] {
        v.push((format!("dw-zeros-{}", n), vec![DataDecl::Item { label: None, word: true, kind: DataKind::Zeros(n as u16) }, lab("after", false, DataKind::Val(1))]));
        v.push((format!("dw-fill-{}", n), vec![DataDecl::Item { label: None, word: true, kind: DataKind::Fill(0xBEEF, n as u16) }, lab("after", true, DataKind::Val(0x1234))]));
    }
    for (word, n) in [(false, 65523usize), (false, 65524), (false, 65535), (true, 32755), (true, 32756), (true, 32768)] {
        v.push((format!("{}-string-{}", if word { "dw" } else { "db" }, n), vec![lab("s", word, DataKind::Str("q".repeat(n))), lab("after", false, DataKind::Val(9))]));
    }
    // two strings that together pass 64 KiB
    v.push(("two-strings-over".into(), vec![lab("s1", false, DataKind::Str("a".repeat(40000))), lab("s2", false, DataKind::Str("b".repeat(30000))), lab("after", false, DataKind::Val(9))]));
    // SET resets the running offset: two full-size segments are fine
    v.push(("set-resets".into(), vec![z(65535), DataDecl::Set(0x2000), z(65535), lab("after", false, DataKind::Val(9))]));
    v.push(("set-resets-then-over".into(), vec![z(65535), DataDecl::Set(0x2000), z(65535), z(5), lab("after", false, DataKind::Val(9))]));
    // high segment: data wraps the 1 MiB space
    v.push(("wraps-1MiB".into(), vec![DataDecl::Set(0xFFFF), lab("w", true, DataKind::Fill(0xA1B2, 20)), lab("after", false, DataKind::Val(9))]));
    // a definition whose FIRST byte lies exactly at 2^20 (= physical address 0)
    for (k, kind) in [DataKind::Val(0x77), DataKind::Str("at the top".into()), DataKind::Fill(0x33, 4)].into_iter().enumerate() {
        v.push((format!("starts-at-1MiB-kind{}", k), vec![DataDecl::Set(0xFFFF), z(16), lab("w", k == 2, kind), lab("after", false, DataKind::Val(9))]));
    }
    for (k, kind) in [DataKind::Str("string across the top".into()), DataKind::Fill(0x5A, 20), DataKind::Zeros(20), DataKind::Val(0xBEEF)].into_iter().enumerate() {
        for word in [false, true] {
            let kind = match (&kind, word) {
                (DataKind::Val(v), false) => DataKind::Val(v & 0xFF),
                (k, _) => k.clone(),
            };
            v.push((format!("wraps-1MiB-kind{}-{}", k, if word { "dw" } else { "db" }), vec![z(3), DataDecl::Set(0xFFFF), z(if word { 15 } else { 10 }), lab("w", word, kind), lab("after", false, DataKind::Val(9))]));
        }
    }
    v.into_iter().map(|(n, data)| (n, DCase { data, choices: vec![0] })).collect()
}

pub fn run(ctx: &Ctx) {
    ctx.set_rule("proptest-generated sequences (0..40) of SET/DB/DW definitions of all four kinds (value, zero array, filled array, string) with optional labels, values over the full signed/unsigned ranges in every radix (and as OFFSET of an earlier label), array and string lengths stratified over 0,1,2,255,256,4095,32757,65525,65535 and uniform, segments 0,1,10h,F000h,FFF0h,FFFFh and uniform (overlaps and the 1 MiB wrap), one case in four steered so that the last segment totals 65536-3..65536+3 bytes; followed by a code part using every label as byte and word operand, through OFFSET as an immediate and inside a memory operand. Oracle: independently computed image compared with the whole VM memory after the DataParser loop, label_map offsets, values loaded through label operands with DS on the label's segment, OFFSET values; segment totals > 65536 must be diagnosed (Err, no panic), totals <= 65535 must be accepted; through the CLI: DS=0000 at start, print mem around every item, label loads. Non-trivial = >= 3 definitions of >= 2 kinds with a label not at offset 0, or a SET after data, or a segment total within 2 of 65536.");
    ctx.assume("a segment total of exactly 65536 bytes, and a string literal longer than the assembler's documented single-string limit (65525 / 32757 characters including quotes), may be either accepted (then laid out exactly) or refused with a diagnostic");
    ctx.assume("a word load from a label at offset FFFFh may take its high byte from offset 0 of the segment or from the next physical byte");
    ctx.assume("string contents are printable ASCII without ';' (the driver strips comments before lexing; syntax.md does not define comments inside strings)");
    ctx.set_exhaustive(false);
    let n = ctx.tier.pick(8_000u32, 160_000u32);
    run_inproc(ctx, "c12", n, case_s, eval, |c| json!({"source": render_case(c, 6).0.chars().take(600).collect::<String>()}));
    for (name, c) in boundary_family() {
        ctx.add_evals(1);
        ctx.class("c12/boundary-family", 1);
        match eval(&c) {
            CaseOutcome::Pass { .. } => ctx.add_nontrivial(1),
            CaseOutcome::Fail { key, what, replay } => ctx.fail(Failure { key, what: format!("[family {}] {}", name, what), replay }),
            CaseOutcome::Known(k) => ctx.known_hit(&k, 1),
            CaseOutcome::Inconclusive(w) => ctx.inconclusive(&w),
        }
    }
    if !cli_available() {
        ctx.harness_error("CLI binary not built");
        return;
    }
    let ncli = ctx.tier.pick(320usize, 4_000usize);
    run_cases(ctx, "c12-cli", ncli, case_s, eval_cli, |c| json!({"cli_source": render_case(c, 2).0.chars().take(400).collect::<String>()}));
    // the boundary family through the real binary: never a panic, over-64k always a diagnostic and no program output
    for (name, c) in boundary_family() {
        let lay = layout(&c.data);
        let (src, _) = render_case(&c, 2);
        let src = format!("{}print reg\n", src);
        let out = run_cli(src.as_bytes(), Stdin::Closed, false, 4 << 20, 60_000);
        ctx.add_evals(1);
        ctx.class("c12/boundary-family-cli", 1);
        let replay = json!({"kind":"cli","source": if src.len() < 4000 { src.clone() } else { format!("(large) family member {}", name) }, "c12_family": name, "stdin":"","interpreted":false});
        if matches!(out.status, Status::Timeout | Status::SpawnError(_)) {
            ctx.inconclusive(&format!("family {}: {:?}", name, out.status));
            continue;
        }
        if !out.clean() {
            ctx.fail(Failure { key: "c12|cli|family-abnormal-exit".into(), what: format!("family {}: status {:?} {}", name, out.status, out.err_str().lines().next().unwrap_or("")), replay });
            continue;
        }
        let s = out.out_str();
        let ran = s.contains("AX : ");
        if lay.max_total > 65536 && (ran || !looks_like_diagnostic(&s)) {
            ctx.fail(Failure { key: "c12|cli|over-64k-not-diagnosed".into(), what: format!("family {}: segment total {} bytes was not diagnosed by the CLI (output starts {:?})", name, lay.max_total, s.chars().take(80).collect::<String>()), replay });
            continue;
        }
        if lay.max_total < 65536 && !lay.string_over_limit && !ran {
            ctx.fail(Failure { key: "c12|cli|valid-data-rejected".into(), what: format!("family {}: segment total {} bytes was refused (output starts {:?})", name, lay.max_total, s.chars().take(120).collect::<String>()), replay });
            continue;
        }
        ctx.add_nontrivial(1);
    }
    ctx.require_class("c12/over-64k-diagnosed", 20);
    ctx.require_class("c12/total-within-2-of-64k-accepted", 20);
    ctx.require_class("c12/set-after-data", 100);
    ctx.require_class("c12/crosses-1MiB", 20);
    ctx.require_class("c12/label-not-at-0", 200);
    ctx.require_class("c12/cli-run", 50);
    for k in ["db-val", "db-zeros", "db-fill", "db-str", "dw-val", "dw-zeros", "dw-fill", "dw-str"] {
        ctx.require_class(&format!("c12/{}", k), 100);
    }
}

pub fn replay(v: &Value) -> Result<String, String> {
    let data: Vec<DataDecl> = v["decls"].as_array().map(|a| a.iter().map(decl_from_json).collect()).unwrap_or_default();
    let choices: Vec<u8> = v["choices"].as_array().map(|a| a.iter().map(|x| x.as_u64().unwrap_or(0) as u8).collect()).unwrap_or_else(|| vec![0]);
    let c = DCase { data, choices };
    let (src, _) = render_case(&c, 6);
    let shown: String = src.chars().take(1500).collect();
    match eval(&c) {
        CaseOutcome::Pass { .. } => Ok(format!("source:\n{}\nlayout, labels and loads agree with the reference", shown)),
        CaseOutcome::Fail { what, .. } => Err(format!("source:\n{}\n{}", shown, what)),
        CaseOutcome::Known(k) => Err(format!("known finding {}", k)),
        CaseOutcome::Inconclusive(w) => Err(w),
    }
}
