//! C01 -- ADD/ADC/SUB/SBB/CMP/INC/DEC/NEG: result and six status flags.
use crate::common::*;
use crate::l0::*;
use crate::pt;
use crate::refmodel::*;
use proptest::prelude::*;

pub const PRIORS: [u16; 3] = [0x0000, 0xFFFF, 0xF000];

fn nontrivial_bin(op: Bin, a: u32, b: u32, cf: bool, w: u32) -> bool {
    let r = bin(op, a, b, cf, w);
    (r.flags & (CF | AF | OF | ZF)) != 0 || (cf && matches!(op, Bin::Adc | Bin::Sbb))
}

pub fn run(ctx: &Ctx) {
    if !crate::l0::L0_DIRECT {
        ctx.note("the signatures of the public instruction functions in the working tree differ from the L0 tables: the harness was built without the direct calls, the L0 sweeps are skipped and the L1 (assembler + interpreter) and L3 (CLI) parts decide");
    }
    ctx.set_rule("L0: every (a,b,CF_in) byte point of ADD/ADC/SUB/SBB/CMP and every (a,CF_in) of INC/DEC/NEG under 4 prior flag words (enumerated, distinct by construction); word functions on the fixed lattice L16 squared plus proptest-generated stratified pairs (thorough: all 2^32 pairs x CF_in). L1: every operand form of syntax.md through Preprocessor+Interpreter on stratified machine states with whole-machine comparison. Non-trivial = carry/borrow out of bit 3/7/15, signed overflow, zero result, or CF_in=1 for ADC/SBB; for L1 additionally a memory operand.");
    ctx.assume("reference ALU: bit-serial ripple adder/subtractor written from the 8086 Family User's Manual, self-checked at start-up against a wide-integer formulation");
    let openq = Quirks::from_keys(|k| ctx.is_open(k));
    let seeded_prior = (splitmix(ctx.seed ^ 0xC01) as u16) | 0x0002;
    let mut priors: Vec<u16> = PRIORS.to_vec();
    priors.push(seeded_prior);

    // ---- D1 byte: exhaustive
    for f in bin_fns().into_iter().filter(|f| f.w == 8) {
        let pr = priors.clone();
        let op = match f.kind {
            Kind::Bin(op) => op,
            _ => unreachable!(),
        };
        let out = par_sweep(256, |a, vm, out| {
            for b in 0..256u32 {
                for cf in [0u16, 1] {
                    let nt = nontrivial_bin(op, a, b, cf == 1, 8);
                    for (i, prior) in pr.iter().enumerate() {
                        let p = Point { a, b, dx: 0, flags: (prior & !CF) | cf };
                        sweep_point(vm, &f, &p, &openq, out, nt && i == 0);
                    }
                }
            }
        });
        report(ctx, &f, "byte-exhaustive", out, &openq);
    }
    for f in un_fns().into_iter().filter(|f| f.w == 8) {
        let pr = priors.clone();
        let out = par_sweep(256, |a, vm, out| {
            for cf in [0u16, 1] {
                for (i, prior) in pr.iter().enumerate() {
                    let p = Point { a, b: 0, dx: 0, flags: (prior & !CF) | cf };
                    let nt = matches!(a, 0 | 0x0F | 0x10 | 0x7F | 0x80 | 0xFF | 1);
                    sweep_point(vm, &f, &p, &openq, out, nt && i == 0);
                }
            }
        });
        report(ctx, &f, "byte-exhaustive", out, &openq);
    }
    // word unary: exhaustive over all 65536 values (cheap)
    for f in un_fns().into_iter().filter(|f| f.w == 16) {
        let pr = priors.clone();
        let out = par_sweep(256, |hi, vm, out| {
            for lo in 0..256u32 {
                let a = (hi << 8) | lo;
                for cf in [0u16, 1] {
                    for (i, prior) in pr.iter().enumerate() {
                        let p = Point { a, b: 0, dx: 0, flags: (prior & !CF) | cf };
                        let nt = (a & 0xF) == 0 || (a & 0xF) == 0xF || a == 0x7FFF || a == 0x8000;
                        sweep_point(vm, &f, &p, &openq, out, nt && i == 0);
                    }
                }
            }
        });
        report(ctx, &f, "word-exhaustive", out, &openq);
    }
    // ---- D1 word: lattice squared
    let lat = lattice16();
    for f in bin_fns().into_iter().filter(|f| f.w == 16) {
        let op = match f.kind {
            Kind::Bin(op) => op,
            _ => unreachable!(),
        };
        let lat2 = lat.clone();
        let pr = priors.clone();
        let out = par_sweep(lat.len() as u32, |ai, vm, out| {
            let a = lat2[ai as usize] as u32;
            for &b in &lat2 {
                for cf in [0u16, 1] {
                    let nt = nontrivial_bin(op, a, b as u32, cf == 1, 16);
                    for (i, prior) in pr.iter().enumerate() {
                        let p = Point { a, b: b as u32, dx: 0, flags: (prior & !CF) | cf };
                        sweep_point(vm, &f, &p, &openq, out, nt && i == 0);
                    }
                }
            }
        });
        report(ctx, &f, "word-lattice", out, &openq);
    }
    // ---- D1 word: proptest generated pairs (quick) / exhaustive 2^32 (thorough)
    if ctx.tier == Tier::Thorough && std::env::var("VERIF_SKIP_2_32").is_err() {
        for f in bin_fns().into_iter().filter(|f| f.w == 16) {
            let op = match f.kind {
                Kind::Bin(op) => op,
                _ => unreachable!(),
            };
            let out = par_sweep(65536, |a, vm, out| {
                for b in 0..65536u32 {
                    for cf in [0u16, 1] {
                        // non-trivial counting on a thin slice to keep the oracle cost low
                        let nt = (b & 0xFFF) == 0xFFF && nontrivial_bin(op, a, b, cf == 1, 16);
                        let p = Point { a, b, dx: 0, flags: 0xF002 & !CF | cf };
                        sweep_point(vm, &f, &p, &openq, out, nt);
                    }
                }
            });
            report(ctx, &f, "word-exhaustive-2^32", out, &openq);
        }
        ctx.set_exhaustive(true);
        ctx.note("word binary functions: all 2^32 operand pairs x CF_in enumerated");
    } else {
        ctx.set_exhaustive(false);
        ctx.note("byte domain and word unary domain exhaustive; word binary domain = lattice^2 + generated pairs");
    }
    let cases = ctx.tier.pick(400_000u32, 4_000_000u32);
    for f in bin_fns().into_iter().filter(|f| f.w == 16) {
        let op = match f.kind {
            Kind::Bin(op) => op,
            _ => unreachable!(),
        };
        use rayon::prelude::*;
        let shards = 16u64;
        let results: Vec<(Local, Option<(Point, String)>)> = (0..shards)
            .into_par_iter()
            .map(|sh| {
                let mut vm = emulator_8086_lib::VM::new();
                let local = std::cell::RefCell::new(Local::default());
                let vmc = std::cell::RefCell::new(&mut vm);
                let strat = (pt::u16s(), pt::u16s(), pt::flagword());
                let r = pt::run(ctx.sub_seed(f.name, sh), cases / shards as u32, &strat, |(a, b, fl), counting| {
                    let p = Point { a: *a as u32, b: *b as u32, dx: 0, flags: *fl };
                    let mut vmb = vmc.borrow_mut();
                    let res = eval(&mut **vmb, &f, &p, &Quirks::none());
                    if counting {
                        let mut l = local.borrow_mut();
                        l.evals += 1;
                        if nontrivial_bin(op, p.a, p.b, fl & CF != 0, 16) {
                            l.digests.push(splitmix(((p.a as u64) << 32) | ((p.b as u64) << 16) | p.flags as u64) ^ fnv_str(f.name));
                        }
                    }
                    res.map_err(|m| format!("{}: {}", m.aspect, m.detail))
                });
                let fail = r.map(|((a, b, fl), why)| (Point { a: a as u32, b: b as u32, dx: 0, flags: fl }, why));
                (local.into_inner(), fail)
            })
            .collect();
        for (sh, (l, fail)) in results.into_iter().enumerate() {
            ctx.class(&format!("l0/word-generated/{}", f.name), l.evals);
            l.merge_into(ctx);
            if let Some((p, why)) = fail {
                let aspect = why.split(':').next().unwrap_or("?").to_string();
                ctx.fail(Failure {
                    key: format!("l0|{}|{}", f.name, aspect),
                    what: format!("{} (generated, shard {}): shrunk to a={:#X} b={:#X} flags_in={:04X}: {}", f.name, sh, p.a, p.b, p.flags, why),
                    replay: point_json(&f, &p),
                });
            }
        }
    }
    // vacuity guards
    for f in bin_fns().iter().chain(un_fns().iter()) {
        let sweep = if f.w == 8 { "byte-exhaustive" } else if matches!(f.kind, Kind::Un(_)) { "word-exhaustive" } else { "word-lattice" };
        ctx.require_class(&format!("l0/{}/{}", sweep, f.name), 1000);
    }
    // ---- D2: operand forms through the assembler and the interpreter
    crate::l1::run_forms(ctx, crate::l1::FormSet::Arith);
    crate::l3fam::run(ctx, crate::l3fam::Fam::Set(crate::l1::FormSet::Arith), ctx.tier.pick(320usize, 6000usize));
    if ctx.tier == Tier::Thorough {
        crate::fuzzrun::exec_campaign(ctx, &["add", "adc", "sub", "sbb", "cmp", "inc", "dec", "neg"], &[]);
    }
}
