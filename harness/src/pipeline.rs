//! The path source text -> Preprocessor -> emitted lines -> DataParser / Interpreter, with
//! the context conversion transcribed from driver.rs ("driver replica"), plus the pure
//! driver modules compiled in from the working tree.
#![allow(dead_code)]
use crate::emu::*;
use emulator_8086_lib as lib;
use lib::{
    DataParser, Interpreter, InterpreterContext, Label, LabelType, Preprocessor, PreprocessorContext,
    PreprocessorOutput, State, VM,
};
use std::collections::HashMap;

// pure driver modules from the working tree (they refer to `emulator_8086_lib` and
// `super::error_helper`, both of which resolve here).  If a change to the driver makes them depend on
// something that does not exist here (a new sibling module, say), the harness is built without them
// (feature driver_src off): the in-process driver-level parts are then skipped and the CLI parts decide.
#[cfg(feature = "driver_src")]
#[path = "/repo/src/driver/error_helper.rs"]
pub mod error_helper;
#[cfg(feature = "driver_src")]
#[path = "/repo/src/driver/preprocess.rs"]
pub mod preprocess;
#[cfg(feature = "driver_src")]
#[allow(clippy::all, unused_imports, dead_code, unused_variables)]
#[path = "/repo/src/driver/print.rs"]
pub mod print;

pub const DRIVER_SRC: bool = cfg!(feature = "driver_src");

#[cfg(not(feature = "driver_src"))]
pub mod error_helper {
    pub fn get_err_pos(_l: &emulator_8086_lib::LexerHelper, _pos: usize) -> (usize, usize, usize) {
        (0, 0, 0)
    }
}
#[cfg(not(feature = "driver_src"))]
pub mod preprocess {
    pub fn preprocess(input: &str) -> Result<((), (), ()), String> {
        super::assemble(input).map(|_| ((), (), ()))
    }
}
#[cfg(not(feature = "driver_src"))]
pub mod print {
    pub struct PrintParser;
    impl PrintParser {
        pub fn new() -> Self {
            PrintParser
        }
        pub fn parse(&self, _vm: &emulator_8086_lib::VM, _s: &str) -> Result<(), String> {
            Ok(())
        }
    }
}

thread_local! {
    pub static PRE: Preprocessor = Preprocessor::new();
    pub static INTERP: Interpreter = Interpreter::new();
    pub static DATA: DataParser = DataParser::new();
    pub static PRINT: print::PrintParser = print::PrintParser::new();
}

pub struct Assembled {
    pub code: Vec<String>,
    pub data: Vec<String>,
    pub ictx: InterpreterContext,
    pub undefined: Vec<(usize, String)>,
    pub source_map: HashMap<usize, usize>,
    pub data_counter: u16,
}

impl Assembled {
    pub fn label(&self, name: &str) -> Option<&Label> {
        self.ictx.label_map.get(name)
    }
    pub fn code_label(&self, name: &str) -> Option<usize> {
        match self.ictx.label_map.get(name) {
            Some(l) => match l.get_type() {
                LabelType::CODE => Some(l.map),
                LabelType::DATA => None,
            },
            None => None,
        }
    }
    pub fn data_label(&self, name: &str) -> Option<usize> {
        match self.ictx.label_map.get(name) {
            Some(l) => match l.get_type() {
                LabelType::DATA => Some(l.map),
                LabelType::CODE => None,
            },
            None => None,
        }
    }
}

/// the driver's comment stripping, transcribed
pub fn strip_comments(src: &str) -> String {
    thread_local! {
        static RE: regex::Regex = regex::Regex::new(r";.*\n?").unwrap();
    }
    RE.with(|r| r.replace_all(src, "\n").to_string())
}

/// Preprocessor::parse with a fresh context, converted as driver.rs does.
/// Err carries the lalrpop error rendered with Display.  Panics are caught.
/// One recorded forward reference (position of the jump, label name), whatever container and field order the working
/// tree keeps them in: a set or list of `(usize, String)` / `(String, usize)`, or a map either way round.
pub trait UndefEntry {
    fn pair(&self) -> (usize, String);
}
impl UndefEntry for &(usize, String) {
    fn pair(&self) -> (usize, String) {
        (self.0, self.1.clone())
    }
}
impl UndefEntry for &(String, usize) {
    fn pair(&self) -> (usize, String) {
        (self.1, self.0.clone())
    }
}
impl UndefEntry for (&usize, &String) {
    fn pair(&self) -> (usize, String) {
        (*self.0, self.1.clone())
    }
}
impl UndefEntry for (&String, &usize) {
    fn pair(&self) -> (usize, String) {
        (*self.1, self.0.clone())
    }
}
impl UndefEntry for (&usize, &Vec<String>) {
    fn pair(&self) -> (usize, String) {
        (*self.0, self.1.join(","))
    }
}
/// the recorded forward references as a sorted list
pub fn undef_pairs<I: IntoIterator>(it: I) -> Vec<(usize, String)>
where
    I::Item: UndefEntry,
{
    let mut v: Vec<(usize, String)> = it.into_iter().map(|e| e.pair()).collect();
    v.sort();
    v
}

pub fn assemble(src: &str) -> Result<Assembled, String> {
    let mut ctx = PreprocessorContext::default();
    let mut out = PreprocessorOutput::default();
    let r = catch(|| PRE.with(|p| p.parse(&mut ctx, &mut out, src).map_err(|e| format!("{}", e))));
    match r {
        Err(p) => Err(format!("PANIC: {}", p)),
        Ok(Err(e)) => Err(e),
        Ok(Ok(())) => {
            // `..`: fields a working tree may have added are of no concern here (the harness builds either way)
            let PreprocessorContext { data_counter, label_map, mapper, fn_map, undefined_labels, .. } = ctx;
            let undefined: Vec<(usize, String)> = undef_pairs(undefined_labels.iter());
            Ok(Assembled {
                code: out.code,
                data: out.data,
                ictx: InterpreterContext {
                    fn_map,
                    label_map,
                    call_stack: Vec::new(),
                    // fields a working tree may have added keep their defaults (the harness builds either way)
                    ..Default::default()
                },
                undefined,
                source_map: mapper.get_source_map(),
                data_counter,
            })
        }
    }
}

#[derive(Debug, Clone, PartialEq, Eq)]
pub enum StepOut {
    State(St),
    Err(String),
    Panic(String),
}

/// our own copy of State (the library's has no Clone)
#[derive(Debug, Clone, Copy, PartialEq, Eq, Hash)]
pub enum St {
    Halt,
    Print,
    Jmp(usize),
    Next,
    Int(u8),
    Repeat,
}

pub fn conv(s: State) -> St {
    match s {
        State::HALT => St::Halt,
        State::PRINT => St::Print,
        State::JMP(x) => St::Jmp(x),
        State::NEXT => St::Next,
        State::INT(n) => St::Int(n),
        State::REPEAT => St::Repeat,
    }
}

/// execute one emitted line on the VM
pub fn step(vm: &mut VM, ictx: &mut InterpreterContext, idx: usize, line: &str) -> StepOut {
    let r = catch(|| INTERP.with(|i| i.parse(idx, vm, ictx, line).map(conv).map_err(|e| format!("{}", e))));
    match r {
        Err(p) => StepOut::Panic(p),
        Ok(Err(e)) => StepOut::Err(e),
        Ok(Ok(s)) => StepOut::State(s),
    }
}

/// load the data lines as the driver does (counter, then DS := 0)
pub fn load_data(vm: &mut VM, data: &[String]) -> Result<(), String> {
    let mut ctr = 0usize;
    for l in data {
        let r = catch(|| DATA.with(|d| d.parse(vm, &mut ctr, l).map_err(|e| format!("{}", e))));
        match r {
            Err(p) => return Err(format!("PANIC: {}", p)),
            Ok(Err(e)) => return Err(e),
            Ok(Ok(())) => {}
        }
    }
    vm.arch.ds = 0;
    Ok(())
}
