//! C13 -- a macro use equals its hand-expanded body; recursion is always rejected.
use crate::asm::*;
use crate::cli::*;
use crate::clicheck::*;
use crate::common::*;
use crate::pipeline::*;
use emulator_8086_lib::LabelType;
use proptest::prelude::*;
use serde_json::{json, Value};
use std::collections::HashMap;

// ------------------------------------------------------------------ specification of a case

#[derive(Clone, Copy, Debug, PartialEq, Eq)]
pub enum Kind {
    R8,
    R16,
    Num8,
    Num16,
    Mem8,
    Mem16,
    Lab,
    Target,
    Macro,
}

#[derive(Clone, Debug, PartialEq, Eq)]
pub enum Piece {
    Lit(String),
    Param(usize),
}

#[derive(Clone, Debug)]
pub enum BItem {
    Ins(Vec<Piece>),
    Use { target: Piece, args: Vec<Piece> },
}

#[derive(Clone, Debug)]
pub struct MacroSpec {
    pub name: String,
    pub params: Vec<String>,
    pub kinds: Vec<Option<Kind>>,
    pub body: Vec<BItem>,
    /// spaces around body items (0..3)
    pub pad: u8,
    pub upper_kw: bool,
}

#[derive(Clone, Debug)]
pub struct UseSite {
    pub name: String,
    pub args: Vec<String>,
    pub style: u8,
}

#[derive(Clone, Debug)]
pub enum CItem {
    Def(usize),
    Use(UseSite),
    Ins(String),
    Label(String),
    Proc(String, Vec<CItem>),
}

#[derive(Clone, Debug)]
pub struct Case13 {
    pub macros: Vec<MacroSpec>,
    pub code: Vec<CItem>,
    /// what the generator did on purpose (classes / expectations are still computed by the reference)
    pub mode: u8,
}

#[derive(Clone, Debug)]
pub struct Raw {
    pub sel: Vec<u8>,
    pub insns: Vec<Insn>,
    pub nmacros: usize,
    pub mode: u8,
    pub nuses: usize,
}

const MACRO_NAMES: [&str; 10] = ["m", "mm", "m1", "ma", "mac_", "_m", "M", "m_a", "am", "a_m"];
// x1, x2, b1, b10, xA, XF: names that are the tail of a hex / binary literal (0x1, 0b10, 0XF): a literal in the body is one word, not a use of the parameter
// ptr ... dup: plausible parameter names that are keywords in other assemblers (and may become keywords here)
// Ax ... Word: names that differ from a register, a mnemonic or a size keyword only in case (names are case sensitive: the body's ax / AX is not a use of Ax)
const PARAM_NAMES: [&str; 50] = ["a", "ab", "a1", "_a", "x", "x1", "x2", "ax1", "b", "b1", "b10", "ba", "q", "qq", "d", "ad", "dd", "mo", "v", "v_", "k", "i", "al1", "xA", "XF", "ptr", "src", "dst", "len", "cnt", "val", "tmp", "n", "lo", "hi", "near", "far", "short", "dup", "PTR", "to", "Ax", "Cx", "Al", "Bx", "Mov", "Add", "Byte", "Word", "_"];

struct Sel<'a> {
    b: &'a [u8],
    p: usize,
}
impl<'a> Sel<'a> {
    fn next(&mut self) -> u8 {
        let v = self.b[self.p % self.b.len()];
        self.p += 1;
        v
    }
    fn pick(&mut self, n: usize) -> usize {
        if n == 0 {
            0
        } else {
            self.next() as usize % n
        }
    }
}

fn num_text(v: u32, style: u8) -> String {
    match style % 5 {
        0 | 1 => format!("{}", v),
        2 => format!("0x{:X}", v),
        3 => format!("0b{:b}", v),
        _ => format!("0X{:x}", v),
    }
}

fn mem_text(m: &Mem, up: bool, style: u8) -> String {
    let k = |s: &str| if up { s.to_uppercase() } else { s.to_string() };
    let d16 = |d: i32| num_text((d & 0xFFFF) as u32, style);
    let mut s = String::new();
    if let Some(sg) = m.seg {
        s.push_str(&k(sg.name()));
        s.push(' ');
    }
    s.push('[');
    match m.shape {
        Shape::Direct(n) => s.push_str(&num_text(n as u32, style)),
        Shape::Ind(r) => s.push_str(&k(r.name())),
        Shape::Based(r, d) | Shape::Indexed(r, d) => s.push_str(&format!("{},{}", k(r.name()), d16(d))),
        Shape::BasedIdx(b, i, d) => {
            s.push_str(&format!("{},{}", k(b.name()), k(i.name())));
            if let Some(d) = d {
                s.push_str(&format!(", {}", d16(d)));
            }
        }
    }
    s.push(']');
    s
}

/// operand as (fixed prefix, parametrisable text, kind)
fn opd_parts(o: &Opd, up: bool, style: u8) -> (String, String, Option<Kind>) {
    let k = |s: &str| if up { s.to_uppercase() } else { s.to_string() };
    match o {
        Opd::R8(r) => (String::new(), k(r.name()), Some(Kind::R8)),
        Opd::R16(r) => (String::new(), k(r.name()), Some(Kind::R16)),
        Opd::Sr(s) => (String::new(), k(s.name()), None),
        Opd::Imm(v, kind) => match kind {
            ImmKind::SB | ImmKind::UB => (String::new(), num_text((*v & 0xFF) as u32, style), Some(Kind::Num8)),
            _ => (String::new(), num_text(*v as u32, style), Some(Kind::Num16)),
        },
        Opd::Mem(w, m) => (String::new(), format!("{} {}", k(w.kw()), mem_text(m, up, style)), Some(if *w == W::B { Kind::Mem8 } else { Kind::Mem16 })),
        Opd::Lab(w, n) => (format!("{} ", k(w.kw())), n.clone(), Some(Kind::Lab)),
        Opd::Name(n) => (String::new(), n.clone(), Some(Kind::Target)),
        Opd::Wd(w) => (String::new(), k(w.kw()), None),
    }
}

fn literal_arg(kind: Kind, s: &mut Sel, macro_unary: &[String]) -> String {
    let up = s.next() & 1 == 1;
    let k = |t: &str| if up { t.to_uppercase() } else { t.to_string() };
    match kind {
        Kind::R8 => k(R8S[s.pick(8)].name()),
        Kind::R16 => k(R16S[s.pick(8)].name()),
        Kind::Num8 => {
            let v = [0u32, 1, 7, 9, 10, 127, 128, 255][s.pick(8)];
            num_text(v, s.next())
        }
        Kind::Num16 => {
            let v = [0u32, 1, 255, 256, 1000, 0x7FFF, 0x8000, 0xFFFF][s.pick(8)];
            num_text(v, s.next())
        }
        Kind::Mem8 | Kind::Mem16 => {
            let shapes = [
                Shape::Direct(5),
                Shape::Ind(R16::BX),
                Shape::Ind(R16::SI),
                Shape::Based(R16::BP, 2),
                Shape::Indexed(R16::DI, 300),
                Shape::BasedIdx(R16::BX, R16::SI, None),
                Shape::BasedIdx(R16::BP, R16::DI, Some(4)),
                Shape::Direct(0xFFFF),
            ];
            let shape = shapes[s.pick(8)];
            // a segment override inside an argument is generated rarely
            let seg = if s.next() % 8 == 0 { Some(SEGS[s.pick(4)]) } else { None };
            format!("{} {}", k(if kind == Kind::Mem8 { "byte" } else { "word" }), mem_text(&Mem { seg, shape }, up, s.next()))
        }
        Kind::Lab => ["v_1", "v"][s.pick(2)].to_string(),
        Kind::Target => ["t_1", "start"][s.pick(2)].to_string(),
        Kind::Macro => {
            if macro_unary.is_empty() || s.next() % 16 == 0 {
                "und_mac".to_string()
            } else {
                macro_unary[s.pick(macro_unary.len())].clone()
            }
        }
    }
}

fn patch_insn(i: &Insn) -> Insn {
    // body alphabet has no '-': unsigned constants only
    let ops = i
        .ops
        .iter()
        .map(|o| match o {
            Opd::Imm(v, ImmKind::SB) => Opd::Imm(*v & 0xFF, ImmKind::UB),
            Opd::Imm(v, ImmKind::SW) => Opd::Imm(*v, ImmKind::UW),
            x => x.clone(),
        })
        .collect();
    Insn { prefix: i.prefix, mn: i.mn, ops }
}

pub fn body_insn_s() -> BoxedStrategy<Insn> {
    prop_oneof![
        4 => two_operand_forms(vec!["add", "adc", "sub", "sbb", "cmp", "and", "or", "xor", "test"], false),
        2 => one_operand_forms(vec!["inc", "dec", "neg", "not", "mul"]),
        2 => shift_forms(),
        3 => mov_forms(),
        1 => xchg_forms(),
        1 => push_pop_forms(),
        1 => flagctl_forms(),
        1 => singleton(vec!["nop", "cbw", "lahf"]),
        1 => proptest::sample::select(vec!["jmp", "jz", "loop", "jnbe"]).prop_map(|mn| Insn::new(mn, vec![Opd::Name("t_1".into())])),
    ]
    .prop_map(|i| patch_insn(&i))
    .boxed()
}

pub fn raw_s() -> BoxedStrategy<Raw> {
    (
        proptest::collection::vec(any::<u8>(), 192),
        proptest::collection::vec(body_insn_s(), 20),
        0usize..=8,
        prop_oneof![10 => Just(0u8), 2 => Just(1u8), 2 => Just(2u8), 1 => Just(3u8), 1 => Just(4u8)],
        1usize..6,
    )
        .prop_map(|(sel, insns, nmacros, mode, nuses)| Raw { sel, insns, nmacros, mode, nuses })
        .boxed()
}

/// turn the raw material into a well-formed case (construction, not rejection)
pub fn build(raw: &Raw) -> Case13 {
    let mut s = Sel { b: &raw.sel, p: 0 };
    let mut ins_i = 0usize;
    let mut next_insn = |s: &mut Sel| {
        let _ = s;
        let i = raw.insns[ins_i % raw.insns.len()].clone();
        ins_i += 1;
        i
    };
    let mut macros: Vec<MacroSpec> = Vec::new();
    let unary = |macros: &Vec<MacroSpec>| -> Vec<String> { macros.iter().filter(|m| m.kinds.len() == 1 && m.kinds[0] == Some(Kind::Num16)).map(|m| m.name.clone()).collect() };
    for mi in 0..raw.nmacros {
        let name = MACRO_NAMES[mi].to_string();
        let np = if mi == 0 && s.next() & 1 == 0 {
            1
        } else {
            // one macro in twelve has 11..13 parameters (two-digit positions)
            let n = s.pick(5);
            if mi > 0 && s.next() % 12 == 0 {
                11 + n % 3
            } else {
                n
            }
        };
        let mut params: Vec<String> = Vec::new();
        if np == 0 {
            params.push("_".into()); // documented convention for no-parameter macros
        } else {
            // with two or more parameters '_' may be one of them (an ordinary name there)
            let pool = if np >= 2 { PARAM_NAMES.len() } else { PARAM_NAMES.len() - 1 };
            let base = s.pick(pool);
            for k in 0..np {
                // neighbouring pool entries are prefixes / substrings of each other on purpose
                params.push(PARAM_NAMES[(base + k) % pool].to_string());
            }
        }
        let mut kinds: Vec<Option<Kind>> = vec![None; params.len()];
        if np == 0 {
            kinds[0] = Some(Kind::Num16); // never used
        }
        let mut body: Vec<BItem> = Vec::new();
        let nitems = if mi == 0 && np == 1 { 1 } else { s.pick(4) };
        for _ in 0..nitems {
            let want_use = mi > 0 && s.next() % 3 == 0;
            if want_use {
                // acyclic: callee defined earlier, or a macro-valued parameter
                let via_param = np > 0 && s.next() % 3 == 0;
                if via_param {
                    if let Some(pi) = (0..params.len()).find(|p| kinds[*p].is_none() || kinds[*p] == Some(Kind::Macro)) {
                        if np > 0 {
                            kinds[pi] = Some(Kind::Macro);
                            // the callee takes one 16-bit number
                            let arg = match (0..params.len()).find(|p| *p != pi && (kinds[*p].is_none() || kinds[*p] == Some(Kind::Num16))) {
                                Some(pj) if s.next() & 1 == 0 => {
                                    kinds[pj] = Some(Kind::Num16);
                                    Piece::Param(pj)
                                }
                                _ => Piece::Lit(literal_arg(Kind::Num16, &mut s, &[])),
                            };
                            body.push(BItem::Use { target: Piece::Param(pi), args: vec![arg] });
                            continue;
                        }
                    }
                }
                let cj = s.pick(mi);
                let callee = macros[cj].clone();
                let mut args = Vec::new();
                for (ak, kind) in callee.kinds.iter().enumerate() {
                    let kind = kind.unwrap_or(Kind::Num16);
                    if callee.params[ak] == "_" && callee.params.len() == 1 {
                        args.push(Piece::Lit("_".into()));
                        continue;
                    }
                    let pass = (0..params.len()).find(|p| np > 0 && (kinds[*p].is_none() || kinds[*p] == Some(kind)));
                    match pass {
                        Some(pj) if s.next() & 1 == 0 => {
                            kinds[pj] = Some(kind);
                            args.push(Piece::Param(pj));
                        }
                        _ => args.push(Piece::Lit(literal_arg(kind, &mut s, &unary(&macros)))),
                    }
                }
                body.push(BItem::Use { target: Piece::Lit(callee.name.clone()), args });
            } else {
                let insn = if mi == 0 && np == 1 { Insn::new("add", vec![Opd::R16(R16::AX), Opd::Imm(7, ImmKind::UW)]) } else { next_insn(&mut s) };
                let up = s.next() & 1 == 1;
                let style = s.next();
                let k = |t: &str| if up { t.to_uppercase() } else { t.to_string() };
                let mut pieces: Vec<Piece> = Vec::new();
                let mut head = String::new();
                if let Some(p) = insn.prefix {
                    head.push_str(&k(p));
                    head.push(' ');
                }
                head.push_str(&k(insn.mn));
                pieces.push(Piece::Lit(head));
                for (ok, o) in insn.ops.iter().enumerate() {
                    let (pre, text, kind) = opd_parts(o, up, style);
                    pieces.push(Piece::Lit(format!("{}{}", if ok == 0 { " " } else { "," }, pre)));
                    let slot = if mi == 0 && np == 1 { ok == 1 } else { np > 0 && s.next() % 2 == 0 };
                    let mut done = false;
                    if slot {
                        if let Some(kind) = kind {
                            if let Some(pi) = (0..params.len()).find(|p| kinds[*p].is_none() || kinds[*p] == Some(kind)) {
                                kinds[pi] = Some(kind);
                                pieces.push(Piece::Param(pi));
                                done = true;
                            }
                        }
                    }
                    if !done {
                        pieces.push(Piece::Lit(text));
                    }
                }
                body.push(BItem::Ins(pieces));
            }
        }
        // a literal whose tail spells a parameter name (0x2 next to a parameter x2) stays a literal
        for p in params.clone() {
            let tail_ok = p.len() >= 2 && matches!(p.as_bytes()[0], b'x' | b'X' | b'b' | b'B') && p[1..].chars().all(|c| if p.as_bytes()[0] | 0x20 == b'x' { c.is_ascii_hexdigit() } else { c == '0' || c == '1' });
            if tail_ok && s.next() % 3 != 0 {
                let line = match s.next() % 3 {
                    0 => format!("or dx,0{}", p),
                    1 => format!("mov cx,0{}", p),
                    _ => format!("add word [0{}],1", p),
                };
                body.push(BItem::Ins(vec![Piece::Lit(line)]));
            }
        }
        macros.push(MacroSpec { name, params, kinds, body, pad: s.next() % 4, upper_kw: s.next() & 1 == 1 });
    }
    // cycles are added on purpose by a post-pass (signatures are known by now)
    let n = macros.len();
    if n > 0 {
        match raw.mode {
            1 if n >= 2 => {
                // back edge: an early macro uses a later one that (transitively or not) may use it
                let hi = 1 + s.pick(n - 1);
                let lo = s.pick(hi);
                let callee = macros[hi].clone();
                let args = callee.kinds.iter().enumerate().map(|(ak, kd)| if callee.params[ak] == "_" && callee.params.len() == 1 { Piece::Lit("_".into()) } else { Piece::Lit(literal_arg(kd.unwrap_or(Kind::Num16), &mut s, &[])) }).collect();
                // make sure the later one uses the earlier one
                let callee2 = macros[lo].clone();
                let args2 = callee2.kinds.iter().enumerate().map(|(ak, kd)| if callee2.params[ak] == "_" && callee2.params.len() == 1 { Piece::Lit("_".into()) } else { Piece::Lit(literal_arg(kd.unwrap_or(Kind::Num16), &mut s, &[])) }).collect();
                macros[lo].body.push(BItem::Use { target: Piece::Lit(callee.name.clone()), args });
                macros[hi].body.push(BItem::Use { target: Piece::Lit(callee2.name.clone()), args: args2 });
            }
            2 => {
                let me = s.pick(n);
                let m = macros[me].clone();
                let args = m.kinds.iter().enumerate().map(|(ak, kd)| if m.params[ak] == "_" && m.params.len() == 1 { Piece::Lit("_".into()) } else { Piece::Lit(literal_arg(kd.unwrap_or(Kind::Num16), &mut s, &[])) }).collect();
                macros[me].body.push(BItem::Use { target: Piece::Lit(m.name.clone()), args });
            }
            _ => {}
        }
    }
    // code: definitions first (some later, between code items), one optional procedure, uses
    let un = unary(&macros);
    let mut code: Vec<CItem> = Vec::new();
    let late_def = if n > 0 && s.next() % 4 == 0 { Some(n - 1) } else { None };
    for mi in 0..n {
        if Some(mi) != late_def {
            code.push(CItem::Def(mi));
        }
    }
    let mk_use = |s: &mut Sel, macros: &Vec<MacroSpec>, upto: usize| -> CItem {
        if macros.is_empty() || upto == 0 || (raw.mode == 3 && s.next() % 2 == 0) {
            return CItem::Use(UseSite { name: "nosuch".into(), args: vec!["ax".into()], style: s.next() });
        }
        let m = &macros[s.pick(upto)];
        let args = m
            .kinds
            .iter()
            .enumerate()
            .map(|(ak, kd)| if m.params[ak] == "_" && m.params.len() == 1 { "_".to_string() } else { literal_arg(kd.unwrap_or(Kind::Num16), s, &un) })
            .collect();
        CItem::Use(UseSite { name: m.name.clone(), args, style: s.next() })
    };
    let usable_early = if late_def.is_some() { n - 1 } else { n };
    let with_proc = s.next() % 3 == 0;
    if with_proc {
        let mut body = vec![CItem::Ins("inc cx".into())];
        for _ in 0..1 + s.pick(2) {
            body.push(mk_use(&mut s, &macros, usable_early));
        }
        code.push(CItem::Proc("p_0".into(), body));
    }
    code.push(CItem::Label("start".into()));
    for u in 0..raw.nuses {
        if s.next() % 3 == 0 {
            code.push(CItem::Ins(["nop", "mov dx, 9", "STC", "push ax"][s.pick(4)].to_string()));
        }
        if s.next() % 5 == 0 {
            code.push(CItem::Label(format!("l_{}", u)));
        }
        if u == raw.nuses / 2 {
            if let Some(mi) = late_def {
                code.push(CItem::Def(mi));
            }
        }
        let upto = if u >= raw.nuses / 2 { n } else { usable_early };
        code.push(mk_use(&mut s, &macros, upto));
    }
    if raw.nuses / 2 >= raw.nuses {
        if let Some(mi) = late_def {
            code.push(CItem::Def(mi));
        }
    }
    if with_proc && s.next() & 1 == 0 {
        code.push(CItem::Ins("call p_0".into()));
    }
    // a macro defined a second time (same name and parameters, one more instruction in the body) after it was used,
    // then the same use again: the later definition must be the one that is expanded
    let mut macros = macros;
    if n > 0 && raw.mode == 0 && s.next() % 4 == 0 {
        let last_use = code.iter().rev().find_map(|c| match c {
            CItem::Use(u) if u.name != "nosuch" => Some(u.clone()),
            _ => None,
        });
        if let Some(u) = last_use {
            if let Some(mi) = macros.iter().rposition(|m| m.name == u.name) {
                let mut m2 = macros[mi].clone();
                m2.body.push(BItem::Ins(vec![Piece::Lit(["stc", "add bp,3", "mov word [6],9"][s.pick(3)].to_string())]));
                macros.push(m2);
                // ... and so must every macro that uses it: up to three earlier uses are repeated as well
                let earlier: Vec<UseSite> = code.iter().filter_map(|c| if let CItem::Use(x) = c { if x.name != "nosuch" { Some(x.clone()) } else { None } } else { None }).rev().take(3).collect();
                code.push(CItem::Def(macros.len() - 1));
                code.push(CItem::Use(u));
                for x in earlier {
                    code.push(CItem::Use(x));
                }
            }
        }
    }
    code.push(CItem::Label("t_1".into()));
    code.push(CItem::Ins("hlt".into()));
    Case13 { macros, code, mode: raw.mode }
}

// ------------------------------------------------------------------ rendering

const DATA_SECTION: &str = "v_1: dw 7\nv: db 1\n";

fn piece_text(p: &Piece, params: &[String]) -> String {
    match p {
        Piece::Lit(s) => s.clone(),
        Piece::Param(i) => params[*i].clone(),
    }
}

pub fn body_text(m: &MacroSpec) -> String {
    let pad = " ".repeat(m.pad as usize);
    let mut s = pad.clone();
    for (k, it) in m.body.iter().enumerate() {
        if k > 0 {
            s.push(' ');
        }
        match it {
            BItem::Ins(p) => {
                for x in p {
                    s.push_str(&piece_text(x, &m.params));
                }
            }
            BItem::Use { target, args } => {
                // documented: leave a space between the name and the bracket
                s.push_str(&piece_text(target, &m.params));
                s.push_str(" (");
                s.push_str(&args.iter().map(|a| piece_text(a, &m.params)).collect::<Vec<_>>().join(","));
                s.push(')');
            }
        }
    }
    s.push_str(&pad);
    s
}

fn use_text(u: &UseSite) -> String {
    match u.style % 6 {
        0 | 1 => format!("{}({})", u.name, u.args.join(",")),
        2 => format!("{} ({})", u.name, u.args.join(" , ")),
        3 => format!("{}( {} )", u.name, u.args.join(", ")),
        4 => format!("{}\t(\n{}\n)", u.name, u.args.join(",\n")),
        _ => format!("{}({})", u.name, u.args.join(" ,")),
    }
}

pub struct Rendered13 {
    pub text: String,
    /// byte offset of every use site's name, in program order
    pub use_offsets: Vec<usize>,
}

/// the program as written (with macros)
pub fn render(c: &Case13) -> Rendered13 {
    let mut out = String::from(DATA_SECTION);
    let mut offs = Vec::new();
    fn items(list: &[CItem], c: &Case13, out: &mut String, offs: &mut Vec<usize>) {
        for it in list {
            match it {
                CItem::Def(mi) => {
                    let m = &c.macros[*mi];
                    out.push_str(&format!("{} {}({}) ->{}<-\n", if m.upper_kw { "MACRO" } else { "macro" }, m.name, m.params.join(if m.pad % 2 == 0 { "," } else { " , " }), body_text(m)));
                }
                CItem::Use(u) => {
                    offs.push(out.len());
                    out.push_str(&use_text(u));
                    out.push('\n');
                }
                CItem::Ins(t) => {
                    out.push_str(t);
                    out.push('\n');
                }
                CItem::Label(l) => {
                    out.push_str(l);
                    out.push_str(": ");
                }
                CItem::Proc(n, body) => {
                    out.push_str(&format!("def {} {{\n", n));
                    items(body, c, out, offs);
                    out.push_str("}\n");
                }
            }
        }
    }
    items(&c.code, c, &mut out, &mut offs);
    Rendered13 { text: out, use_offsets: offs }
}

// ------------------------------------------------------------------ reference expansion (textual, independent)

#[derive(Clone, Debug, PartialEq, Eq)]
pub enum ExpErr {
    Unknown(String),
    Recursive(String),
    Malformed(String),
    TooDeep,
}

fn is_word(c: char) -> bool {
    c.is_ascii_alphanumeric() || c == '_'
}

/// whole-word substitution of every parameter by the corresponding argument (simultaneous)
pub fn substitute(body: &str, params: &[String], args: &[String]) -> String {
    let ch: Vec<char> = body.chars().collect();
    let mut out = String::new();
    let mut i = 0;
    while i < ch.len() {
        if is_word(ch[i]) {
            let s = i;
            while i < ch.len() && is_word(ch[i]) {
                i += 1;
            }
            let w: String = ch[s..i].iter().collect();
            match params.iter().position(|p| *p == w) {
                Some(k) if k < args.len() => out.push_str(&args[k]),
                _ => out.push_str(&w),
            }
        } else {
            out.push(ch[i]);
            i += 1;
        }
    }
    out
}

pub type MacroTable = HashMap<String, (Vec<String>, String)>;

/// expand one use completely; `depth` is the nesting depth reached (for the evidence)
pub fn expand(name: &str, args: &[String], table: &MacroTable, stack: &mut Vec<String>, maxdepth: &mut usize) -> Result<String, ExpErr> {
    let (params, body) = match table.get(name) {
        Some(x) => x,
        None => return Err(ExpErr::Unknown(name.to_string())),
    };
    if stack.iter().any(|s| s == name) {
        return Err(ExpErr::Recursive(name.to_string()));
    }
    if stack.len() > 200 {
        return Err(ExpErr::TooDeep);
    }
    stack.push(name.to_string());
    *maxdepth = (*maxdepth).max(stack.len());
    let text = substitute(body, params, args);
    // find nested uses: identifier, optional blanks, '('
    let ch: Vec<char> = text.chars().collect();
    let mut out = String::new();
    let mut i = 0;
    let mut res = Ok(());
    while i < ch.len() {
        if is_word(ch[i]) {
            let s = i;
            while i < ch.len() && is_word(ch[i]) {
                i += 1;
            }
            let w: String = ch[s..i].iter().collect();
            let mut j = i;
            while j < ch.len() && ch[j] == ' ' {
                j += 1;
            }
            if j < ch.len() && ch[j] == '(' {
                // argument list up to the matching ')'
                let mut k = j + 1;
                while k < ch.len() && ch[k] != ')' {
                    k += 1;
                }
                if k >= ch.len() {
                    res = Err(ExpErr::Malformed("unbalanced '('".into()));
                    break;
                }
                let inner: String = ch[j + 1..k].iter().collect();
                let mut a: Vec<String> = Vec::new();
                let mut depth = 0;
                let mut cur = String::new();
                for c in inner.chars() {
                    match c {
                        '[' => {
                            depth += 1;
                            cur.push(c)
                        }
                        ']' => {
                            depth -= 1;
                            cur.push(c)
                        }
                        ',' if depth == 0 => {
                            a.push(cur.trim().to_string());
                            cur = String::new();
                        }
                        _ => cur.push(c),
                    }
                }
                if !cur.trim().is_empty() || !a.is_empty() {
                    a.push(cur.trim().to_string());
                }
                match expand(&w, &a, table, stack, maxdepth) {
                    Ok(t) => {
                        out.push(' ');
                        out.push_str(&t);
                        out.push(' ');
                    }
                    Err(e) => {
                        res = Err(e);
                        break;
                    }
                }
                i = k + 1;
            } else {
                out.push_str(&w);
            }
        } else {
            out.push(ch[i]);
            i += 1;
        }
    }
    stack.pop();
    res.map(|_| out)
}

pub struct Reference {
    /// program with every use replaced by its expansion and the definitions removed (None: the
    /// reference itself says the program must be rejected)
    pub text: Option<String>,
    pub first_error: Option<(usize, ExpErr)>,
    /// (range of the expansion in `text`, index of the use) for every use
    pub ranges: Vec<(usize, usize, usize)>,
    pub max_depth: usize,
}

pub fn reference(c: &Case13) -> Reference {
    let mut out = String::from(DATA_SECTION);
    let mut table: MacroTable = HashMap::new();
    let mut r = Reference { text: None, first_error: None, ranges: vec![], max_depth: 0 };
    let mut use_idx = 0usize;
    fn items(list: &[CItem], c: &Case13, out: &mut String, table: &mut MacroTable, r: &mut Reference, use_idx: &mut usize) {
        for it in list {
            match it {
                CItem::Def(mi) => {
                    let m = &c.macros[*mi];
                    table.insert(m.name.clone(), (m.params.clone(), body_text(m)));
                }
                CItem::Use(u) => {
                    let mut stack = Vec::new();
                    let mut md = 0;
                    match expand(&u.name, &u.args, table, &mut stack, &mut md) {
                        Ok(t) => {
                            let s = out.len();
                            out.push_str(&t);
                            r.ranges.push((s, out.len(), *use_idx));
                            out.push('\n');
                        }
                        Err(e) => {
                            if r.first_error.is_none() {
                                r.first_error = Some((*use_idx, e));
                            }
                        }
                    }
                    r.max_depth = r.max_depth.max(md);
                    *use_idx += 1;
                }
                CItem::Ins(t) => {
                    out.push_str(t);
                    out.push('\n');
                }
                CItem::Label(l) => {
                    out.push_str(l);
                    out.push_str(": ");
                }
                CItem::Proc(n, body) => {
                    out.push_str(&format!("def {} {{\n", n));
                    items(body, c, out, table, r, use_idx);
                    out.push_str("}\n");
                }
            }
        }
    }
    items(&c.code, c, &mut out, &mut table, &mut r, &mut use_idx);
    if r.first_error.is_none() {
        r.text = Some(out);
    }
    r
}

// ------------------------------------------------------------------ evaluation

fn err_start(e: &str) -> Option<usize> {
    // "Unrecognized token `` found at S:E"
    let k = e.find("found at ")?;
    let rest = &e[k + 9..];
    let n: String = rest.chars().take_while(|c| c.is_ascii_digit()).collect();
    n.parse().ok()
}

fn line_of(text: &str, off: usize) -> usize {
    text.as_bytes()[..off.min(text.len())].iter().filter(|b| **b == b'\n').count() + 1
}

fn maps_of(a: &Assembled) -> (Vec<(String, bool, usize)>, Vec<(String, usize)>) {
    let mut l: Vec<(String, bool, usize)> = a.ictx.label_map.iter().map(|(k, v)| (k.clone(), matches!(v.get_type(), LabelType::DATA), v.map)).collect();
    l.sort();
    let mut f: Vec<(String, usize)> = a.ictx.fn_map.iter().map(|(k, v)| (k.clone(), *v)).collect();
    f.sort();
    (l, f)
}

/// does the case contain a memory argument with a segment override?
fn has_override_arg(c: &Case13) -> bool {
    fn has(a: &str) -> bool {
        let l = a.to_lowercase();
        (l.starts_with("byte ") || l.starts_with("word ")) && ["es [", "ds [", "ss [", "cs ["].iter().any(|p| l.contains(p))
    }
    fn walk(list: &[CItem]) -> bool {
        list.iter().any(|it| match it {
            CItem::Use(u) => u.args.iter().any(|a| has(a)),
            CItem::Proc(_, b) => walk(b),
            _ => false,
        })
    }
    walk(&c.code)
        || c.macros.iter().any(|m| {
            m.body.iter().any(|b| match b {
                BItem::Use { args, .. } => args.iter().any(|a| matches!(a, Piece::Lit(t) if has(t))),
                _ => false,
            })
        })
}

pub fn eval_case(c: &Case13) -> CaseOutcome {
    let r = render(c);
    let rf = reference(c);
    let replay = json!({"kind":"c13","source": r.text, "reference_expansion": rf.text, "reference_error": rf.first_error.as_ref().map(|(i, e)| format!("use {}: {:?}", i, e))});
    let short = |s: &str| s.lines().take(4).collect::<Vec<_>>().join(" / ").chars().take(300).collect::<String>();
    // a use graph the reference finds cyclic is evaluated in a child process: if the recursion
    // check were missing the expansion would not terminate, which cannot be caught in-process
    if let Some((ui, ExpErr::Recursive(_))) = &rf.first_error {
        if !cli_available() {
            return CaseOutcome::Inconclusive("CLI binary not built".into());
        }
        // a correct assembler rejects the cycle within as many nesting levels as there are macros: a 2 MiB
        // stack and 1 GiB of memory are ample, and make a missing check end quickly and deterministically
        let out = run_cli_limited(r.text.as_bytes(), Stdin::Closed, false, 1 << 20, 60_000, Limits { as_bytes: 1 << 30, stack_bytes: Some(2 << 20), cpu_secs: None });
        let creplay = json!({"kind":"cli","source": r.text, "stdin":"", "interpreted": false, "require": ["Syntax Error"]});
        if !matches!(out.status, Status::Exit(0)) {
            mark_expensive();
        }
        return match &out.status {
            Status::Timeout | Status::SpawnError(_) => CaseOutcome::Inconclusive(format!("{:?}", out.status)),
            Status::Signal(sig) => CaseOutcome::Fail { key: "c13|recursion|killed-by-signal".into(), what: format!("use {} is recursive; the emulator was killed by signal {} instead of rejecting it", ui, sig), replay: creplay },
            Status::OutputCap => CaseOutcome::Fail { key: "c13|recursion|runaway-output".into(), what: "recursive macro use produced runaway output".into(), replay: creplay },
            Status::Blocked => CaseOutcome::Fail { key: "c13|recursion|blocked".into(), what: "recursive macro use: the emulator went to sleep for good".into(), replay: creplay },
            Status::Exit(code) => {
                let so = out.out_str();
                if !own_exit(*code) || out.panicked() {
                    return CaseOutcome::Fail { key: "c13|recursion|abnormal-exit".into(), what: format!("recursive macro use: exit status {} {}", code, out.err_str().lines().next().unwrap_or("")), replay: creplay };
                }
                if !looks_like_diagnostic(&so) {
                    return CaseOutcome::Fail { key: "c13|accepted|recursive".into(), what: format!("use {} must be rejected (recursive) but no diagnostic was printed (stdout starts {:?})", ui, so.chars().take(80).collect::<String>()), replay: creplay };
                }
                // "Syntax Error at LINE:COL : text"
                let got: Option<usize> = so.to_ascii_lowercase().split("syntax error at ").nth(1).and_then(|t| t.split(':').next().map(|x| x.to_string())).and_then(|n| n.trim().parse().ok());
                let want = line_of(&r.text, r.use_offsets[*ui]);
                let span = r.text[r.use_offsets[*ui]..].find(')').map(|k| line_of(&r.text, r.use_offsets[*ui] + k)).unwrap_or(want);
                let earlier: Vec<usize> = r.use_offsets[..*ui].iter().map(|o| line_of(&r.text, *o)).collect();
                match got {
                    Some(g) if (g >= want && g <= span) || earlier.contains(&g) => {}
                    Some(g) => return CaseOutcome::Fail { key: "c13|diagnostic-position".into(), what: format!("the recursive use is on line {} but the diagnostic cites line {}", want, g), replay: creplay },
                    None => {}
                }
                CaseOutcome::Pass { nontrivial: true, classes: vec!["c13/expected-recursion-error".into(), format!("c13/mode-{}", c.mode)], digest: fnv_str(&r.text) }
            }
        };
    }
    let a = assemble(&r.text);
    if let Err(e) = &a {
        if e.starts_with("PANIC") {
            return CaseOutcome::Fail { key: format!("c13|panic|{}", crate::emu::panic_class(e).chars().take(50).collect::<String>()), what: format!("assembler aborted: {}", short(e)), replay };
        }
    }
    let mut classes: Vec<String> = Vec::new();
    classes.push(format!("c13/mode-{}", c.mode));
    if rf.max_depth >= 2 {
        classes.push("c13/nesting-depth>=2".into());
    }
    if rf.max_depth >= 3 {
        classes.push("c13/nesting-depth>=3".into());
    }
    let macro_valued = c.macros.iter().any(|m| m.kinds.contains(&Some(Kind::Macro)));
    if macro_valued {
        classes.push("c13/macro-valued-parameter".into());
    }
    let substr = c.macros.iter().any(|m| {
        let b = body_text(m);
        m.params.iter().any(|p| p != "_" && b.matches(p.as_str()).count() > substitute(&b, &[p.clone()], &["\u{1}".to_string()]).matches('\u{1}').count())
    });
    if substr {
        classes.push("c13/parameter-is-substring-of-another-token".into());
    }
    if has_override_arg(c) {
        classes.push("c13/override-in-argument".into());
    }
    if c.code.iter().any(|i| matches!(i, CItem::Proc(_, b) if b.iter().any(|x| matches!(x, CItem::Use(_))))) {
        classes.push("c13/use-inside-procedure".into());
    }
    let nt = substr || rf.max_depth >= 2 || macro_valued || matches!(rf.first_error, Some((_, ExpErr::Recursive(_))));
    let digest = fnv_str(&r.text);
    // (1) the reference itself demands rejection: cycle or unknown macro
    if let Some((ui, e)) = &rf.first_error {
        classes.push(match e {
            ExpErr::Recursive(_) => "c13/expected-recursion-error".to_string(),
            ExpErr::Unknown(_) => "c13/expected-unknown-macro-error".to_string(),
            _ => "c13/expected-malformed".to_string(),
        });
        return match a {
            Ok(asm) => CaseOutcome::Fail {
                key: format!("c13|accepted|{}", match e { ExpErr::Recursive(_) => "recursive", ExpErr::Unknown(_) => "unknown-macro", _ => "malformed" }),
                what: format!("use {} must be rejected ({:?}) but the program was accepted with {} instructions", ui, e, asm.code.len()),
                replay,
            },
            Err(msg) => {
                // an earlier use may legitimately fail first (invalid expansion); position: at or before this use
                if let Some(s) = err_start(&msg) {
                    let want = line_of(&r.text, r.use_offsets[*ui]);
                    let got = line_of(&r.text, s);
                    let earlier: Vec<usize> = r.use_offsets[..*ui].iter().map(|o| line_of(&r.text, *o)).collect();
                    if got != want && !earlier.contains(&got) {
                        return CaseOutcome::Fail { key: "c13|diagnostic-position".into(), what: format!("the rejected use is on line {} but the diagnostic is positioned on line {}: {}", want, got, short(&msg)), replay };
                    }
                }
                if msg.trim().is_empty() {
                    return CaseOutcome::Fail { key: "c13|empty-diagnostic".into(), what: "empty diagnostic".into(), replay };
                }
                CaseOutcome::Pass { nontrivial: nt, classes, digest }
            }
        };
    }
    // (2) compare with the hand-expanded program
    let ptext = rf.text.as_ref().unwrap();
    let b = assemble(ptext);
    match (a, b) {
        (_, Err(e)) if e.starts_with("PANIC") => CaseOutcome::Fail { key: "c13|panic-on-expanded".into(), what: format!("assembler aborted on the hand-expanded program: {}", short(&e)), replay },
        (Err(ea), Err(eb)) => {
            classes.push("c13/expansion-invalid-both-rejected".into());
            // position: the use whose expansion contains the error of the expanded program
            if let (Some(sa), Some(sb)) = (err_start(&ea), err_start(&eb)) {
                if let Some((_, _, ui)) = rf.ranges.iter().find(|(s, e, _)| sb >= *s && sb <= *e) {
                    let want = line_of(&r.text, r.use_offsets[*ui]);
                    let got = line_of(&r.text, sa);
                    // multi-line use sites: the use spans lines want..want+k
                    let span = r.text[r.use_offsets[*ui]..].find(')').map(|k| line_of(&r.text, r.use_offsets[*ui] + k)).unwrap_or(want);
                    if got < want || got > span {
                        return CaseOutcome::Fail { key: "c13|diagnostic-position".into(), what: format!("the failing use is on line {} but the diagnostic is positioned on line {}: {}", want, got, short(&ea)), replay };
                    }
                }
            }
            CaseOutcome::Pass { nontrivial: false, classes, digest }
        }
        (Err(ea), Ok(bb)) => {
            CaseOutcome::Fail {
                key: "c13|use-rejected-but-expansion-valid".into(),
                what: format!("the hand-expanded program is valid ({} instructions) but the program with macros is rejected: {}", bb.code.len(), short(&ea)),
                replay,
            }
        }
        (Ok(aa), Err(eb)) => CaseOutcome::Fail {
            key: "c13|use-accepted-but-expansion-invalid".into(),
            what: format!("the hand-expanded program is rejected ({}) but the program with macros is accepted ({} instructions)", short(&eb), aa.code.len()),
            replay,
        },
        (Ok(aa), Ok(bb)) => {
            if aa.code != bb.code {
                let k = (0..aa.code.len().max(bb.code.len())).find(|k| aa.code.get(*k) != bb.code.get(*k)).unwrap();
                return CaseOutcome::Fail {
                    key: "c13|different-instructions".into(),
                    what: format!("instruction {} differs: with macros {:?}, hand-expanded {:?}", k, aa.code.get(k), bb.code.get(k)),
                    replay,
                };
            }
            if aa.data != bb.data || maps_of(&aa) != maps_of(&bb) {
                return CaseOutcome::Fail { key: "c13|different-maps".into(), what: "data lines or label/procedure maps differ between the program with macros and the hand-expanded one".into(), replay };
            }
            classes.push("c13/expanded-equal".into());
            if !aa.code.is_empty() && r.use_offsets.len() >= 1 {
                classes.push("c13/accepted-with-uses".into());
            }
            CaseOutcome::Pass { nontrivial: nt, classes, digest }
        }
    }
}

pub fn eval(raw: &Raw) -> CaseOutcome {
    eval_case(&build(raw))
}

// ------------------------------------------------------------------ chains (child process)

/// a chain c0 <- c1 <- ... <- c_d, used once; the program then writes a marker
pub fn chain_program(depth: usize, cyclic: bool) -> String {
    let mut s = String::new();
    s.push_str(&format!("macro c0(_) -> {} <-\n", if cyclic { format!("c{} (_)", depth) } else { "inc bx".to_string() }));
    for i in 1..=depth {
        s.push_str(&format!("macro c{}(_) -> c{} (_) <-\n", i, i - 1));
    }
    s.push_str(&format!("start: c{}(_)\nmov dl, 33\nmov ah, 2\nint 0x21\nprint reg\n", depth));
    s
}

fn run_chains(ctx: &Ctx) {
    let depths: Vec<usize> = ctx.tier.pick(vec![1, 2, 8, 64], vec![1, 2, 8, 64, 256, 1024, 4096]);
    // (depth, unoptimised build): the chains around the nesting limit also run in cargo's default profile, whose stack
    // frames are several times larger, under the customary 8 MiB stack
    let mut jobs: Vec<(usize, bool)> = depths.into_iter().map(|d| (d, false)).collect();
    let have_debug = std::path::Path::new(CLI_DEBUG_BIN).exists();
    if have_debug {
        jobs.extend([(64usize, true), (90, true), (99, true), (100, true), (101, true), (150, true)]);
    } else {
        ctx.note("the unoptimised CLI is not built: deep chains run in the optimised build only");
    }
    use rayon::prelude::*;
    let all: Vec<(usize, bool, bool)> = jobs.iter().flat_map(|(d, debug)| [(*d, *debug, false), (*d, *debug, true)]).collect();
    // the children run side by side (each is single-threaded and spends its time building parsers)
    let outs: Vec<CliOut> = all
        .par_iter()
        .map(|(d, debug, cyclic)| {
            let src = chain_program(*d, *cyclic);
            // 7 ms of parser construction per level inside the code under test; generous watchdog
            if *debug {
                run_bin_limited(CLI_DEBUG_BIN, src.as_bytes(), Stdin::Closed, false, 4 << 20, 240_000, Limits { as_bytes: 3 << 30, stack_bytes: Some(8 << 20), cpu_secs: None })
            } else {
                run_cli(src.as_bytes(), Stdin::Closed, false, 4 << 20, 120_000 + *d as u64 * 400)
            }
        })
        .collect();
    for ((d, debug, cyclic), out) in all.into_iter().zip(outs) {
        {
            let src = chain_program(d, cyclic);
            ctx.add_evals(1);
            ctx.class(&format!("c13/chain-{}{}", if cyclic { "cyclic" } else { "acyclic" }, if debug { "-unoptimised-build" } else { "" }), 1);
            let replay = json!({"kind":"cli","source": if d <= 64 { src.clone() } else { format!("(chain of depth {}, cyclic={}: regenerate with c13::chain_program)", d, cyclic) }, "stdin":"","interpreted":false, "chain_depth": d, "cyclic": cyclic, "unoptimised_build": debug});
            match &out.status {
                Status::Timeout | Status::SpawnError(_) => {
                    ctx.inconclusive(&format!("chain depth {}: {:?}", d, out.status));
                    continue;
                }
                Status::Signal(sig) => {
                    ctx.fail(Failure { key: "c13|chain|killed-by-signal".into(), what: format!("macro chain of depth {} (cyclic={}{}): the emulator was killed by signal {} (stack overflow) instead of ending with a result or a diagnostic", d, cyclic, if debug { ", unoptimised build, 8 MiB stack" } else { "" }, sig), replay });
                    continue;
                }
                _ => {}
            }
            if !out.clean() {
                ctx.fail(Failure { key: "c13|chain|abnormal-exit".into(), what: format!("macro chain of depth {} (cyclic={}): status {:?} {}", d, cyclic, out.status, out.err_str().lines().next().unwrap_or("")), replay });
                continue;
            }
            let s = out.out_str();
            let ran = s.contains('!') && s.contains("BX : 0x0001");
            let diagnosed = s.contains("Syntax Error") || (!s.contains('!') && !s.contains("AX : ") && looks_like_diagnostic(&s));
            if cyclic {
                if !diagnosed || s.contains("AX : ") {
                    ctx.fail(Failure { key: "c13|chain|cycle-not-rejected".into(), what: format!("cyclic macro chain of length {} was not rejected (output starts {:?})", d + 1, s.chars().take(100).collect::<String>()), replay });
                    continue;
                }
            } else if !ran && !diagnosed {
                ctx.fail(Failure { key: "c13|chain|no-result-no-diagnostic".into(), what: format!("macro chain of depth {} ended with neither the program's output nor a diagnostic (output starts {:?})", d, s.chars().take(100).collect::<String>()), replay });
                continue;
            } else if !ran && d <= 64 {
                ctx.fail(Failure { key: "c13|chain|shallow-chain-rejected".into(), what: format!("an acyclic macro chain of depth {} was rejected: {}", d, s.chars().take(160).collect::<String>()), replay });
                continue;
            }
            ctx.add_nontrivial(1);
            ctx.class(if ran { "c13/chain-expanded" } else { "c13/chain-diagnosed" }, 1);
        }
    }
}

/// recursion that a program reaches only through its history: a macro first defined (and possibly used) with a harmless
/// body and then defined again so that it uses itself, directly or through another macro; a macro that invokes a
/// by-name parameter, first used with a leaf and then with itself.  (name, source); every one must be refused with a
/// diagnostic -- by a child process, because a missing recursion check overflows the stack
pub fn late_recursion_programs() -> Vec<(String, String)> {
    let mut v: Vec<(String, String)> = Vec::new();
    let tail = "mov dl, 33\nmov ah, 2\nint 0x21\nprint reg\n";
    for (bi, first_body) in ["inc x", "mov x, x", "nop", "inc x inc x", "push x pop x"].iter().enumerate() {
        for used_between in [false, true] {
            for (ri, redef) in ["m (x)", "inc x m (x)", "m (x) inc x", "n (x)"].iter().enumerate() {
                let mut s = String::new();
                s.push_str(&format!("macro m(x) -> {} <-\n", first_body));
                if *redef == "n (x)" {
                    s.push_str("macro n(x) -> m (x) <-\n");
                }
                s.push_str("start:\n");
                if used_between {
                    s.push_str("m(ax)\n");
                    if *redef == "n (x)" {
                        s.push_str("n(bx)\n");
                    }
                }
                s.push_str(&format!("macro m(x) -> {} <-\n", redef));
                s.push_str("m(ax)\n");
                s.push_str(tail);
                v.push((format!("redefined-recursive/{}{}{}", bi, if used_between { "u" } else { "-" }, ri), s));
            }
        }
    }
    // by-name parameter: a successful use first, then the macro handed to itself
    v.push(("by-name/apply-apply".into(), format!("macro bump(k, r) -> inc r <-\nmacro apply(k, r) -> k (k, r) <-\nstart:\napply(bump, ax)\napply(apply, ax)\n{}", tail)));
    v.push(("by-name/apply-apply-first".into(), format!("macro bump(k, r) -> inc r <-\nmacro apply(k, r) -> k (k, r) <-\nstart:\napply(apply, ax)\n{}", tail)));
    v.push(("by-name/two-step".into(), format!("macro leaf(k, r) -> inc r <-\nmacro a(k, r) -> k (k, r) <-\nmacro b(k, r) -> a (k, r) <-\nstart:\nb(leaf, cx)\na(leaf, cx)\nb(b, cx)\n{}", tail)));
    v
}

/// run the late-recursion programs through the given build(s) of the CLI; `owner` = key prefix (c13 / c15)
pub fn late_recursion_family(ctx: &Ctx, owner: &str) {
    use rayon::prelude::*;
    let have_debug = std::path::Path::new(CLI_DEBUG_BIN).exists();
    let progs = late_recursion_programs();
    let jobs: Vec<(usize, bool)> = progs.iter().enumerate().flat_map(|(i, _)| if have_debug && i % 4 == 0 { vec![(i, false), (i, true)] } else { vec![(i, false)] }).collect();
    let outs: Vec<CliOut> = jobs
        .par_iter()
        .map(|(i, debug)| {
            let src = &progs[*i].1;
            if *debug {
                run_bin_limited(CLI_DEBUG_BIN, src.as_bytes(), Stdin::Closed, false, 4 << 20, 240_000, Limits { as_bytes: 3 << 30, stack_bytes: Some(8 << 20), cpu_secs: None })
            } else {
                run_cli_limited(src.as_bytes(), Stdin::Closed, false, 4 << 20, 120_000, Limits { as_bytes: 3 << 30, stack_bytes: Some(8 << 20), cpu_secs: None })
            }
        })
        .collect();
    for ((i, debug), out) in jobs.into_iter().zip(outs) {
        let (name, src) = &progs[i];
        ctx.add_evals(1);
        let replay = json!({"kind":"cli","source":src,"stdin":"","interpreted":false,"unoptimised_build":debug});
        let build = if debug { " (unoptimised build, 8 MiB stack)" } else { "" };
        match &out.status {
            Status::Timeout | Status::SpawnError(_) => {
                ctx.inconclusive(&format!("late recursion {}: {:?}", name, out.status));
                continue;
            }
            Status::Signal(sig) => {
                ctx.fail(Failure { key: format!("{}|late-recursion|killed-by-signal", owner), what: format!("[{}]{}: the emulator was killed by signal {} (stack overflow) instead of refusing the recursive macro with a diagnostic", name, build, sig), replay });
                continue;
            }
            _ => {}
        }
        if !out.clean() {
            ctx.fail(Failure { key: format!("{}|late-recursion|abnormal-exit", owner), what: format!("[{}]{}: status {:?} {}", name, build, out.status, out.err_str().lines().next().unwrap_or("")), replay });
            continue;
        }
        let s = out.out_str();
        if s.contains("AX : ") || s.contains('!') || s.trim().is_empty() {
            ctx.fail(Failure { key: format!("{}|late-recursion|not-rejected", owner), what: format!("[{}]{}: a macro that uses itself was not refused with a diagnostic (output starts {:?})", name, build, s.chars().take(100).collect::<String>()), replay });
            continue;
        }
        ctx.add_nontrivial(1);
        ctx.class(&format!("{}/late-recursion-refused", owner), 1);
    }
}

pub fn run(ctx: &Ctx) {
    ctx.set_rule("proptest-generated macro libraries: 0-8 macros with 0-4 parameters drawn from a pool of names that are prefixes/suffixes/substrings of each other and of body tokens (a, ab, a1, _a, ax1, ad, mo, al1, ...), bodies of complete instructions in the body alphabet with operands abstracted into parameters (byte/word register, 8/16-bit number in any radix, byte/word bracketed memory of all five shapes, data-label name, jump target), uses of earlier macros with literal and passed-through arguments, macro-valued parameters, optional back edges (2-cycles), self recursion, unknown macro names, definitions placed between code items, uses at top level, between labels and inside a procedure, several use-site spellings. Oracle: an independent textual reference expander (whole-identifier simultaneous substitution, recursive, explicit cycle check) produces the hand-expanded program P'; Output.code/.data and the label and procedure maps of P must equal those of P', P is rejected iff P' is rejected or the reference finds a cycle / unknown macro, and the diagnostic must be positioned on the line(s) of the failing outermost use. Deep chains (1..64 quick, ..4096 thorough; acyclic and cyclic) run through the CLI in a child process: result or diagnostic, never a signal. Plus 44 programs whose recursion only appears through a redefinition (direct, through a second macro, with and without a use in between) or after a successful use of a by-name parameter: refused with a diagnostic by a child process in both builds. Non-trivial = a parameter name that is a substring of another body token, nesting depth >= 2, a macro-valued parameter, or a cyclic use graph.");
    ctx.assume("arguments are the kinds the statement lists (identifier, register, number, bracketed memory); the number of arguments equals the number of parameters ('_' convention for none); a space separates a macro-valued parameter from its bracket, as syntax.md requires; macros expanding to data directives are not generated");
    ctx.set_exhaustive(false);
    let n = ctx.tier.pick(3_200u32, 100_000u32);
    crate::pt::set_max_shrink_iters(400);
    run_inproc(ctx, "c13", n, raw_s, eval, |raw| json!({"source": render(&build(raw)).text, "hand_expanded": reference(&build(raw)).text}));
    if cli_available() {
        run_chains(ctx);
        late_recursion_family(ctx, "c13");
        ctx.require_class("c13/late-recursion-refused", 40);
    } else {
        ctx.harness_error("CLI binary not built");
    }
    ctx.require_class("c13/expanded-equal", 500);
    ctx.require_class("c13/accepted-with-uses", 500);
    ctx.require_class("c13/nesting-depth>=2", 200);
    ctx.require_class("c13/macro-valued-parameter", 50);
    ctx.require_class("c13/parameter-is-substring-of-another-token", 200);
    ctx.require_class("c13/expected-recursion-error", 100);
    ctx.require_class("c13/expected-unknown-macro-error", 50);
    ctx.require_class("c13/use-inside-procedure", 200);
    ctx.require_class("c13/override-in-argument", 50);
}

pub fn replay(v: &Value) -> Result<String, String> {
    let src = v["source"].as_str().ok_or("no source")?;
    let mut rep = format!("program with macros:\n{}\n", src);
    let a = assemble(src);
    match &a {
        Ok(x) => rep.push_str(&format!("-> accepted: {:?}\n", x.code)),
        Err(e) => rep.push_str(&format!("-> rejected: {}\n", e)),
    }
    if let Some(p) = v["reference_expansion"].as_str() {
        rep.push_str(&format!("hand-expanded program:\n{}\n", p));
        let b = assemble(p);
        match &b {
            Ok(x) => rep.push_str(&format!("-> accepted: {:?}\n", x.code)),
            Err(e) => rep.push_str(&format!("-> rejected: {}\n", e)),
        }
        return match (a, b) {
            (Ok(x), Ok(y)) if x.code == y.code && x.data == y.data && maps_of(&x) == maps_of(&y) => Ok(rep),
            (Err(_), Err(_)) => Ok(rep),
            _ => Err(rep),
        };
    }
    rep.push_str(&format!("reference: must be rejected ({})\n", v["reference_error"].as_str().unwrap_or("?")));
    match a {
        Err(e) if !e.starts_with("PANIC") => Ok(rep),
        _ => Err(rep),
    }
}
