//! C04 -- every operand form resolves to the architecturally correct location.
use crate::common::*;
use crate::l1::*;

pub fn run(ctx: &Ctx) {
    ctx.set_rule("proptest-generated single instructions (MOV loads/stores of both widths, read-modify-write ADD/SUB/XOR/OR/NOT, XCHG, LEA) over all 5 addressing shapes x {no override, ES, CS, SS, DS} x {BX,BP} x {SI,DI} x displacement (none, 0, +-1, 7FFFh, -8000h, 8000h..FFFFh, random) and data-label operands with run-time DS != 0; registers/segments are constructed so that offset sums land on FFFEh/FFFFh/0/1 and physical addresses on FFFFEh..100001h; memory holds a position dependent pattern and all 1 MiB is compared, so a wrong cell is a wrong value. Non-trivial = memory or label operand (offset wrap, physical wrap, negative displacement, BP default segment, override, word straddling 2^20 are counted as classes).");
    ctx.assume("reference EA: 16-bit wrapping sum of base/index/displacement, SS default iff BP is the base, override replaces it, physical = (seg*16+off) mod 2^20, word = bytes at phys and phys+1 mod 2^20");
    ctx.set_exhaustive(false);
    let n = ctx.tier.pick(400_000u32, 6_000_000u32);
    run_forms_n(ctx, FormSet::Addressing, n, "Addressing");
    crate::l3fam::run(ctx, crate::l3fam::Fam::Set(FormSet::Addressing), ctx.tier.pick(320usize, 6000usize));
    if ctx.tier == Tier::Thorough {
        crate::fuzzrun::exec_campaign(ctx, &["mov", "lea", "xchg", "add", "sub", "xor", "or", "not"], &[]);
    }
    for c in [
        "shape/direct", "shape/indirect", "shape/based", "shape/indexed", "shape/based-indexed",
        "override/none", "override/es", "override/cs", "override/ss", "override/ds",
        "ea/phys-wrap", "ea/word-straddles-2^20", "ea/offset-top", "ea/bp-default-ss", "ea/negative-disp", "operand/label",
    ] {
        ctx.require_class(c, 20);
    }
}
