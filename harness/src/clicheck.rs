//! Common driver for checks whose cases are evaluated by child processes: generate N values
//! with proptest, evaluate them in parallel, shrink the first failing one sequentially.
#![allow(dead_code)]
use crate::common::*;
use crate::pt;
use proptest::strategy::Strategy;
use rayon::prelude::*;
use serde_json::Value;

pub enum CaseOutcome {
    Pass { nontrivial: bool, classes: Vec<String>, digest: u64 },
    Known(String),
    Fail { key: String, what: String, replay: Value },
    /// watchdog, spawn problem: never a violation
    Inconclusive(String),
}

/// Evaluate `n` generated cases. `mk` builds the strategy (called on the generating thread
/// and again for shrinking).  `eval` must be a pure function of the value.
pub fn run_cases<S, M, F>(ctx: &Ctx, name: &str, n: usize, mk: M, eval: F, sample: impl Fn(&S::Value) -> Value)
where
    S: Strategy,
    S::Value: Clone + Send + Sync + std::fmt::Debug,
    M: Fn() -> S,
    F: Fn(&S::Value) -> CaseOutcome + Sync,
{
    let seed = ctx.sub_seed(name, 0);
    let strat = mk();
    let values = pt::generate(seed, n, &strat);
    // children are forked (resource limits are set between fork and exec): fork copies the page tables, so memory
    // that earlier in-process parts freed but the allocator kept is given back first
    unsafe {
        libc::malloc_trim(0);
    }
    let outcomes: Vec<CaseOutcome> = values.par_iter().map(|v| eval(v)).collect();
    let mut first_fail: Option<usize> = None;
    let mut local = Local::default();
    for (i, o) in outcomes.iter().enumerate() {
        local.evals += 1;
        match o {
            CaseOutcome::Pass { nontrivial, classes, digest } => {
                for c in classes {
                    local.class(c);
                }
                if *nontrivial {
                    local.digests.push(*digest);
                }
            }
            CaseOutcome::Known(k) => local.known(k),
            CaseOutcome::Fail { .. } => {
                if first_fail.is_none() {
                    first_fail = Some(i);
                }
            }
            CaseOutcome::Inconclusive(why) => {
                ctx.inconclusive(&format!("{} case {}: {}", name, i, why));
            }
        }
    }
    local.class(&format!("{}/cases", name));
    *local.classes.get_mut(&format!("{}/cases", name)).unwrap() = n as u64;
    local.merge_into(ctx);
    for v in values.iter().take(2) {
        ctx.sample(sample(v));
    }
    // report every distinct failure key (unshrunk) except the first, which is shrunk
    let mut seen: std::collections::BTreeSet<String> = Default::default();
    if let Some(i) = first_fail {
        let key0 = match &outcomes[i] {
            CaseOutcome::Fail { key, .. } => key.clone(),
            _ => unreachable!(),
        };
        // a failure that takes seconds to evaluate (a child that had to be killed) gets a small shrinking budget
        let t_eval = std::time::Instant::now();
        let _ = eval(&values[i]);
        let budget = if t_eval.elapsed().as_millis() > 3000 { 6 } else { 120 };
        let shrunk = pt::shrink_nth(seed, i, &mk(), |v| matches!(eval(v), CaseOutcome::Fail { key, .. } if key == key0), budget);
        match eval(&shrunk) {
            CaseOutcome::Fail { key, what, replay } => {
                seen.insert(key.clone());
                ctx.fail(Failure { key, what: format!("[{} case {} shrunk] {}", name, i, what), replay });
            }
            _ => {
                // shrinking lost the failure (should not happen): report the original
                if let CaseOutcome::Fail { key, what, replay } = &outcomes[i] {
                    seen.insert(key.clone());
                    ctx.fail(Failure { key: key.clone(), what: format!("[{} case {}] {}", name, i, what), replay: replay.clone() });
                }
            }
        }
    }
    for (i, o) in outcomes.iter().enumerate() {
        if let CaseOutcome::Fail { key, what, replay } = o {
            if !seen.contains(key) {
                seen.insert(key.clone());
                ctx.fail(Failure { key: key.clone(), what: format!("[{} case {}] {}", name, i, what), replay: replay.clone() });
            }
        }
    }
}

/// replay of a CLI case: re-run the binary, show the output, compare with the stored
/// expectations (expected_events as Debug strings, forbid/require substrings)
pub fn replay(v: &Value) -> Result<String, String> {
    use crate::cli::*;
    let src = v.get("source").and_then(|x| x.as_str()).ok_or("no source")?;
    let stdin = v.get("stdin").and_then(|x| x.as_str()).unwrap_or("");
    let interpreted = v.get("interpreted").and_then(|x| x.as_bool()).unwrap_or(false);
    let closed = v.get("stdin_closed").and_then(|x| x.as_bool()).unwrap_or(stdin.is_empty());
    // "binary":"unoptimised" = the emulator in cargo's default profile (arithmetic overflow checks on), built by ./check
    let bin = if v.get("binary").and_then(|x| x.as_str()) == Some("unoptimised") { CLI_DEBUG_BIN } else { CLI_BIN };
    if !std::path::Path::new(bin).exists() {
        return Err(format!("{} is not built (run ./check setup)", bin));
    }
    let out = run_bin_limited(bin, src.as_bytes(), if closed { Stdin::Closed } else { Stdin::Data(stdin.as_bytes()) }, interpreted, 8 << 20, 60_000, DEFAULT_LIMITS);
    let mut rep = format!("source:\n{}\n--- stdin: {:?}\n--- status: {:?}\n--- stdout:\n{}\n--- stderr:\n{}\n", src, stdin, out.status, out.out_str(), out.err_str());
    let mut ok = out.clean() || v.get("allow_abnormal").and_then(|x| x.as_bool()).unwrap_or(false);
    if !ok {
        rep.push_str("abnormal exit\n");
    }
    if let Some(exp) = v.get("expected_events").and_then(|x| x.as_array()) {
        let blank = v.get("blank_line_numbers").and_then(|x| x.as_bool()).unwrap_or(false);
        match crate::progs::tokenize(&out.stdout) {
            Ok(t) => {
                let t = if blank { crate::c17::blank_lines(&t) } else { t };
                let t: Vec<crate::progs::Ev> = if v.get("drop_prompt_chatter").and_then(|x| x.as_bool()).unwrap_or(false) {
                    t.into_iter().filter(|e| !matches!(e, crate::progs::Ev::About(_) | crate::progs::Ev::TrapNote | crate::progs::Ev::Prompt | crate::progs::Ev::Int3(_))).collect()
                } else {
                    t
                };
                let any_report = v.get("refusal_any").and_then(|x| x.as_bool()).unwrap_or(false);
                let t: Vec<crate::progs::Ev> = if any_report { t.into_iter().map(|e| if e == crate::progs::Ev::Invalid { crate::progs::Ev::PrintRefused } else { e }).collect() } else { t };
                // flag dumps whose undefined bits are not compared: both sides are shown with those bits cleared
                let masks: Vec<u16> = v.get("flag_masks").and_then(|x| x.as_array()).map(|a| a.iter().map(|m| m.as_u64().unwrap_or(0) as u16).collect()).unwrap_or_default();
                let mask_ev = |i: usize, e: &crate::progs::Ev| -> String {
                    match (e, masks.get(i)) {
                        (crate::progs::Ev::Flags(f), Some(m)) if *m != 0 => format!("{:?}", crate::progs::Ev::Flags(f & !m)),
                        _ => format!("{:?}", e),
                    }
                };
                let obs: Vec<String> = t.iter().enumerate().map(|(i, e)| mask_ev(i, e)).collect();
                let exp: Vec<String> = exp
                    .iter()
                    .enumerate()
                    .map(|(i, e)| {
                        let s = e.as_str().unwrap_or("").to_string();
                        match (s.strip_prefix("Flags(").and_then(|r| r.strip_suffix(')')).and_then(|n| n.parse::<u16>().ok()), masks.get(i)) {
                            (Some(f), Some(m)) if *m != 0 => format!("{:?}", crate::progs::Ev::Flags(f & !m)),
                            _ => s,
                        }
                    })
                    .collect();
                if obs != exp {
                    ok = false;
                    for i in 0..obs.len().max(exp.len()) {
                        if obs.get(i) != exp.get(i) {
                            rep.push_str(&format!("event {}: expected {:?} observed {:?}\n", i, exp.get(i), obs.get(i)));
                            break;
                        }
                    }
                }
            }
            Err(e) => {
                ok = false;
                rep.push_str(&format!("output not parsable: {}\n", e));
            }
        }
    }
    if let Some(f) = v.get("forbid").and_then(|x| x.as_array()) {
        for s in f {
            if let Some(s) = s.as_str() {
                if out.out_str().contains(s) || out.err_str().contains(s) {
                    ok = false;
                    rep.push_str(&format!("forbidden text present: {:?}\n", s));
                }
            }
        }
    }
    if let Some(pfx) = v.get("forbid_prefix").and_then(|x| x.as_str()) {
        if out.out_str().starts_with(pfx) {
            ok = false;
            rep.push_str(&format!("output starts with forbidden {:?}\n", pfx));
        }
    }
    if let Some(f) = v.get("require").and_then(|x| x.as_array()) {
        for s in f {
            if let Some(s) = s.as_str() {
                if !out.out_str().contains(s) {
                    ok = false;
                    rep.push_str(&format!("required text missing: {:?}\n", s));
                }
            }
        }
    }
    if ok {
        Ok(rep)
    } else {
        Err(rep)
    }
}

thread_local! {
    static EXPENSIVE: std::cell::Cell<bool> = std::cell::Cell::new(false);
}
/// called by an evaluation that had to wait seconds for a failing child process: shrinking such a
/// failure gets a small, fixed number of further evaluations
pub fn mark_expensive() {
    EXPENSIVE.with(|e| e.set(true));
}

/// In-process counterpart of `run_cases`: `total` generated cases in 16 proptest shards under
/// rayon; the first failure of a shard is shrunk by proptest (keeping the failure key) and
/// reported.  `eval` must be a pure function of the value.
pub fn run_inproc<S, M, F>(ctx: &Ctx, name: &str, total: u32, mk: M, eval: F, sample: impl Fn(&S::Value) -> Value)
where
    S: Strategy,
    S::Value: Clone + Send + std::fmt::Debug,
    M: Fn() -> S + Sync,
    F: Fn(&S::Value) -> CaseOutcome + Sync,
{
    let shards = 16u32;
    let results: Vec<(Local, Vec<String>, Option<S::Value>, Option<Failure>)> = (0..shards)
        .into_par_iter()
        .map(|sh| {
            let local = std::cell::RefCell::new(Local::default());
            let inconc = std::cell::RefCell::new(Vec::new());
            let first_key: std::cell::RefCell<Option<String>> = std::cell::RefCell::new(None);
            let first_fail: std::cell::RefCell<Option<Failure>> = std::cell::RefCell::new(None);
            // evaluations still allowed while shrinking (a fixed amount of work; failures that cost a
            // child process per evaluation get a small budget, see mark_expensive)
            let budget = std::cell::Cell::new(u32::MAX);
            let strat = mk();
            let r = pt::run(ctx.sub_seed(name, sh as u64), (total / shards).max(1), &strat, |v, counting| {
                if !counting {
                    if budget.get() == 0 {
                        return Ok(());
                    }
                    budget.set(budget.get() - 1);
                }
                EXPENSIVE.with(|e| e.set(false));
                let o = eval(v);
                if counting && matches!(o, CaseOutcome::Fail { .. }) {
                    budget.set(if EXPENSIVE.with(|e| e.get()) { 16 } else { 600 });
                }
                match o {
                    CaseOutcome::Pass { nontrivial, classes, digest } => {
                        if counting {
                            let mut l = local.borrow_mut();
                            l.evals += 1;
                            for c in &classes {
                                l.class(c);
                            }
                            if nontrivial {
                                l.digests.push(digest);
                            }
                        }
                        Ok(())
                    }
                    CaseOutcome::Known(k) => {
                        if counting {
                            let mut l = local.borrow_mut();
                            l.evals += 1;
                            l.known(&k);
                        }
                        Ok(())
                    }
                    CaseOutcome::Inconclusive(w) => {
                        if counting {
                            inconc.borrow_mut().push(w);
                        }
                        Ok(())
                    }
                    CaseOutcome::Fail { key, what, replay } => {
                        let mut fk = first_key.borrow_mut();
                        match &*fk {
                            None => {
                                // kept as observed: if the failure depends on what this thread processed before, the
                                // shrunk case may not fail again on its own and this one is what gets reported
                                *first_fail.borrow_mut() = Some(Failure { key: key.clone(), what: what.clone(), replay });
                                *fk = Some(key);
                                Err(what)
                            }
                            Some(k0) if *k0 == key => Err(what),
                            // a different failure met while shrinking: not the one being minimised
                            Some(_) => Ok(()),
                        }
                    }
                }
            });
            (local.into_inner(), inconc.into_inner(), r.map(|(v, _)| v), first_fail.into_inner())
        })
        .collect();
    let mut n = 0u64;
    for (sh, (l, inc, fail, first)) in results.into_iter().enumerate() {
        n += l.evals;
        l.merge_into(ctx);
        for w in inc {
            ctx.inconclusive(&format!("{} shard {}: {}", name, sh, w));
        }
        if let Some(v) = fail {
            match eval(&v) {
                CaseOutcome::Fail { key, what, replay } => ctx.fail(Failure { key, what: format!("[{} shard {} shrunk] {}", name, sh, what), replay }),
                _ => match first {
                    // the failure needs the history of its thread (state kept outside the objects handed to the code under
                    // test): the case as first observed is reported, unshrunk
                    Some(f) => ctx.fail(Failure { key: f.key, what: format!("[{} shard {}, as first observed; it does not fail again in isolation, so it depends on what the thread had processed before] {}", name, sh, f.what), replay: f.replay }),
                    None => ctx.harness_error(&format!("{} shard {}: shrunk case no longer fails (non-deterministic evaluation?)", name, sh)),
                },
            }
        }
    }
    ctx.class(&format!("{}/cases", name), n);
    let ex = pt::generate(ctx.sub_seed(name, 999), 2, &mk());
    for v in &ex {
        ctx.sample(sample(v));
    }
}
