//! Lock-step execution of straight-line instruction sequences against the machine model,
//! and the push/pop histories of C05.
#![allow(dead_code)]
use crate::asm::*;
use crate::common::*;
use crate::emu::*;
use crate::l1::*;
use crate::machine::*;
use crate::pipeline::*;
use crate::pt;
use crate::refmodel::*;
use emulator_8086_lib::VM;
use proptest::prelude::*;
use rayon::prelude::*;
use serde_json::{json, Value};

/// all bytes that differ from the template, memory left as it is
pub fn diff_keep(vm: &VM) -> Vec<(u32, u8)> {
    let t = &bgmem().template;
    let mut out = Vec::new();
    const CH: usize = 4096;
    for c in 0..(MB / CH) {
        let s = c * CH;
        if vm.mem[s..s + CH] != t[s..s + CH] {
            for i in s..s + CH {
                if vm.mem[i] != t[i] {
                    out.push((i as u32, vm.mem[i]));
                }
            }
        }
    }
    out
}

pub fn restore(vm: &mut VM, diff: &[(u32, u8)]) {
    let t = &bgmem().template;
    for (a, _) in diff {
        vm.mem[*a as usize] = t[*a as usize];
    }
}

#[derive(Clone, Debug)]
pub struct Seq {
    pub insns: Vec<Insn>,
    pub regs: Regs,
    pub choices: Vec<u8>,
    pub label_off: u16,
}

pub fn seq_source(s: &Seq) -> (String, Vec<(String, u16)>) {
    let mut src = String::new();
    let mut labels = Vec::new();
    if s.insns.iter().any(|i| i.label_operand().is_some()) {
        if s.label_off > 0 {
            src.push_str(&format!("db [{}]\n", s.label_off));
        }
        src.push_str(&format!("{}: dw 0\n", LBL));
        labels.push((LBL.to_string(), s.label_off));
    }
    let mut ch = Choices::new(s.choices.clone());
    src.push_str("start:");
    for i in &s.insns {
        src.push_str(&sep_line(&mut ch));
        src.push_str(&render_insn(i, &mut ch, &labels));
    }
    src.push('\n');
    (src, labels)
}

fn sep_line(ch: &mut Choices) -> String {
    match ch.next() % 4 {
        0 | 1 => "\n".to_string(),
        2 => " ".to_string(),
        _ => "\n\n\t".to_string(),
    }
}

pub fn seq_to_json(s: &Seq) -> Value {
    json!({"insns": s.insns.iter().map(insn_to_json).collect::<Vec<_>>(), "regs": s.regs.to_json(), "choices": s.choices, "label_off": s.label_off})
}
pub fn seq_from_json(v: &Value) -> Seq {
    Seq {
        insns: v["insns"].as_array().map(|a| a.iter().map(insn_from_json).collect()).unwrap_or_default(),
        regs: Regs::from_json(&v["regs"]),
        choices: v["choices"].as_array().map(|a| a.iter().map(|x| x.as_u64().unwrap_or(0) as u8).collect()).unwrap_or_default(),
        label_off: v["label_off"].as_u64().unwrap_or(0) as u16,
    }
}

pub enum SeqVerdict {
    Pass { steps: usize },
    Rejected(String),
    Known(&'static str),
    Fail { step: usize, aspect: String, detail: String, replay: Value },
}

/// run a straight-line sequence in lock step with the model
pub fn run_seq(wk: &mut Worker, s: &Seq, openq: &Quirks) -> SeqVerdict {
    let (src, labels) = seq_source(s);
    let mut asm = match assemble(&src) {
        Ok(a) => a,
        Err(e) => {
            if e.starts_with("PANIC") {
                return SeqVerdict::Fail { step: 0, aspect: "assembler-panic".into(), detail: e, replay: json!({"kind":"seq","source":src,"pre_regs":s.regs.to_json()}) };
            }
            return SeqVerdict::Rejected(e);
        }
    };
    let start = asm.code_label("start").unwrap_or(0);
    if asm.code.len() != start + s.insns.len() {
        return SeqVerdict::Fail {
            step: 0,
            aspect: "emitted-count".into(),
            detail: format!("{} source instructions produced {} lines", s.insns.len(), asm.code.len() - start),
            replay: json!({"kind":"seq","source":src,"pre_regs":s.regs.to_json()}),
        };
    }
    let mut mach = Machine::new(s.regs);
    load(&mut wk.vm, &s.regs);
    let mut used_known: Option<&'static str> = None;
    let mut result = SeqVerdict::Pass { steps: s.insns.len() };
    for (k, insn) in s.insns.iter().enumerate() {
        let idx = start + k;
        let line = asm.code[idx].clone();
        let env = Env { data_labels: &labels, current: idx, string_straddle_both: true };
        let accept = mach.exec(insn, &env, &Quirks::none());
        let cap = wk.vm.arch.cx as u32 + 2;
        let mut iters = 0;
        let mut out;
        loop {
            out = step(&mut wk.vm, &mut asm.ictx, idx, &line);
            iters += 1;
            if out != StepOut::State(St::Repeat) || iters > cap {
                break;
            }
        }
        let obs_regs = snap(&wk.vm);
        let obs_mem = diff_keep(&wk.vm);
        let obs_stack = asm.ictx.call_stack.clone();
        let mut matched: Option<Expect> = None;
        let mut first: Option<(String, String)> = None;
        for e in &accept {
            match compare(e, &obs_regs, &out, &obs_mem, &obs_stack, &asm) {
                None => {
                    matched = Some(e.clone());
                    break;
                }
                Some(d) => {
                    if first.is_none() {
                        first = Some(d);
                    }
                }
            }
        }
        if matched.is_none() && openq.any() {
            if let Some(kq) = quirk_key_for_insn(insn) {
                for e in mach.exec(insn, &env, openq) {
                    if compare(&e, &obs_regs, &out, &obs_mem, &obs_stack, &asm).is_none() {
                        matched = Some(e);
                        used_known = Some(kq);
                        break;
                    }
                }
            }
        }
        match matched {
            Some(e) => {
                mach.regs = obs_regs;
                mach.mem = e.mem;
                mach.call_stack = e.call_stack;
                if e.outcome != Outcome::Next {
                    // straight-line sequences stop at anything that is not NEXT
                    result = SeqVerdict::Pass { steps: k + 1 };
                    break;
                }
            }
            None => {
                let (aspect, detail) = first.unwrap_or(("none".into(), "".into()));
                let aspect = if let StepOut::Panic(_) = out { "panic".to_string() } else if let StepOut::Err(_) = out { "interp-reject".to_string() } else { aspect };
                result = SeqVerdict::Fail {
                    step: k,
                    aspect,
                    detail: format!("step {} '{}': {} (observed outcome {:?})", k, line, detail, out),
                    replay: json!({"kind":"seq","seq":seq_to_json(s),"source":src,"pre_regs":s.regs.to_json(),"failing_step":k,"line":line}),
                };
                break;
            }
        }
    }
    let d = diff_keep(&wk.vm);
    restore(&mut wk.vm, &d);
    if let SeqVerdict::Pass { .. } = result {
        if let Some(k) = used_known {
            return SeqVerdict::Known(k);
        }
    }
    result
}

fn stack_op_s() -> BoxedStrategy<Insn> {
    let popseg = proptest::sample::select(vec![Seg::ES, Seg::DS, Seg::SS]);
    let nosp = proptest::sample::select(vec![R16::AX, R16::BX, R16::CX, R16::DX, R16::BP, R16::SI, R16::DI]);
    prop_oneof![
        4 => nosp.clone().prop_map(|r| Insn::new("push", vec![Opd::R16(r)])),
        1 => segs().prop_map(|s| Insn::new("push", vec![Opd::Sr(s)])),
        1 => mem_s().prop_map(|m| Insn::new("push", vec![Opd::Mem(W::W, m)])),
        1 => Just(Insn::new("push", vec![Opd::Lab(W::W, LBL.to_string())])),
        1 => Just(Insn::new("pushf", vec![])),
        4 => nosp.clone().prop_map(|r| Insn::new("pop", vec![Opd::R16(r)])),
        1 => popseg.prop_map(|s| Insn::new("pop", vec![Opd::Sr(s)])),
        1 => mem_s().prop_map(|m| Insn::new("pop", vec![Opd::Mem(W::W, m)])),
        1 => Just(Insn::new("pop", vec![Opd::Lab(W::W, LBL.to_string())])),
        1 => Just(Insn::new("popf", vec![])),
        2 => (nosp, pt::u16s()).prop_map(|(r, v)| Insn::new("mov", vec![Opd::R16(r), Opd::Imm(v, ImmKind::SW)])),
    ]
    .boxed()
}

fn seq_s() -> BoxedStrategy<Seq> {
    (proptest::collection::vec(stack_op_s(), 0..40), regs_s(), 0u8..8, choices_s(64), label_off_s())
        .prop_map(|(insns, mut regs, spc, choices, label_off)| {
            match spc {
                1 => regs.r[SP] = 2,
                2 => regs.r[SP] = 0xFFFC,
                3 => {
                    regs.r[SS] = 0xFFFF;
                    regs.r[SP] = 0x0014;
                }
                4 => regs.r[SS] = 0,
                5 => regs.r[SP] = 0x0100,
                _ => {}
            }
            Seq { insns, regs, choices, label_off }
        })
        .boxed()
}

fn deep_pop(insns: &[Insn]) -> bool {
    let mut st: Vec<usize> = Vec::new();
    for (i, x) in insns.iter().enumerate() {
        match x.mn {
            "push" | "pushf" => st.push(i),
            "pop" | "popf" => {
                if let Some(p) = st.pop() {
                    if i >= p + 2 {
                        return true;
                    }
                }
            }
            _ => {}
        }
    }
    false
}

pub fn run_stack_histories(ctx: &Ctx) {
    let openq = Quirks::from_keys(|k| ctx.quirk_open(k));
    let total: u32 = ctx.tier.pick(24_000, 400_000);
    let shards = 16u32;
    let results: Vec<(Local, Option<(Seq, String)>)> = (0..shards)
        .into_par_iter()
        .map(|sh| {
            let wk = std::cell::RefCell::new(Worker::new());
            let local = std::cell::RefCell::new(Local::default());
            let strat = seq_s();
            let r = pt::run(ctx.sub_seed("stack-histories", sh as u64), total / shards, &strat, |s, counting| {
                let v = run_seq(&mut wk.borrow_mut(), s, &openq);
                let mut l = local.borrow_mut();
                match v {
                    SeqVerdict::Pass { steps } => {
                        if counting {
                            l.evals += 1;
                            l.class("history/pass");
                            *l.classes.entry("history/steps".into()).or_insert(0) += steps as u64;
                            if deep_pop(&s.insns) {
                                l.class("history/pop-of-older-push");
                                l.digests.push(fnv_str(&seq_source(s).0) ^ s.regs.r[SP] as u64);
                            }
                            if s.regs.r[SS] != 0 {
                                l.class("history/ss-nonzero");
                            }
                        }
                        Ok(())
                    }
                    SeqVerdict::Rejected(_) => {
                        if counting {
                            l.evals += 1;
                            l.class("history/assembler-rejected");
                        }
                        Ok(())
                    }
                    SeqVerdict::Known(k) => {
                        if counting {
                            l.evals += 1;
                            l.known(k);
                        }
                        Ok(())
                    }
                    SeqVerdict::Fail { aspect, detail, .. } => Err(format!("{}|{}", aspect, detail)),
                }
            });
            (local.into_inner(), r)
        })
        .collect();
    for (sh, (l, fail)) in results.into_iter().enumerate() {
        l.merge_into(ctx);
        if let Some((s, _)) = fail {
            let mut wk = Worker::new();
            if let SeqVerdict::Fail { step, aspect, detail, replay } = run_seq(&mut wk, &s, &openq) {
                ctx.fail(Failure {
                    key: format!("seq|{}|{}", s.insns.get(step).map(|i| i.mn).unwrap_or("?"), aspect),
                    what: format!("[stack history shard {}] {} instruction(s), {}", sh, s.insns.len(), detail),
                    replay,
                });
            }
        }
    }
    ctx.require_class("history/pass", 100);
    ctx.require_class("history/pop-of-older-push", 50);
    let ex = pt::generate(ctx.sub_seed("stack-histories", 999), 2, &seq_s());
    for s in ex {
        ctx.sample(json!({"kind":"stack-history","source":seq_source(&s).0,"regs":s.regs.to_json()}));
    }
}

/// replay of a stored sequence: re-run and report (uses the model again -- the source is
/// re-parsed only by the implementation, so the stored failing step is what is shown)
pub fn replay(v: &Value) -> Result<String, String> {
    if v.get("seq").is_some() {
        let s = seq_from_json(&v["seq"]);
        let mut wk = Worker::new();
        let src = seq_source(&s).0;
        return match run_seq(&mut wk, &s, &Quirks::none()) {
            SeqVerdict::Pass { steps } => Ok(format!("source {:?}: {} step(s) agree with the reference model", src, steps)),
            SeqVerdict::Rejected(e) => Ok(format!("source {:?}: rejected by the assembler: {}", src, e)),
            SeqVerdict::Known(k) => Err(format!("known finding {}", k)),
            SeqVerdict::Fail { aspect, detail, .. } => Err(format!("{}: {}", aspect, detail)),
        };
    }
    let src = v.get("source").and_then(|x| x.as_str()).ok_or("no source")?;
    let regs = Regs::from_json(v.get("pre_regs").ok_or("no regs")?);
    let mut asm = assemble(src).map_err(|e| format!("assembler: {}", e))?;
    let start = asm.code_label("start").ok_or("no start")?;
    let mut wk = Worker::new();
    load(&mut wk.vm, &regs);
    let mut rep = format!("source {:?}\n", src);
    let fs = v.get("failing_step").and_then(|x| x.as_u64()).unwrap_or(u64::MAX) as usize;
    let mut bad = false;
    for idx in start..asm.code.len() {
        let line = asm.code[idx].clone();
        let out = step(&mut wk.vm, &mut asm.ictx, idx, &line);
        rep.push_str(&format!("  [{}] {:<28} -> {:?} {}\n", idx - start, line, out, snap(&wk.vm).to_json()));
        if idx - start == fs {
            rep.push_str("  ^ recorded failing step (expected values are in the 'what' field of the replay file)\n");
            bad = true;
            break;
        }
        if !matches!(out, StepOut::State(St::Next)) {
            break;
        }
    }
    if bad {
        Err(rep)
    } else {
        Ok(rep)
    }
}
