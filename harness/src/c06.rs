//! C06 -- conditional jumps and LOOPs are taken exactly under the 8086 condition.
use crate::common::*;
use crate::emu::*;
use crate::pipeline::*;
use crate::refmodel::*;
use emulator_8086_lib::VM;
use rayon::prelude::*;
use serde_json::json;

/// regs used as the untouched background
fn base() -> Regs {
    let mut r = Regs::default();
    r.r = [
        0xA1B2, 0xC3D4, 0x0005, 0xE5F6, 0x0100, 0x0200, 0x0300, 0x0400, 0xFFFF, 0x0010, 0x0020, 0x0030,
        0, 0x0007,
    ];
    r
}

struct Prog {
    asm: Assembled,
    /// (index, line, target label index) for the forward and the backward jump
    fwd: (usize, String, usize),
    back: (usize, String, usize),
}

fn build(spelling: &str) -> Result<Prog, String> {
    let src = format!("back: stc\nstart: {} fwd\n{} back\nfwd: hlt\n", spelling, spelling);
    let asm = assemble(&src).map_err(|e| format!("assembler rejected '{}': {}", src.replace('\n', "\\n"), e))?;
    if asm.code.len() != 4 {
        return Err(format!("expected 4 emitted lines for '{}', got {:?}", spelling, asm.code));
    }
    let f = asm.code_label("fwd").ok_or("no fwd")?;
    let b = asm.code_label("back").ok_or("no back")?;
    if f != 3 || b != 0 {
        return Err(format!("labels resolve to fwd={} back={} (expected 3, 0)", f, b));
    }
    let fl = asm.code[1].clone();
    let bl = asm.code[2].clone();
    Ok(Prog { asm, fwd: (1, fl, f), back: (2, bl, b) })
}

pub fn run(ctx: &Ctx) {
    ctx.set_rule("every jump spelling of the source grammar (31 Jcc/JMP spellings + JCXZ + 5 LOOP spellings, lower and upper case) is assembled through the Preprocessor (forward and backward target) and the emitted line executed by the Interpreter under every one of the 2^16 flag words (Jcc) / every CX x ZF (JCXZ, LOOPx); enumerated points are distinct by construction;; every ordered pair of spellings (second one in both cases) assembled adjacent, with a label in between and after a CMP: the second must be emitted exactly as when it stands alone; L3 family programs incl. conditional jumps that close a loop counted by a byte in memory (registers and often the flags identical each time the jump is taken) non-trivial = flag word on which the predicate differs from its value on F000h, or CX in {0,1,2,FFFF}");
    ctx.assume("predicate table written by hand from the 8086 manual (refmodel::jcc_predicate)");
    ctx.set_exhaustive(true);
    let openq = Quirks::from_keys(|k| ctx.is_open(k));
    let mut spellings: Vec<String> = Vec::new();
    for s in JCC_SPELLINGS {
        spellings.push(s.to_string());
        spellings.push(s.to_uppercase());
    }
    // outcome bitmaps per lower-case spelling for the relation checks
    let results: Vec<(String, Result<(Vec<bool>, Local, Option<Failure>, u64), String>)> = spellings
        .par_iter()
        .map(|sp| {
            let r = (|| -> Result<(Vec<bool>, Local, Option<Failure>, u64), String> {
                let mut prog = build(sp)?;
                let lower = sp.to_lowercase();
                let mut vm = VM::new();
                let mut local = Local::default();
                let mut taken = vec![false; 65536];
                let mut fail: Option<Failure> = None;
                let mut known = 0u64;
                let base_pred = jcc_predicate(&lower, 0xF000, &Quirks::none()).unwrap();
                for dir in 0..2 {
                    let (idx, line, target) = if dir == 0 { prog.fwd.clone() } else { prog.back.clone() };
                    for fw in 0..=0xFFFFu32 {
                        let fw = fw as u16;
                        let mut pre = base();
                        pre.r[FLAGS] = fw;
                        load(&mut vm, &pre);
                        let out = step(&mut vm, &mut prog.asm.ictx, idx, &line);
                        local.evals += 1;
                        let want = jcc_predicate(&lower, fw, &Quirks::none()).unwrap();
                        if want != base_pred {
                            local.nontrivial += 1;
                        }
                        let exp = if want { St::Jmp(target) } else { St::Next };
                        let obs = snap(&vm);
                        let ok = out == StepOut::State(exp) && obs == pre;
                        if dir == 0 {
                            taken[fw as usize] = matches!(out, StepOut::State(St::Jmp(_)));
                        }
                        if !ok {
                            // known quirk?
                            if openq.jle_and && (lower == "jle" || lower == "jng") && obs == pre {
                                let w2 = jcc_predicate(&lower, fw, &openq).unwrap();
                                let e2 = if w2 { St::Jmp(target) } else { St::Next };
                                if out == StepOut::State(e2) {
                                    known += 1;
                                    continue;
                                }
                            }
                            if fail.is_none() {
                                let aspect = if obs != pre { "state-changed" } else { "outcome" };
                                fail = Some(Failure {
                                    key: format!("jcc|{}|{}", lower, aspect),
                                    what: format!("'{}' (emitted '{}') with flags={:04X}: expected {:?} and unchanged registers, observed {:?}{}", sp, line, fw, exp, out,
                                        if obs != pre { format!("; {}", pre.diff(&obs).join("; ")) } else { String::new() }),
                                    replay: json!({"kind":"jcc","spelling":sp,"flags":fw,"cx":pre.r[CX],"dir":dir}),
                                });
                            }
                        }
                    }
                }
                if !mem_all_zero(&vm) {
                    fail = Some(Failure {
                        key: format!("jcc|{}|memory-write", lower),
                        what: format!("'{}' modified memory", sp),
                        replay: json!({"kind":"jcc","spelling":sp,"flags":0,"cx":5,"dir":0}),
                    });
                }
                Ok((taken, local, fail, known))
            })();
            (sp.clone(), r)
        })
        .collect();
    let mut maps: std::collections::BTreeMap<String, Vec<bool>> = Default::default();
    for (sp, r) in results {
        match r {
            Err(e) => ctx.fail(Failure {
                key: format!("jcc|{}|not-runnable", sp.to_lowercase()),
                what: format!("spelling '{}' cannot be assembled and run: {}", sp, e),
                replay: json!({"kind":"jcc","spelling":sp,"flags":0,"cx":5,"dir":0}),
            }),
            Ok((taken, local, fail, known)) => {
                ctx.class(&format!("jcc/{}", sp), local.evals);
                local.merge_into(ctx);
                if known > 0 {
                    ctx.known_hit(QUIRK_KEYS[3], known);
                }
                if let Some(f) = fail {
                    ctx.fail(f);
                }
                maps.insert(sp, taken);
            }
        }
    }
    // relations, independent of the table
    let syn: [&[&str]; 13] = [
        &["ja", "jnbe"], &["jae", "jnb", "jnc"], &["jb", "jnae", "jc"], &["jbe", "jna"], &["je", "jz"], &["jne", "jnz"],
        &["jg", "jnle"], &["jge", "jnl"], &["jl", "jnge"], &["jle", "jng"], &["jp", "jpe"], &["jnp", "jpo"], &["jmp"],
    ];
    for group in syn.iter() {
        let mut all: Vec<String> = Vec::new();
        for s in group.iter() {
            all.push(s.to_string());
            all.push(s.to_uppercase());
        }
        let first = match maps.get(&all[0]) {
            Some(m) => m,
            None => continue,
        };
        for other in &all[1..] {
            if let Some(m) = maps.get(other) {
                ctx.add_evals(1);
                if let Some(fw) = (0..65536).find(|i| m[*i] != first[*i]) {
                    ctx.fail(Failure {
                        key: format!("jcc|synonym|{}|{}", all[0], other.to_lowercase()),
                        what: format!("synonyms '{}' and '{}' differ on flags={:04X}", all[0], other, fw),
                        replay: json!({"kind":"jcc","spelling":other,"flags":fw,"cx":5,"dir":0}),
                    });
                }
            }
        }
    }
    let comp = [("ja", "jbe"), ("jae", "jb"), ("je", "jne"), ("jg", "jle"), ("jge", "jl"), ("jo", "jno"), ("jp", "jnp"), ("js", "jns")];
    for (a, b) in comp {
        if let (Some(ma), Some(mb)) = (maps.get(a), maps.get(b)) {
            ctx.add_evals(1);
            let bad: Vec<usize> = (0..65536).filter(|i| ma[*i] == mb[*i]).collect();
            if !bad.is_empty() {
                // attributable to the open JLE finding iff jle's map is exactly the quirk model's
                if openq.jle_and && b == "jle" {
                    let model_ok = (0..65536).all(|i| mb[i] == jcc_predicate("jle", i as u16, &openq).unwrap());
                    if model_ok {
                        ctx.known_hit(QUIRK_KEYS[3], bad.len() as u64);
                        continue;
                    }
                }
                ctx.fail(Failure {
                    key: format!("jcc|complement|{}|{}", a, b),
                    what: format!("complementary '{}' and '{}' are both taken or both skipped on {} flag words, first flags={:04X}", a, b, bad.len(), bad[0]),
                    replay: json!({"kind":"jcc","spelling":b,"flags":bad[0],"cx":5,"dir":0}),
                });
            }
        }
    }
    // ---- JCXZ and the LOOP family: every CX x ZF (and two other flag backgrounds)
    let mut lsp: Vec<String> = Vec::new();
    for s in LOOP_SPELLINGS {
        lsp.push(s.to_string());
        lsp.push(s.to_uppercase());
    }
    let flag_bgs: Vec<u16> = vec![0x0000, 0xFFBF, 0xF002, (splitmix(ctx.seed ^ 6) as u16) & !ZF];
    let lres: Vec<(String, Result<(Local, Option<Failure>), String>)> = lsp
        .par_iter()
        .map(|sp| {
            let r = (|| -> Result<(Local, Option<Failure>), String> {
                let mut prog = build(sp)?;
                let lower = sp.to_lowercase();
                let mut vm = VM::new();
                let mut local = Local::default();
                let mut fail: Option<Failure> = None;
                for dir in 0..2 {
                    let (idx, line, target) = if dir == 0 { prog.fwd.clone() } else { prog.back.clone() };
                    for cx in 0..=0xFFFFu32 {
                        let cx = cx as u16;
                        for bgf in &flag_bgs {
                            for z in [0u16, ZF] {
                                let fw = (bgf & !ZF) | z;
                                let mut pre = base();
                                pre.r[FLAGS] = fw;
                                pre.r[CX] = cx;
                                load(&mut vm, &pre);
                                let out = step(&mut vm, &mut prog.asm.ictx, idx, &line);
                                local.evals += 1;
                                if matches!(cx, 0 | 1 | 2 | 0xFFFF) {
                                    local.nontrivial += 1;
                                }
                                let mut exp_regs = pre;
                                let want = match lower.as_str() {
                                    "jcxz" => cx == 0,
                                    _ => {
                                        let n = cx.wrapping_sub(1);
                                        exp_regs.r[CX] = n;
                                        match lower.as_str() {
                                            "loop" => n != 0,
                                            "loope" | "loopz" => n != 0 && z != 0,
                                            _ => n != 0 && z == 0,
                                        }
                                    }
                                };
                                let exp = if want { St::Jmp(target) } else { St::Next };
                                let obs = snap(&vm);
                                if (out != StepOut::State(exp) || obs != exp_regs) && fail.is_none() {
                                    fail = Some(Failure {
                                        key: format!("loop|{}|{}", lower, if obs != exp_regs { "state" } else { "outcome" }),
                                        what: format!("'{}' (emitted '{}') with CX={:04X} flags={:04X}: expected {:?}, observed {:?}; {}", sp, line, cx, fw, exp, out, exp_regs.diff(&obs).join("; ")),
                                        replay: json!({"kind":"jcc","spelling":sp,"flags":fw,"cx":cx,"dir":dir}),
                                    });
                                }
                            }
                        }
                    }
                }
                if !mem_all_zero(&vm) {
                    fail = Some(Failure {
                        key: format!("loop|{}|memory-write", lower),
                        what: format!("'{}' modified memory", sp),
                        replay: json!({"kind":"jcc","spelling":sp,"flags":0,"cx":5,"dir":0}),
                    });
                }
                Ok((local, fail))
            })();
            (sp.clone(), r)
        })
        .collect();
    for (sp, r) in lres {
        match r {
            Err(e) => ctx.fail(Failure {
                key: format!("loop|{}|not-runnable", sp.to_lowercase()),
                what: format!("spelling '{}' cannot be assembled and run: {}", sp, e),
                replay: json!({"kind":"jcc","spelling":sp,"flags":0,"cx":5,"dir":0}),
            }),
            Ok((local, fail)) => {
                ctx.class(&format!("loop/{}", sp), local.evals);
                local.merge_into(ctx);
                if let Some(f) = fail {
                    ctx.fail(f);
                }
            }
        }
    }
    ctx.sample(json!({"spelling":"JNBE","source":"back: stc\\nstart: JNBE fwd\\nJNBE back\\nfwd: hlt","flags":"0000..FFFF","expected":"JMP(3)/JMP(0) iff CF=0 and ZF=0"}));
    ctx.sample(json!({"spelling":"loopne","cx":"0000..FFFF","zf":[0,1],"expected":"CX-=1; jump iff CX!=0 and ZF=0"}));
    // L3: the same instructions inside whole programs through the real driver loop (forward targets, self-targeting
    // LOOPx, counted backward loops), flags established with PUSH/POPF, registers printed afterwards
    crate::l3fam::run(ctx, crate::l3fam::Fam::Jumps, ctx.tier.pick(400usize, 6000usize));
    for c in ["l3/jump/taken", "l3/jump/not-taken", "l3/jump/self-target-repeated", "l3/jump/backward-loop-iterated", "l3/jump/backward-memory-counted-taken-3-times-or-more"] {
        ctx.require_class(c, 10);
    }
    // what is emitted for a jump does not depend on what stands in front of it: every ordered pair of spellings, the
    // second directly behind the first or behind a label that follows the first (it can then be reached from elsewhere),
    // must be emitted exactly as it is when it stands alone -- whose meaning the table above has decided
    {
        let all: Vec<&str> = JCC_SPELLINGS.iter().chain(LOOP_SPELLINGS.iter()).copied().collect();
        let alone = |b: &str| -> Result<String, String> {
            let a = assemble(&format!("start: {} y\nnop\ny: hlt\n", b))?;
            a.code.first().cloned().ok_or_else(|| "nothing emitted".to_string())
        };
        let mut firsts: Vec<Failure> = Vec::new();
        let mut n = 0u64;
        for b0 in &all {
            for b in [b0.to_string(), b0.to_uppercase()] {
                let want = match alone(&b) {
                    Ok(w) => w,
                    Err(_) => continue, // reported above as not runnable
                };
                for a in &all {
                    for (k, src) in [
                        format!("start: {} x\n{} y\nx: nop\ny: hlt\n", a, b),
                        format!("start: {} x\nmid: {} y\nx: nop\ny: hlt\n", a, b),
                        format!("start: cmp ax, bx\n{} x\n  {} y\nx: jmp mid\nmid: nop\ny: hlt\n", a, b),
                    ]
                    .iter()
                    .enumerate()
                    {
                        n += 1;
                        let got = match assemble(src) {
                            Ok(asm) => asm.code.get(if k == 2 { 2 } else { 1 }).cloned().unwrap_or_default(),
                            Err(e) => format!("rejected: {}", e.lines().next().unwrap_or("")),
                        };
                        if got != want && firsts.iter().all(|f| !f.key.ends_with(&format!("|{}", b.to_lowercase()))) {
                            firsts.push(Failure {
                                key: format!("jcc|emission-depends-on-context|{}", b.to_lowercase()),
                                what: format!("'{} y' standing alone is emitted as '{}', behind '{} x'{} as '{}'", b, want, a, ["", " and a label", " (after a cmp)"][k], got),
                                replay: json!({"kind":"jcc-context","source":src,"index": if k == 2 { 2 } else { 1 },"alone":want}),
                            });
                        }
                    }
                }
            }
        }
        ctx.add_evals(n);
        ctx.add_nontrivial(n);
        ctx.class("jcc/emitted-behind-another-jump", n);
        for f in firsts {
            ctx.fail(f);
        }
    }
    // grammar cross-check: every jump/loop terminal in the working tree's grammar is in our table
    crate::grammar::crosscheck_jumps(ctx, &spellings, &lsp);
}

/// replay one point
pub fn replay(v: &serde_json::Value) -> Result<String, String> {
    if v.get("kind").and_then(|x| x.as_str()) == Some("jcc-context") {
        let src = v.get("source").and_then(|x| x.as_str()).ok_or("no source")?;
        let idx = v.get("index").and_then(|x| x.as_u64()).unwrap_or(1) as usize;
        let alone = v.get("alone").and_then(|x| x.as_str()).unwrap_or("");
        let got = match assemble(src) {
            Ok(a) => a.code.get(idx).cloned().unwrap_or_default(),
            Err(e) => format!("rejected: {}", e),
        };
        return if got == alone { Ok(format!("emitted '{}' as when standing alone", got)) } else { Err(format!("emitted '{}', standing alone '{}'", got, alone)) };
    }
    let sp = v.get("spelling").and_then(|x| x.as_str()).ok_or("no spelling")?;
    let fw = v.get("flags").and_then(|x| x.as_u64()).unwrap_or(0) as u16;
    let cx = v.get("cx").and_then(|x| x.as_u64()).unwrap_or(5) as u16;
    let dir = v.get("dir").and_then(|x| x.as_u64()).unwrap_or(0);
    let mut prog = build(sp)?;
    let lower = sp.to_lowercase();
    let (idx, line, target) = if dir == 0 { prog.fwd.clone() } else { prog.back.clone() };
    let mut vm = VM::new();
    let mut pre = base();
    pre.r[FLAGS] = fw;
    pre.r[CX] = cx;
    load(&mut vm, &pre);
    let out = step(&mut vm, &mut prog.asm.ictx, idx, &line);
    let mut exp_regs = pre;
    let want = if let Some(p) = jcc_predicate(&lower, fw, &Quirks::none()) {
        p
    } else if lower == "jcxz" {
        cx == 0
    } else {
        let n = cx.wrapping_sub(1);
        exp_regs.r[CX] = n;
        match lower.as_str() {
            "loop" => n != 0,
            "loope" | "loopz" => n != 0 && fw & ZF != 0,
            _ => n != 0 && fw & ZF == 0,
        }
    };
    let exp = if want { St::Jmp(target) } else { St::Next };
    let obs = snap(&vm);
    let msg = format!("'{}' emitted '{}' flags={:04X} cx={:04X}: expected {:?}, observed {:?} {}", sp, line, fw, cx, exp, out, exp_regs.diff(&obs).join("; "));
    if out == StepOut::State(exp) && obs == exp_regs {
        Ok(msg)
    } else {
        Err(msg)
    }
}
