//! Independent hand-written reader of the emitted line language (the instruction list and the
//! data lines the assembler produces) into a normalised structure, and the normalisation of
//! AST items into the same structure ("what the source says").  Does not use any grammar of
//! the code under test.
#![allow(dead_code)]
use crate::asm::*;
use crate::progs::{DataDecl, DataKind, PrintStmt};

#[derive(Clone, Debug, PartialEq, Eq)]
pub enum NComp {
    Reg(String),
    Num(i64),
}

#[derive(Clone, Debug, PartialEq, Eq)]
pub enum NOp {
    Reg(String),
    Imm(i64),
    Mem { w: Option<W>, seg: Option<String>, comps: Vec<NComp> },
    Lab { w: W, name: String },
    Name(String),
    Wd(W),
}

#[derive(Clone, Debug, PartialEq, Eq)]
pub enum NLine {
    Ins { prefix: Option<String>, mn: String, ops: Vec<NOp> },
    PrintFlags,
    PrintReg,
    PrintRange(i64, i64),
    PrintLen(i64, i64),
    PrintDs(i64),
    Set(i64),
    DataVal { word: bool, v: i64 },
    DataZeros { word: bool, n: i64 },
    DataFill { word: bool, v: i64, n: i64 },
    DataStr { word: bool, s: String },
}

const REGS: [&str; 20] = ["al", "ah", "bl", "bh", "cl", "ch", "dl", "dh", "ax", "bx", "cx", "dx", "sp", "bp", "si", "di", "es", "ds", "ss", "cs"];
const PREFIXES: [&str; 5] = ["rep", "repe", "repz", "repne", "repnz"];

#[derive(Clone, Debug, PartialEq)]
enum Tk {
    Id(String),
    Num(i64),
    P(char),
    Arrow,
    Str(String),
}

fn lex(line: &str) -> Result<Vec<Tk>, String> {
    let b: Vec<char> = line.chars().collect();
    let mut i = 0;
    let mut out = Vec::new();
    while i < b.len() {
        let c = b[i];
        if c.is_whitespace() {
            i += 1;
        } else if c == '"' {
            // string literal: up to the LAST quote of the line
            let last = (0..b.len()).rev().find(|k| b[*k] == '"').unwrap();
            if last == i {
                return Err("unterminated string".into());
            }
            out.push(Tk::Str(b[i + 1..last].iter().collect()));
            i = last + 1;
        } else if c.is_ascii_alphabetic() || c == '_' {
            let s = i;
            while i < b.len() && (b[i].is_ascii_alphanumeric() || b[i] == '_') {
                i += 1;
            }
            out.push(Tk::Id(b[s..i].iter().collect()));
        } else if c.is_ascii_digit() || (c == '-' && i + 1 < b.len() && b[i + 1].is_ascii_digit()) {
            let s = i;
            i += 1;
            let mut radix = 10;
            if c == '0' && i < b.len() && (b[i] == 'x' || b[i] == 'X') {
                radix = 16;
                i += 1;
            } else if c == '0' && i < b.len() && (b[i] == 'b' || b[i] == 'B') && i + 1 < b.len() && (b[i + 1] == '0' || b[i + 1] == '1') {
                radix = 2;
                i += 1;
            }
            let ds = if radix == 10 { s } else { i };
            while i < b.len() && b[i].is_digit(radix) {
                i += 1;
            }
            let txt: String = b[ds..i].iter().collect();
            let v = i64::from_str_radix(&txt, radix).map_err(|e| format!("number {:?}: {}", txt, e))?;
            out.push(Tk::Num(v));
        } else if c == '-' && i + 1 < b.len() && b[i + 1] == '>' {
            out.push(Tk::Arrow);
            i += 2;
        } else if "[],:".contains(c) {
            out.push(Tk::P(c));
            i += 1;
        } else {
            return Err(format!("unexpected character {:?}", c));
        }
    }
    Ok(out)
}

fn is_reg(s: &str) -> bool {
    REGS.contains(&s)
}

struct Rd {
    t: Vec<Tk>,
    p: usize,
}

impl Rd {
    fn peek(&self) -> Option<&Tk> {
        self.t.get(self.p)
    }
    fn next(&mut self) -> Option<Tk> {
        let t = self.t.get(self.p).cloned();
        self.p += 1;
        t
    }
    fn eat_p(&mut self, c: char) -> bool {
        if self.peek() == Some(&Tk::P(c)) {
            self.p += 1;
            true
        } else {
            false
        }
    }
    fn done(&self) -> bool {
        self.p >= self.t.len()
    }

    fn mem(&mut self, w: Option<W>, seg: Option<String>) -> Result<NOp, String> {
        if !self.eat_p('[') {
            return Err("'[' expected".into());
        }
        let mut comps = Vec::new();
        loop {
            match self.next() {
                Some(Tk::Id(s)) if is_reg(&s) => comps.push(NComp::Reg(s)),
                Some(Tk::Num(n)) => comps.push(NComp::Num(n)),
                o => return Err(format!("memory component expected, found {:?}", o)),
            }
            if self.eat_p(',') {
                continue;
            }
            if self.eat_p(']') {
                break;
            }
            return Err("',' or ']' expected".into());
        }
        Ok(NOp::Mem { w, seg, comps })
    }

    fn operand(&mut self) -> Result<NOp, String> {
        match self.next() {
            Some(Tk::Num(n)) => Ok(NOp::Imm(n)),
            Some(Tk::P('[')) => {
                self.p -= 1;
                self.mem(None, None)
            }
            Some(Tk::Id(s)) => {
                if s == "byte" || s == "word" {
                    let w = if s == "byte" { W::B } else { W::W };
                    match self.peek().cloned() {
                        None | Some(Tk::P(',')) => Ok(NOp::Wd(w)),
                        Some(Tk::P('[')) => self.mem(Some(w), None),
                        Some(Tk::Id(n)) => {
                            self.p += 1;
                            if self.peek() == Some(&Tk::P(':')) {
                                // segment override
                                self.p += 1;
                                if !is_reg(&n) {
                                    return Err(format!("segment override {:?} is not a register", n));
                                }
                                self.mem(Some(w), Some(n))
                            } else {
                                Ok(NOp::Lab { w, name: n })
                            }
                        }
                        o => Err(format!("after {}: {:?}", s, o)),
                    }
                } else if self.peek() == Some(&Tk::P(':')) && is_reg(&s) {
                    self.p += 1;
                    self.mem(None, Some(s))
                } else if is_reg(&s) {
                    Ok(NOp::Reg(s))
                } else {
                    Ok(NOp::Name(s))
                }
            }
            o => Err(format!("operand expected, found {:?}", o)),
        }
    }
}

/// read one emitted code line
pub fn read_code(line: &str) -> Result<NLine, String> {
    let t = lex(line)?;
    let mut r = Rd { t, p: 0 };
    let first = match r.next() {
        Some(Tk::Id(s)) => s,
        o => return Err(format!("mnemonic expected, found {:?}", o)),
    };
    if first == "print" {
        return match r.next() {
            Some(Tk::Id(s)) if s == "flags" && r.done() => Ok(NLine::PrintFlags),
            Some(Tk::Id(s)) if s == "reg" && r.done() => Ok(NLine::PrintReg),
            Some(Tk::Id(s)) if s == "mem" => {
                if r.eat_p(':') {
                    match (r.next(), r.done()) {
                        (Some(Tk::Num(n)), true) => Ok(NLine::PrintDs(n)),
                        _ => Err("print mem : n".into()),
                    }
                } else {
                    let a = match r.next() {
                        Some(Tk::Num(n)) => n,
                        o => return Err(format!("print mem start: {:?}", o)),
                    };
                    let sep = r.next();
                    let b = match r.next() {
                        Some(Tk::Num(n)) => n,
                        o => return Err(format!("print mem end: {:?}", o)),
                    };
                    if !r.done() {
                        return Err("trailing tokens after print".into());
                    }
                    match sep {
                        Some(Tk::Arrow) => Ok(NLine::PrintRange(a, b)),
                        Some(Tk::P(':')) => Ok(NLine::PrintLen(a, b)),
                        o => Err(format!("print mem separator: {:?}", o)),
                    }
                }
            }
            o => Err(format!("print what: {:?}", o)),
        };
    }
    let (prefix, mn) = if PREFIXES.contains(&first.as_str()) {
        match r.next() {
            Some(Tk::Id(s)) => (Some(first), s),
            o => return Err(format!("mnemonic after prefix expected, found {:?}", o)),
        }
    } else {
        (None, first)
    };
    let mut ops = Vec::new();
    if !r.done() {
        loop {
            ops.push(r.operand()?);
            if r.done() {
                break;
            }
            if !r.eat_p(',') {
                return Err(format!("',' expected, found {:?}", r.peek()));
            }
        }
    }
    Ok(NLine::Ins { prefix, mn, ops })
}

/// read one emitted data line
pub fn read_data(line: &str) -> Result<NLine, String> {
    let t = lex(line)?;
    let mut r = Rd { t, p: 0 };
    let kw = match r.next() {
        Some(Tk::Id(s)) => s,
        o => return Err(format!("directive expected, found {:?}", o)),
    };
    if kw == "set" {
        return match (r.next(), r.done()) {
            (Some(Tk::Num(n)), true) => Ok(NLine::Set(n)),
            _ => Err("set n".into()),
        };
    }
    let word = match kw.as_str() {
        "db" => false,
        "dw" => true,
        _ => return Err(format!("unknown directive {}", kw)),
    };
    let l = match r.next() {
        Some(Tk::Num(v)) => NLine::DataVal { word, v },
        Some(Tk::Str(s)) => NLine::DataStr { word, s },
        Some(Tk::P('[')) => {
            let a = match r.next() {
                Some(Tk::Num(n)) => n,
                o => return Err(format!("array: {:?}", o)),
            };
            if r.eat_p(']') {
                NLine::DataZeros { word, n: a }
            } else if r.eat_p(',') {
                let n = match r.next() {
                    Some(Tk::Num(n)) => n,
                    o => return Err(format!("array count: {:?}", o)),
                };
                if !r.eat_p(']') {
                    return Err("']' expected".into());
                }
                NLine::DataFill { word, v: a, n }
            } else {
                return Err("array syntax".into());
            }
        }
        o => return Err(format!("data value: {:?}", o)),
    };
    if !r.done() {
        return Err("trailing tokens".into());
    }
    Ok(l)
}

// ------------------------------------------------------------------ what the source says

/// canonical representative of a mnemonic's synonym class (Intel synonyms: same encoding)
pub fn mn_class(mn: &str) -> &str {
    match mn {
        "jnbe" => "ja",
        "jnb" | "jnc" => "jae",
        "jnae" | "jc" => "jb",
        "jna" => "jbe",
        "jz" => "je",
        "jnz" => "jne",
        "jnle" => "jg",
        "jnl" => "jge",
        "jnge" => "jl",
        "jng" => "jle",
        "jpe" => "jp",
        "jpo" => "jnp",
        "loopz" => "loope",
        "loopnz" => "loopne",
        "shl" => "sal",
        "repz" => "repe",
        "repnz" => "repne",
        x => x,
    }
}

fn opd_norm(o: &Opd) -> NOp {
    match o {
        Opd::R8(r) => NOp::Reg(r.name().into()),
        Opd::R16(r) => NOp::Reg(r.name().into()),
        Opd::Sr(s) => NOp::Reg(s.name().into()),
        Opd::Imm(v, _) => NOp::Imm(*v as i64),
        Opd::Mem(w, m) => {
            let comps = match m.shape {
                Shape::Direct(n) => vec![NComp::Num(n as i64)],
                Shape::Ind(r) => vec![NComp::Reg(r.name().into())],
                Shape::Based(r, d) | Shape::Indexed(r, d) => vec![NComp::Reg(r.name().into()), NComp::Num(d as i64)],
                Shape::BasedIdx(b, i, d) => vec![NComp::Reg(b.name().into()), NComp::Reg(i.name().into()), NComp::Num(d.unwrap_or(0) as i64)],
            };
            NOp::Mem { w: Some(*w), seg: m.seg.map(|s| s.name().to_string()), comps }
        }
        Opd::Lab(w, n) => NOp::Lab { w: *w, name: n.clone() },
        Opd::Name(n) => NOp::Name(n.clone()),
        Opd::Wd(w) => NOp::Wd(*w),
    }
}

/// the normalised form an instruction of the source must be emitted as (documented folding:
/// xchg reg,mem -> mem,reg; based-indexed without displacement -> displacement 0)
pub fn expected_insn(i: &Insn) -> NLine {
    let mut ops: Vec<NOp> = i.ops.iter().map(opd_norm).collect();
    if i.mn == "xchg" && ops.len() == 2 {
        if matches!(ops[0], NOp::Reg(_)) && matches!(ops[1], NOp::Mem { .. } | NOp::Lab { .. }) {
            ops.swap(0, 1);
        }
    }
    NLine::Ins { prefix: i.prefix.map(|p| p.to_string()), mn: i.mn.to_string(), ops }
}

fn num_eq(a: i64, b: i64, bits: u32) -> bool {
    let m = (1i64 << bits) - 1;
    (a & m) == (b & m)
}

/// width (in bits) of the immediate of an instruction, from the AST
fn imm_bits(i: &Insn) -> u32 {
    for o in &i.ops {
        if let Opd::Imm(_, k) = o {
            return match k {
                ImmKind::SB | ImmKind::UB => 8,
                ImmKind::SW | ImmKind::UW => 16,
            };
        }
    }
    16
}

fn op_eq(e: &NOp, o: &NOp, bits: u32) -> bool {
    match (e, o) {
        (NOp::Imm(a), NOp::Imm(b)) => num_eq(*a, *b, bits),
        (NOp::Mem { w: w1, seg: s1, comps: c1 }, NOp::Mem { w: w2, seg: s2, comps: c2 }) => {
            w1 == w2
                && s1 == s2
                && c1.len() == c2.len()
                && c1.iter().zip(c2.iter()).all(|(a, b)| match (a, b) {
                    (NComp::Num(x), NComp::Num(y)) => num_eq(*x, *y, 16),
                    (x, y) => x == y,
                })
        }
        (a, b) => a == b,
    }
}

/// does the emitted line mean what the source instruction says?
pub fn insn_matches(src: &Insn, emitted: &NLine) -> Result<(), String> {
    let exp = expected_insn(src);
    let (ep, em, eo) = match &exp {
        NLine::Ins { prefix, mn, ops } => (prefix, mn, ops),
        _ => unreachable!(),
    };
    match emitted {
        NLine::Ins { prefix, mn, ops } => {
            if mn_class(mn) != mn_class(em) {
                return Err(format!("operation: source {} emitted {}", em, mn));
            }
            match (ep, prefix) {
                (None, None) => {}
                (Some(a), Some(b)) if mn_class(a) == mn_class(b) => {}
                _ => return Err(format!("repeat prefix: source {:?} emitted {:?}", ep, prefix)),
            }
            if ops.len() != eo.len() {
                return Err(format!("operand count: source {} emitted {}", eo.len(), ops.len()));
            }
            let bits = imm_bits(src);
            // XCHG is symmetric: either operand order means the same
            if em == "xchg" && ops.len() == 2 && op_eq(&eo[0], &ops[1], bits) && op_eq(&eo[1], &ops[0], bits) {
                return Ok(());
            }
            for (k, (e, o)) in eo.iter().zip(ops.iter()).enumerate() {
                if !op_eq(e, o, bits) {
                    return Err(format!("operand {}: source {:?} emitted {:?}", k + 1, e, o));
                }
            }
            Ok(())
        }
        o => Err(format!("an instruction was expected, emitted {:?}", o)),
    }
}

pub fn print_matches(p: &PrintStmt, emitted: &NLine) -> Result<(), String> {
    let ok = match (p, emitted) {
        (PrintStmt::Flags, NLine::PrintFlags) => true,
        (PrintStmt::Reg, NLine::PrintReg) => true,
        (PrintStmt::MemRange(a, b), NLine::PrintRange(x, y)) => *a as i64 == *x && *b as i64 == *y,
        (PrintStmt::MemLen(a, b), NLine::PrintLen(x, y)) => *a as i64 == *x && *b as i64 == *y,
        (PrintStmt::MemDs(a), NLine::PrintDs(x)) => *a as i64 == *x,
        _ => false,
    };
    if ok {
        Ok(())
    } else {
        Err(format!("source {:?} emitted {:?}", p, emitted))
    }
}

pub fn data_matches(d: &DataDecl, emitted: &NLine) -> Result<(), String> {
    let ok = match (d, emitted) {
        (DataDecl::Set(s), NLine::Set(n)) => *s as i64 == *n,
        (DataDecl::Item { word, kind, .. }, e) => {
            let bits = if *word { 16 } else { 8 };
            match (kind, e) {
                (DataKind::Val(v), NLine::DataVal { word: w, v: x }) => w == word && num_eq(*v as i64, *x, bits),
                (DataKind::Zeros(n), NLine::DataZeros { word: w, n: x }) => w == word && *n as i64 == *x,
                (DataKind::Fill(v, n), NLine::DataFill { word: w, v: x, n: y }) => w == word && num_eq(*v as i64, *x, bits) && *n as i64 == *y,
                (DataKind::Str(s), NLine::DataStr { word: w, s: x }) => w == word && s == x,
                _ => false,
            }
        }
        _ => false,
    };
    if ok {
        Ok(())
    } else {
        Err(format!("source {:?} emitted {:?}", d, emitted))
    }
}
