//! L3: run the emulator_8086 binary (built from the working tree) as a child process with a
//! generated source file, scripted stdin, captured stdout/stderr/exit status, a watchdog and
//! an output cap.  Plus parsers for the CLI's output formats.
#![allow(dead_code)]
use std::io::Write;
use std::process::{Command, Stdio};
use std::sync::atomic::{AtomicU64, Ordering};
use std::time::{Duration, Instant};

pub const CLI_BIN: &str = "/verif/.build/cli/release/emulator_8086";
pub const TMP_DIR: &str = "/verif/.build/tmp";

#[derive(Debug, Clone, PartialEq, Eq)]
pub enum Status {
    Exit(i32),
    Signal(i32),
    /// killed by the watchdog (inconclusive on its own)
    Timeout,
    /// killed because the output exceeded the cap (deterministic runaway signal)
    OutputCap,
    /// killed because it slept without using any CPU time for several seconds although all of its input had been
    /// written (or was closed) before it started: it waits for something that cannot come (deterministic deadlock signal)
    Blocked,
    SpawnError(String),
}

#[derive(Debug, Clone)]
pub struct CliOut {
    pub stdout: Vec<u8>,
    pub stderr: Vec<u8>,
    pub status: Status,
    pub wall_ms: u64,
}

/// "a non-empty diagnostic is produced": stdout holds something, and it does not begin with what only a running program
/// prints (a marker, a print header, a register dump, the stepping chatter).  The wording is the emulator's business.
pub fn looks_like_diagnostic(stdout: &str) -> bool {
    let first = stdout.lines().map(|l| l.trim()).find(|l| !l.is_empty()).unwrap_or("");
    !first.is_empty()
        && !first.starts_with('!')
        && !["Output of line", "AX : ", "About to execute", "Int 3 at", ">>> ", "Trap flag", "OF : "].iter().any(|p| first.starts_with(p))
}

/// an exit status the emulator chose itself (see `CliOut::clean`)
pub fn own_exit(code: i32) -> bool {
    (0..=100).contains(&code)
}

impl CliOut {
    pub fn out_str(&self) -> String {
        String::from_utf8_lossy(&self.stdout).to_string()
    }
    pub fn err_str(&self) -> String {
        String::from_utf8_lossy(&self.stderr).to_string()
    }
    pub fn panicked(&self) -> bool {
        self.status == Status::Exit(101) || self.err_str().contains("panicked at")
    }
    /// clean = the process ended on its own account and without panic text: status 0, or a small status the program
    /// chose itself (bin.rs ends with status 1 after "Error Reading file"; a tree that ends with such a status after
    /// every diagnostic still "ends normally or with a diagnostic").  101 is what a Rust panic gives, 126 and above are
    /// the conventions for a command that could not run or was ended by a signal.
    pub fn clean(&self) -> bool {
        matches!(self.status, Status::Exit(c) if own_exit(c)) && !self.err_str().contains("panicked at")
    }
}

static COUNTER: AtomicU64 = AtomicU64::new(0);

pub enum Stdin<'a> {
    /// /dev/null: immediate end of input
    Closed,
    Data(&'a [u8]),
}

/// resource limits of a child: address space (always: protects the machine from a runaway child;
/// hitting it aborts the child, which is reported like any other abnormal end) and, optionally, stack
#[derive(Clone, Copy, Debug)]
pub struct Limits {
    pub as_bytes: u64,
    pub stack_bytes: Option<u64>,
    /// CPU seconds (RLIMIT_CPU; the kernel ends the child with SIGXCPU).  Only set where the reference knows the program
    /// executes a handful of instructions, so that the limit is thousands of times the work: a child that burns it is
    /// spinning, which -- unlike a wall-clock budget -- does not depend on how loaded the machine is
    pub cpu_secs: Option<u64>,
}
pub const DEFAULT_LIMITS: Limits = Limits { as_bytes: 3 << 30, stack_bytes: None, cpu_secs: None };

/// run the CLI on `source`
pub fn run_cli(source: &[u8], stdin: Stdin, interpreted: bool, out_cap: usize, timeout_ms: u64) -> CliOut {
    run_cli_limited(source, stdin, interpreted, out_cap, timeout_ms, DEFAULT_LIMITS)
}

pub fn run_cli_limited(source: &[u8], stdin: Stdin, interpreted: bool, out_cap: usize, timeout_ms: u64, limits: Limits) -> CliOut {
    run_bin_limited(CLI_BIN, source, stdin, interpreted, out_cap, timeout_ms, limits)
}

/// the emulator built from the working tree in cargo's default (unoptimised) profile; built by the dispatcher only for
/// the checks that ask how deep the emulator's own recursion may go (stack frames are several times larger there)
pub const CLI_DEBUG_BIN: &str = "/verif/.build/cli-debug/debug/emulator_8086";

pub fn debug_cli_available() -> bool {
    std::path::Path::new(CLI_DEBUG_BIN).exists()
}

pub fn run_bin_limited(bin: &str, source: &[u8], stdin: Stdin, interpreted: bool, out_cap: usize, timeout_ms: u64, limits: Limits) -> CliOut {
    let n = COUNTER.fetch_add(1, Ordering::Relaxed);
    let _ = std::fs::create_dir_all(TMP_DIR);
    let base = format!("{}/c{}-{}", TMP_DIR, std::process::id(), n);
    let src_path = format!("{}.s", base);
    let out_path = format!("{}.out", base);
    let err_path = format!("{}.err", base);
    let cleanup = |paths: &[&String]| {
        for p in paths {
            let _ = std::fs::remove_file(p);
        }
    };
    if let Err(e) = std::fs::write(&src_path, source) {
        return CliOut { stdout: vec![], stderr: vec![], status: Status::SpawnError(format!("write: {}", e)), wall_ms: 0 };
    }
    let outf = match std::fs::File::create(&out_path) {
        Ok(f) => f,
        Err(e) => return CliOut { stdout: vec![], stderr: vec![], status: Status::SpawnError(format!("{}", e)), wall_ms: 0 },
    };
    let errf = match std::fs::File::create(&err_path) {
        Ok(f) => f,
        Err(e) => return CliOut { stdout: vec![], stderr: vec![], status: Status::SpawnError(format!("{}", e)), wall_ms: 0 },
    };
    let mut cmd = Command::new(bin);
    if interpreted {
        cmd.arg("-i");
    }
    cmd.arg(&src_path);
    cmd.env_clear();
    cmd.env("RUST_BACKTRACE", "0");
    cmd.stdout(Stdio::from(outf));
    cmd.stderr(Stdio::from(errf));
    unsafe {
        use std::os::unix::process::CommandExt;
        cmd.pre_exec(move || {
            let l = libc::rlimit { rlim_cur: limits.as_bytes, rlim_max: limits.as_bytes };
            libc::setrlimit(libc::RLIMIT_AS, &l);
            if let Some(st) = limits.stack_bytes {
                let l = libc::rlimit { rlim_cur: st, rlim_max: st };
                libc::setrlimit(libc::RLIMIT_STACK, &l);
            }
            if let Some(cs) = limits.cpu_secs {
                let l = libc::rlimit { rlim_cur: cs, rlim_max: cs + 1 };
                libc::setrlimit(libc::RLIMIT_CPU, &l);
            }
            let c = libc::rlimit { rlim_cur: 0, rlim_max: 0 };
            libc::setrlimit(libc::RLIMIT_CORE, &c);
            Ok(())
        });
    }
    match stdin {
        Stdin::Closed => {
            cmd.stdin(Stdio::null());
        }
        Stdin::Data(_) => {
            cmd.stdin(Stdio::piped());
        }
    }
    let t0 = Instant::now();
    let mut child = match cmd.spawn() {
        Ok(c) => c,
        Err(e) => {
            cleanup(&[&src_path, &out_path, &err_path]);
            return CliOut { stdout: vec![], stderr: vec![], status: Status::SpawnError(format!("{}", e)), wall_ms: 0 };
        }
    };
    if let Stdin::Data(d) = stdin {
        if let Some(mut si) = child.stdin.take() {
            // small scripts: fits the pipe buffer; a child that exits early gives EPIPE, ignored
            let _ = si.write_all(d);
        }
    }
    let status;
    let deadline = t0 + Duration::from_millis(timeout_ms);
    let (mut last_probe_s, mut idle_probes, mut last_ticks) = (0u64, 0u32, u64::MAX);
    loop {
        match child.try_wait() {
            Ok(Some(st)) => {
                use std::os::unix::process::ExitStatusExt;
                status = if let Some(c) = st.code() {
                    Status::Exit(c)
                } else {
                    Status::Signal(st.signal().unwrap_or(0))
                };
                break;
            }
            Ok(None) => {}
            Err(e) => {
                status = Status::SpawnError(format!("wait: {}", e));
                break;
            }
        }
        let sz = std::fs::metadata(&out_path).map(|m| m.len()).unwrap_or(0) as usize;
        if sz > out_cap {
            let _ = child.kill();
            let _ = child.wait();
            status = Status::OutputCap;
            break;
        }
        if Instant::now() > deadline {
            let _ = child.kill();
            let _ = child.wait();
            status = Status::Timeout;
            break;
        }
        // a child that has been asleep (state S) for 5 s without a tick of CPU time: its input is complete, nobody
        // will ever wake it.  (A busy or starved child is in state R / accumulates CPU time and is left to the watchdog.)
        let el_ms = t0.elapsed().as_millis() as u64;
        if el_ms >= 6_000 && el_ms / 1000 != last_probe_s {
            last_probe_s = el_ms / 1000;
            if let Some((state, ticks)) = proc_stat(child.id()) {
                if state == 'S' && ticks == last_ticks {
                    idle_probes += 1;
                } else {
                    idle_probes = 0;
                }
                last_ticks = ticks;
                if idle_probes >= 5 {
                    let _ = child.kill();
                    let _ = child.wait();
                    status = Status::Blocked;
                    break;
                }
            }
        }
        let el = t0.elapsed().as_millis();
        std::thread::sleep(Duration::from_micros(if el < 30 { 500 } else if el < 500 { 3000 } else { 20000 }));
    }
    let wall_ms = t0.elapsed().as_millis() as u64;
    let mut stdout = std::fs::read(&out_path).unwrap_or_default();
    if stdout.len() > out_cap + 4096 {
        stdout.truncate(out_cap + 4096);
    }
    let stderr = std::fs::read(&err_path).unwrap_or_default();
    cleanup(&[&src_path, &out_path, &err_path]);
    CliOut { stdout, stderr, status, wall_ms }
}

/// (state, utime + stime in clock ticks) of a process, from /proc/<pid>/stat
fn proc_stat(pid: u32) -> Option<(char, u64)> {
    let txt = std::fs::read_to_string(format!("/proc/{}/stat", pid)).ok()?;
    // the command name is in parentheses and may contain spaces: fields start after the last ')'
    let rest = &txt[txt.rfind(')')? + 1..];
    let f: Vec<&str> = rest.split_whitespace().collect();
    let state = f.first()?.chars().next()?;
    let ut: u64 = f.get(11)?.parse().ok()?;
    let st: u64 = f.get(12)?.parse().ok()?;
    Some((state, ut + st))
}

pub fn cli_available() -> bool {
    std::path::Path::new(CLI_BIN).exists()
}

// ------------------------------------------------------------------ output parsing

/// register dump: returns [ax,bx,cx,dx,sp,bp,si,di,cs,ds,ss,es] parsed from the six lines
pub fn parse_reg_dump(lines: &[&str]) -> Option<[u16; 12]> {
    let mut vals: std::collections::HashMap<String, u16> = std::collections::HashMap::new();
    for l in lines {
        // "AX : 0x0000\t\tSP : 0x0000"
        let toks: Vec<&str> = l.split_whitespace().collect();
        let mut i = 0;
        while i + 2 < toks.len() + 0 {
            if toks[i + 1] == ":" {
                let name = toks[i].to_string();
                let v = toks[i + 2];
                // exactly 0x + four upper-case hex digits
                if v.len() == 6 && v.starts_with("0x") && v[2..].chars().all(|c| c.is_ascii_digit() || ('A'..='F').contains(&c)) {
                    if let Ok(n) = u16::from_str_radix(&v[2..], 16) {
                        vals.insert(name, n);
                    }
                } else {
                    return None;
                }
                i += 3;
            } else {
                i += 1;
            }
        }
    }
    let names = ["AX", "BX", "CX", "DX", "SP", "BP", "SI", "DI", "CS", "DS", "SS", "ES"];
    let mut out = [0u16; 12];
    for (k, n) in names.iter().enumerate() {
        out[k] = *vals.get(*n)?;
    }
    Some(out)
}

/// flag dump line -> (OF,DF,IF,TF,SF,ZF,AF,PF,CF) as a flag word (only those nine bits)
pub fn parse_flag_dump(line: &str) -> Option<u16> {
    let toks: Vec<&str> = line.split_whitespace().collect();
    let mut m: std::collections::HashMap<&str, u16> = std::collections::HashMap::new();
    let mut i = 0;
    while i + 2 < toks.len() + 0 {
        if toks[i + 1] == ":" {
            let v = match toks[i + 2] {
                "0" => 0,
                "1" => 1,
                _ => return None,
            };
            m.insert(toks[i], v);
            i += 3;
        } else {
            i += 1;
        }
    }
    let bits = [("OF", 11), ("DF", 10), ("IF", 9), ("TF", 8), ("SF", 7), ("ZF", 6), ("AF", 4), ("PF", 2), ("CF", 0)];
    let mut f = 0u16;
    for (n, b) in bits {
        f |= m.get(n)? << b;
    }
    Some(f)
}

/// memory dump rows -> (bytes, rows lengths); None if a cell is not two upper-case hex digits
pub fn parse_mem_dump(lines: &[&str]) -> Option<(Vec<u8>, Vec<usize>)> {
    let mut bytes = Vec::new();
    let mut rows = Vec::new();
    for l in lines {
        let toks: Vec<&str> = l.split_whitespace().collect();
        if toks.is_empty() {
            continue;
        }
        for t in &toks {
            if t.len() != 2 || !t.chars().all(|c| c.is_ascii_digit() || ('A'..='F').contains(&c)) {
                return None;
            }
            bytes.push(u8::from_str_radix(t, 16).ok()?);
        }
        rows.push(toks.len());
    }
    Some((bytes, rows))
}

#[derive(Clone, Copy, Debug, Default)]
pub struct Rusage {
    pub maxrss_kb: u64,
    /// user + system CPU time of the child
    pub cpu_s: f64,
}

/// like run_cli (closed stdin, not interpreted) but reaps the child with wait4 so that its own
/// resource usage (peak resident set, CPU time) is known
pub fn run_cli_rusage(source: &[u8], out_cap: usize, timeout_ms: u64) -> (CliOut, Rusage) {
    let n = COUNTER.fetch_add(1, Ordering::Relaxed);
    let _ = std::fs::create_dir_all(TMP_DIR);
    let base = format!("{}/r{}-{}", TMP_DIR, std::process::id(), n);
    let src_path = format!("{}.s", base);
    let out_path = format!("{}.out", base);
    let err_path = format!("{}.err", base);
    let fail = |e: String| (CliOut { stdout: vec![], stderr: vec![], status: Status::SpawnError(e), wall_ms: 0 }, Rusage::default());
    if let Err(e) = std::fs::write(&src_path, source) {
        return fail(format!("write: {}", e));
    }
    let (outf, errf) = match (std::fs::File::create(&out_path), std::fs::File::create(&err_path)) {
        (Ok(a), Ok(b)) => (a, b),
        _ => return fail("cannot create output files".into()),
    };
    let mut cmd = Command::new(CLI_BIN);
    cmd.arg(&src_path).env_clear().env("RUST_BACKTRACE", "0").stdin(Stdio::null()).stdout(Stdio::from(outf)).stderr(Stdio::from(errf));
    unsafe {
        use std::os::unix::process::CommandExt;
        cmd.pre_exec(move || {
            let l = libc::rlimit { rlim_cur: DEFAULT_LIMITS.as_bytes, rlim_max: DEFAULT_LIMITS.as_bytes };
            libc::setrlimit(libc::RLIMIT_AS, &l);
            let c = libc::rlimit { rlim_cur: 0, rlim_max: 0 };
            libc::setrlimit(libc::RLIMIT_CORE, &c);
            Ok(())
        });
    }
    let t0 = Instant::now();
    let child = match cmd.spawn() {
        Ok(c) => c,
        Err(e) => return fail(format!("{}", e)),
    };
    let pid = child.id() as libc::pid_t;
    // the child is reaped by wait4 below; forget the handle so that std does not wait again
    std::mem::forget(child);
    let deadline = t0 + Duration::from_millis(timeout_ms);
    let mut ru: libc::rusage = unsafe { std::mem::zeroed() };
    let mut st: libc::c_int = 0;
    let status;
    let mut killed: Option<Status> = None;
    loop {
        let r = unsafe { libc::wait4(pid, &mut st, libc::WNOHANG, &mut ru) };
        if r == pid {
            status = if let Some(k) = killed.take() {
                k
            } else if libc::WIFEXITED(st) {
                Status::Exit(libc::WEXITSTATUS(st))
            } else if libc::WIFSIGNALED(st) {
                Status::Signal(libc::WTERMSIG(st))
            } else {
                Status::SpawnError("unknown wait status".into())
            };
            break;
        }
        if r < 0 {
            status = Status::SpawnError("wait4 failed".into());
            break;
        }
        if killed.is_none() {
            let sz = std::fs::metadata(&out_path).map(|m| m.len()).unwrap_or(0) as usize;
            if sz > out_cap {
                unsafe { libc::kill(pid, libc::SIGKILL) };
                killed = Some(Status::OutputCap);
            } else if Instant::now() > deadline {
                unsafe { libc::kill(pid, libc::SIGKILL) };
                killed = Some(Status::Timeout);
            }
        }
        let el = t0.elapsed().as_millis();
        std::thread::sleep(Duration::from_micros(if el < 30 { 500 } else if el < 500 { 3000 } else { 20000 }));
    }
    let wall_ms = t0.elapsed().as_millis() as u64;
    let mut stdout = std::fs::read(&out_path).unwrap_or_default();
    if stdout.len() > out_cap + 4096 {
        stdout.truncate(out_cap + 4096);
    }
    let stderr = std::fs::read(&err_path).unwrap_or_default();
    for p in [&src_path, &out_path, &err_path] {
        let _ = std::fs::remove_file(p);
    }
    let cpu = ru.ru_utime.tv_sec as f64 + ru.ru_utime.tv_usec as f64 / 1e6 + ru.ru_stime.tv_sec as f64 + ru.ru_stime.tv_usec as f64 / 1e6;
    (CliOut { stdout, stderr, status, wall_ms }, Rusage { maxrss_kb: ru.ru_maxrss as u64, cpu_s: cpu })
}
