//! C18 -- console interrupt services do exactly their documented I/O, within bounds.
use crate::asm::*;
use crate::cli::*;
use crate::clicheck::*;
use crate::common::*;
use crate::progs::*;
use crate::refmodel::Quirks;
use proptest::prelude::*;
use serde_json::{json, Value};

#[derive(Clone, Debug)]
pub enum Call {
    /// INT 21h AH=2
    PutChar { dl: u8 },
    /// INT 21h AH=1; the line it will read
    GetChar { line: Vec<u8> },
    /// INT 21h AH=0Ah
    BufIn { cap: u8, seg: u16, off: u16, line: Vec<u8> },
    /// INT 10h AH=0Ah
    RepChar { al: u8, cx: u16 },
    /// INT 10h AH=13h: text lives in the data section at seg:bp
    PutStr { seg: u16, bp: u16, dl: u8, text: Vec<u8> },
    Unsupported { int: u8, ah: u8 },
}

#[derive(Clone, Debug)]
pub struct Case18 {
    pub calls: Vec<(Call, [u16; 4])>,
    /// 0 = all lines with newline, 1 = last line without newline, 2 = input ends one line early, 3 = closed stdin
    pub stdin_mode: u8,
    pub tweaks: Vec<&'static str>,
    pub choices: Vec<u8>,
}

pub fn out_char() -> BoxedStrategy<u8> {
    prop_oneof![3 => proptest::sample::select(MARKERS.to_vec()), 1 => 0x80u8..=0xFF].boxed()
}

pub fn line_s(min: usize, max: usize) -> BoxedStrategy<Vec<u8>> {
    // printable ASCII and a few two-byte characters; no CR/LF inside a line
    // one line in four begins and/or ends with blanks (they belong to the line)
    (proptest::collection::vec(prop_oneof![8 => (0x20u8..0x7F).prop_map(|b| vec![b]), 1 => Just("é".as_bytes().to_vec()), 1 => Just("ß".as_bytes().to_vec())], min..=max), 0u8..12)
        .prop_map(move |(v, pad)| {
            let mut l = v.concat();
            if !l.is_empty() && l.len() + 3 <= max.max(3) {
                match pad {
                    0 => l.insert(0, b' '),
                    1 => l.push(b' '),
                    2 => {
                        l.insert(0, b' ');
                        l.insert(0, b' ');
                        l.push(b' ');
                    }
                    _ => {}
                }
            }
            l
        })
        .boxed()
}

fn bufin_s() -> BoxedStrategy<Call> {
    let cap = prop_oneof![3 => proptest::sample::select(vec![0u8, 1, 2, 5, 254, 255]), 1 => any::<u8>()];
    let place = prop_oneof![
        // mid-memory
        3 => (0x1000u16..0x8000, 0x0010u16..0x4000),
        // end of a segment (the whole buffer still below offset FFFFh)
        2 => (0x1000u16..0x8000, 0xFE00u16..=0xFEF0),
        // ends exactly at / wraps past FFFFFh
        2 => (Just(0xF000u16), 0xFE80u16..=0xFEFF),
        // FFFFh:000Fh is the last byte of the address space: the buffer starts there and continues at address 0
        2 => (Just(0xFFFFu16), prop_oneof![3 => 2u16..=15, 2 => Just(15u16)]),
        1 => (Just(0xFFF0u16), 0x0002u16..0x00FF),
    ];
    (cap, place, 0u8..6, line_s(0, 300))
        .prop_map(|(cap, (seg, off), rel, raw)| {
            // line length relative to the capacity: empty, shorter, equal, one longer, much longer, as generated
            let want = match rel {
                0 => 0usize,
                1 => (cap as usize).saturating_sub(1),
                2 => cap as usize,
                3 => cap as usize + 1,
                4 => cap as usize + 40,
                _ => raw.len(),
            };
            let mut line: Vec<u8> = Vec::new();
            let mut k = 0usize;
            while line.len() < want {
                line.push(if raw.is_empty() { b'a' + (k % 26) as u8 } else { raw[k % raw.len()] & 0x7F | 0x20 });
                if *line.last().unwrap() == 0x7F {
                    *line.last_mut().unwrap() = b'~';
                }
                k += 1;
            }
            if rel >= 5 {
                line = raw;
            }
            // F000h: the last byte of the buffer is the last byte of the address space
            let off = if seg == 0xF000 { 0xFFFE - cap as u16 } else { off };
            Call::BufIn { cap, seg, off, line }
        })
        .boxed()
}

fn call_s() -> BoxedStrategy<Call> {
    prop_oneof![
        2 => out_char().prop_map(|dl| Call::PutChar { dl }),
        2 => line_s(1, 20).prop_map(|line| Call::GetChar { line }),
        4 => bufin_s(),
        2 => (out_char(), prop_oneof![3 => 0u16..40, 1 => 250u16..600]).prop_map(|(al, cx)| Call::RepChar { al, cx }),
        3 => putstr_s(false),
    ]
    .boxed()
}

/// INT 10h AH=13h; `top`: only segments FFFEh/FFFFh.  BP up to 63 so that with ES=FFFFh the text starts at or beyond
/// 2^20 (ES:BP = FFFF:0010h is physical address 0), not only crosses it
fn putstr_s(top: bool) -> BoxedStrategy<Call> {
    let seg = if top { prop_oneof![2 => Just(0xFFFFu16), 2 => Just(0xFFFEu16), 1 => Just(0xF000u16), 1 => Just(0xEFFFu16)].boxed() } else { prop_oneof![4 => 0x9000u16..0xE000, 2 => Just(0xFFFFu16), 2 => Just(0xFFFEu16), 1 => Just(0xF000u16), 1 => Just(0xEFFFu16)].boxed() };
    (seg, prop_oneof![3 => 0u16..16, 2 => 16u16..64], 0u8..30, proptest::collection::vec(out_char(), 1..40), any::<u8>())
        .prop_map(|(seg, bp, dl, text, k)| {
            // ES = F000h / EFFFh: BP so large that the text, addressed linearly from ES*16+BP, crosses 2^20
            let bp = match seg {
                0xF000 => (0x10000u32 - 1 - (k as u32 % text.len() as u32)) as u16,
                0xEFFF => (0x10010u32 - 17 - (k as u32 % 8)) as u16,
                _ => bp,
            };
            Call::PutStr { seg, bp, dl, text }
        })
        .boxed()
}

/// cases for C09's L3 part: every service pointed at the last bytes of the address space
pub fn top_case_s() -> BoxedStrategy<Case18> {
    let bufin_top = bufin_s().prop_map(|c| match c {
        Call::BufIn { cap, seg, off, line } if seg < 0xF000 => {
            // move mid-memory placements to the top: FFFFh:2..15 or a buffer that ends exactly at FFFFFh
            if off & 1 == 0 {
                Call::BufIn { cap, seg: 0xFFFF, off: if off % 3 == 0 { 15 } else { 2 + (off % 14) }, line }
            } else {
                Call::BufIn { cap, seg: 0xF000, off: 0xFFFE - cap as u16, line }
            }
        }
        c => c,
    });
    let call = prop_oneof![
        4 => bufin_top,
        4 => putstr_s(true),
        1 => out_char().prop_map(|dl| Call::PutChar { dl }),
        1 => line_s(1, 20).prop_map(|line| Call::GetChar { line }),
        1 => (out_char(), prop_oneof![3 => 0u16..40, 1 => 250u16..600]).prop_map(|(al, cx)| Call::RepChar { al, cx }),
    ];
    (
        proptest::collection::vec((call, [crate::pt::u16s(), crate::pt::u16s(), crate::pt::u16s(), crate::pt::u16s()]), 1..=3),
        prop_oneof![5 => Just(0u8), 2 => Just(1u8), 2 => Just(2u8), 1 => Just(3u8)],
        proptest::collection::vec(proptest::sample::select(vec!["stc", "clc", "cmc", "std", "cld", "sti", "cli"]), 0..3),
        proptest::collection::vec(any::<u8>(), 24),
    )
        .prop_map(|(calls, stdin_mode, tweaks, choices)| Case18 { calls, stdin_mode, tweaks, choices })
        .boxed()
}

/// histories of services: a palette of two or three calls (half of the palettes only screen output, so that the same
/// service comes back with the very same DL / AL / CX after another one ran in between), repeated and interleaved in a
/// sequence of three to six calls -- state a service keeps from call to call only shows in such a sequence
fn history_calls_s() -> BoxedStrategy<Vec<(Call, [u16; 4])>> {
    let noise = || [crate::pt::u16s(), crate::pt::u16s(), crate::pt::u16s(), crate::pt::u16s()];
    let screen = prop_oneof![
        3 => (prop_oneof![2 => 0x9000u16..0xE000, 1 => Just(0xFFFFu16)], 0u16..16, prop_oneof![1 => Just(0u8), 3 => 1u8..8, 1 => 8u8..30], proptest::collection::vec(out_char(), 1..12))
            .prop_map(|(seg, bp, dl, text)| Call::PutStr { seg, bp, dl, text }),
        3 => (out_char(), prop_oneof![1 => Just(0u16), 4 => 1u16..12, 1 => 250u16..300]).prop_map(|(al, cx)| Call::RepChar { al, cx }),
        1 => out_char().prop_map(|dl| Call::PutChar { dl }),
    ];
    let palette = prop_oneof![
        1 => proptest::collection::vec((screen, noise()), 2..=3),
        1 => proptest::collection::vec((call_s(), noise()), 2..=3),
    ];
    (palette, proptest::collection::vec(any::<u16>(), 3..=6)).prop_map(|(pal, idx)| idx.iter().map(|i| pal[(*i as usize * pal.len()) >> 16].clone()).collect()).boxed()
}

pub fn case_s() -> BoxedStrategy<Case18> {
    (
        prop_oneof![
            3 => proptest::collection::vec((call_s(), [crate::pt::u16s(), crate::pt::u16s(), crate::pt::u16s(), crate::pt::u16s()]), 1..=4).boxed(),
            1 => history_calls_s(),
        ],
        prop_oneof![5 => Just(0u8), 2 => Just(1u8), 2 => Just(2u8), 1 => Just(3u8)],
        proptest::collection::vec(proptest::sample::select(vec!["stc", "clc", "cmc", "std", "cld", "sti", "cli"]), 0..3),
        proptest::collection::vec(any::<u8>(), 24),
    )
        .prop_map(|(calls, stdin_mode, tweaks, choices)| Case18 { calls, stdin_mode, tweaks, choices })
        .boxed()
}

fn mov16(r: R16, v: u16) -> Item {
    Item::Ins(Insn::new("mov", vec![Opd::R16(r), Opd::Imm(v, ImmKind::SW)]))
}
fn mov8(r: R8, v: u8) -> Item {
    Item::Ins(Insn::new("mov", vec![Opd::R8(r), Opd::Imm(v as u16, ImmKind::SB)]))
}
fn movsr(s: Seg, r: R16) -> Item {
    Item::Ins(Insn::new("mov", vec![Opd::Sr(s), Opd::R16(r)]))
}
fn int(n: u16) -> Item {
    Item::Ins(Insn::new("int", vec![Opd::Imm(n, ImmKind::UB)]))
}

fn mem_prints(start: u32, len: u32) -> Vec<Item> {
    let mb = 1u32 << 20;
    let s = start % mb;
    if s + len <= mb {
        vec![Item::Print(PrintStmt::MemRange(s, s + len - 1))]
    } else {
        vec![Item::Print(PrintStmt::MemRange(s, mb - 1)), Item::Print(PrintStmt::MemRange(0, s + len - mb - 1))]
    }
}

pub struct Built {
    pub prog: Program,
    pub stdin: Vec<u8>,
    pub stdin_closed: bool,
    pub input_lines: Vec<Vec<u8>>,
    /// per BufIn call: (capacity, line it reads (after truncation of the input), number of Mem events of its dump)
    pub bufins: Vec<(usize, Vec<u8>, usize)>,
}

pub fn build(c: &Case18) -> Built {
    let mut data: Vec<DataDecl> = Vec::new();
    let mut code: Vec<Item> = vec![Item::Label("start".into())];
    for t in &c.tweaks {
        code.push(Item::Ins(Insn::new(t, vec![])));
    }
    let mut lines: Vec<Vec<u8>> = Vec::new();
    let mut bufins: Vec<(usize, Vec<u8>, usize)> = Vec::new();
    let mut used_segs: Vec<u16> = Vec::new();
    for (call, noise) in &c.calls {
        // registers the service must leave alone
        code.push(mov16(R16::BX, noise[0]));
        code.push(mov16(R16::SI, noise[1]));
        code.push(mov16(R16::DI, noise[2]));
        match call {
            Call::PutChar { dl } => {
                code.push(mov16(R16::CX, noise[3]));
                code.push(mov16(R16::DX, (noise[3] & 0xFF00) | *dl as u16));
                code.push(mov16(R16::AX, 0x0200 | (noise[0] & 0xFF)));
                code.push(int(0x21));
            }
            Call::GetChar { line } => {
                lines.push(line.clone());
                code.push(mov16(R16::CX, noise[3]));
                code.push(mov16(R16::DX, noise[1]));
                code.push(mov16(R16::AX, 0x0100 | (noise[0] & 0xFF)));
                code.push(int(0x21));
            }
            Call::BufIn { cap, seg, off, line } => {
                lines.push(line.clone());
                // fill [off-2, off+2+cap+8) with CCh through ES:DI, then the capacity byte
                // (never past offset FFFFh: whether DS:DX+k wraps inside the segment there is not specified)
                let fill_len = (2 + 2 + *cap as u32 + 8).min(0x10000 - (*off as u32 - 2)) as u16;
                code.push(mov16(R16::AX, *seg));
                code.push(movsr(Seg::ES, R16::AX));
                code.push(movsr(Seg::DS, R16::AX));
                code.push(mov16(R16::DI, off.wrapping_sub(2)));
                code.push(mov16(R16::CX, fill_len));
                code.push(mov8(R8::AL, 0xCC));
                code.push(Item::Ins(Insn::new("cld", vec![])));
                code.push(Item::Ins(Insn { prefix: Some("rep"), mn: "stos", ops: vec![Opd::Wd(W::B)] }));
                code.push(Item::Ins(Insn::new("mov", vec![Opd::Mem(W::B, Mem { seg: None, shape: Shape::Direct(*off) }), Opd::Imm(*cap as u16, ImmKind::SB)])));
                code.push(mov16(R16::DI, noise[2]));
                code.push(mov16(R16::CX, noise[3]));
                code.push(mov16(R16::DX, *off));
                code.push(mov16(R16::AX, 0x0A00 | (noise[0] & 0xFF)));
                code.push(int(0x21));
                let ps = mem_prints(*seg as u32 * 16 + *off as u32 - 2, fill_len as u32);
                bufins.push((*cap as usize, line.clone(), ps.len()));
                code.extend(ps);
            }
            Call::RepChar { al, cx } => {
                code.push(mov16(R16::DX, noise[3]));
                code.push(mov16(R16::CX, *cx));
                code.push(mov16(R16::AX, 0x0A00 | *al as u16));
                code.push(int(0x10));
            }
            Call::PutStr { seg, bp, dl, text } => {
                // distinct segments for distinct texts
                // keep the text clear of buffers placed at the top of (or wrapping around) the address space
                let high_buf = c.calls.iter().any(|(x, _)| matches!(x, Call::BufIn { seg, .. } if *seg >= 0xF000));
                // ... and of another text up there
                let high_taken = used_segs.iter().any(|u| *u >= 0xEFFF);
                let mut sg = if (high_buf || high_taken) && *seg >= 0xEFFF { 0xA000 } else { *seg };
                // texts are up to 16 + 40 bytes long: keep the segments at least 16 paragraphs apart
                while sg < 0xEFFF && used_segs.iter().any(|u| (*u as i32 - sg as i32).abs() < 0x10) {
                    sg = 0x9000 + (sg.wrapping_add(0x0123) % 0x5000);
                }
                used_segs.push(sg);
                // a text moved to another segment keeps a small BP (the large ones only make sense with ES = F000h / EFFFh)
                let bp_eff: u16 = if sg != *seg && *bp > 0x100 { *bp & 0x3F } else { *bp };
                let bp = &bp_eff;
                if sg == 0xF000 || sg == 0xEFFF {
                    // placed by physical address: the part below 2^20 in the last paragraphs, the rest from address 0
                    let phys = sg as u32 * 16 + *bp as u32;
                    let mb = 1u32 << 20;
                    let first = ((mb - phys.min(mb)) as usize).min(text.len());
                    if first > 0 {
                        data.push(DataDecl::Set((phys >> 4) as u16));
                        if phys & 15 > 0 {
                            data.push(DataDecl::Item { label: None, word: false, kind: DataKind::Zeros((phys & 15) as u16) });
                        }
                        for b in &text[..first] {
                            data.push(DataDecl::Item { label: None, word: false, kind: DataKind::Val(*b as u16) });
                        }
                    }
                    if first < text.len() {
                        data.push(DataDecl::Set(0));
                        for b in &text[first..] {
                            data.push(DataDecl::Item { label: None, word: false, kind: DataKind::Val(*b as u16) });
                        }
                    }
                } else {
                    data.push(DataDecl::Set(sg));
                    if *bp > 0 {
                        data.push(DataDecl::Item { label: None, word: false, kind: DataKind::Zeros(*bp) });
                    }
                    for b in text {
                        data.push(DataDecl::Item { label: None, word: false, kind: DataKind::Val(*b as u16) });
                    }
                }
                code.push(mov16(R16::AX, sg));
                code.push(movsr(Seg::ES, R16::AX));
                code.push(mov16(R16::BP, *bp));
                code.push(mov16(R16::CX, text.len() as u16));
                code.push(mov16(R16::DX, (noise[3] & 0xFF00) | *dl as u16));
                code.push(mov16(R16::AX, 0x1300 | (noise[0] & 0xFF)));
                code.push(int(0x10));
            }
            Call::Unsupported { int: n, ah } => {
                code.push(mov16(R16::AX, (*ah as u16) << 8 | (noise[0] & 0xFF)));
                code.push(int(*n as u16));
            }
        }
        code.push(Item::Print(PrintStmt::Reg));
        code.push(Item::Print(PrintStmt::Flags));
    }
    // stdin
    let consumers = lines.len();
    let (stdin, closed, avail): (Vec<u8>, bool, Vec<Vec<u8>>) = match c.stdin_mode {
        3 => (vec![], true, vec![]),
        2 if consumers > 0 => {
            let keep = &lines[..consumers - 1];
            let mut s = Vec::new();
            for l in keep {
                s.extend_from_slice(l);
                s.push(b'\n');
            }
            (s, keep.is_empty(), keep.to_vec())
        }
        1 if consumers > 0 => {
            let mut s = Vec::new();
            for (k, l) in lines.iter().enumerate() {
                s.extend_from_slice(l);
                if k + 1 < consumers {
                    s.push(b'\n');
                }
            }
            // an empty last line without newline is simply end of input
            (s, false, lines.clone())
        }
        _ => {
            let mut s = Vec::new();
            for l in &lines {
                s.extend_from_slice(l);
                s.push(b'\n');
            }
            (s, consumers == 0, lines.clone())
        }
    };
    // what each BufIn really reads (lines beyond the available input are empty)
    let mut li = 0usize;
    let mut bi = 0usize;
    for (call, _) in &c.calls {
        match call {
            Call::GetChar { .. } => li += 1,
            Call::BufIn { .. } => {
                bufins[bi].1 = avail.get(li).cloned().unwrap_or_default();
                bi += 1;
                li += 1;
            }
            _ => {}
        }
    }
    Built { prog: Program { data, code }, stdin, stdin_closed: closed, input_lines: avail, bufins }
}

/// GetChar on an empty line is ambiguous (the line's first byte is its newline): never generated
fn sound(c: &Case18) -> bool {
    // with a truncated or newline-less input the last GetChar may see an empty line: fine (end of input -> 0)
    let _ = c;
    true
}

pub fn eval(c: &Case18) -> CaseOutcome {
    if !sound(c) {
        return CaseOutcome::Pass { nontrivial: false, classes: vec![], digest: 0 };
    }
    let b = build(c);
    let layout = crate::progs::Layout { choices: c.choices.clone(), comments: false, trailing_newline: true, pack_lines: false };
    let rendered = render_program(&b.prog, &layout);
    let flat = flatten(&b.prog);
    let lines: Vec<usize> = rendered.flat_offsets.iter().map(|o| rendered.line_of(*o)).collect();
    let image = data_image(&b.prog.data);
    // these programs are straight-line code of a few dozen instructions: ten CPU seconds are several thousand times the work
    let out = run_cli_limited(rendered.text.as_bytes(), if b.stdin_closed { Stdin::Closed } else { Stdin::Data(&b.stdin) }, false, 4 << 20, 30_000, Limits { cpu_secs: Some(10), ..DEFAULT_LIMITS });
    let base_replay = |exp: &[Ev]| json!({"kind":"cli","source":rendered.text,"stdin":String::from_utf8_lossy(&b.stdin),"stdin_closed":b.stdin_closed,"interpreted":false,
        "expected_events": exp.iter().map(|e| format!("{:?}", e)).collect::<Vec<_>>()});
    match &out.status {
        Status::Timeout | Status::SpawnError(_) => return CaseOutcome::Inconclusive(format!("{:?}", out.status)),
        _ => {}
    }
    if matches!(out.status, Status::Signal(24)) {
        return CaseOutcome::Fail {
            key: "c18|spins".into(),
            what: format!("the emulator used 10 s of CPU time on a straight-line program of {} instructions (stdin {}) and was ended by the kernel's CPU limit", flat.ops.len(), if b.stdin_closed { "closed".to_string() } else { format!("{} bytes then end of input", b.stdin.len()) }),
            replay: base_replay(&[]),
        };
    }
    if !out.clean() {
        return CaseOutcome::Fail { key: "c18|abnormal-exit".into(), what: format!("status {:?} {}", out.status, out.err_str().lines().find(|l| l.contains("panicked") || !l.trim().is_empty()).unwrap_or("")), replay: base_replay(&[]) };
    }
    let toks = match tokenize(&out.stdout) {
        Ok(t) => t,
        Err(e) => return CaseOutcome::Fail { key: "c18|unparsable-output".into(), what: e, replay: base_replay(&[]) },
    };
    // buffered input: read the stored count (and the byte after the stored characters) from the dumps
    let mut fills: Vec<(usize, Option<u8>)> = Vec::new();
    let mems: Vec<&Vec<u8>> = toks.iter().filter_map(|e| if let Ev::Mem(v) = e { Some(v) } else { None }).collect();
    let mut mi = 0usize;
    for (cap, line, nev) in &b.bufins {
        let mut bytes: Vec<u8> = Vec::new();
        for k in 0..*nev {
            if let Some(v) = mems.get(mi + k) {
                bytes.extend_from_slice(v);
            }
        }
        mi += nev;
        if bytes.len() < 4 {
            break; // the event comparison below reports the missing dump
        }
        // dump starts 2 bytes before the buffer: [cc cc cap count chars...]
        let count = bytes[3] as usize;
        let lo = line.len().min(*cap);
        if count > *cap || count > line.len() || count + 1 < lo {
            return CaseOutcome::Fail {
                key: "c18|buffered-input|count".into(),
                what: format!("INT 21h AH=0Ah with capacity {} and a {}-byte line stored count {} (must be at most the capacity and the line length)", cap, line.len(), count),
                replay: base_replay(&[]),
            };
        }
        let term = if count < *cap { bytes.get(4 + count).copied() } else { None };
        // only a line terminator may follow the stored characters
        let term = match term {
            Some(t) if t == 0x0D || t == 0x0A || t == 0 || t == b'$' => Some(t),
            _ => None,
        };
        fills.push((count, term));
    }
    let cfg = RunCfg { interpreted: false, script: &[], lines: &lines, max_steps: 10_000, input_lines: Some(&b.input_lines), buf_fill: Some(&fills) };
    let rr = ref_run(&flat, &image, &cfg, &Quirks::none());
    let exp = normalise(&rr.events);
    if exp != toks {
        let d = crate::c17::first_diff(&exp, &toks);
        let kind = if d.contains("Mem(") {
            "memory"
        } else if d.contains("Regs") {
            "registers"
        } else if d.contains("Flags") {
            "flags"
        } else if d.contains("Chars") {
            "characters-written"
        } else if d.contains("UnsupInt") || d.contains("Exiting") {
            "unsupported-report"
        } else {
            "events"
        };
        return CaseOutcome::Fail { key: format!("c18|{}", kind), what: d, replay: base_replay(&exp) };
    }
    let mut classes: Vec<String> = Vec::new();
    let mut nt = false;
    for (call, _) in &c.calls {
        match call {
            Call::PutChar { dl } => {
                classes.push("c18/21h-02".into());
                if *dl >= 0x80 {
                    classes.push("c18/char>=80h".into());
                }
            }
            Call::GetChar { .. } => classes.push("c18/21h-01".into()),
            Call::BufIn { cap, seg, off, line } => {
                classes.push("c18/21h-0A".into());
                if line.len() > *cap as usize {
                    classes.push("c18/line-longer-than-capacity".into());
                    nt = true;
                }
                if *cap == 0 {
                    classes.push("c18/capacity-0".into());
                }
                let end = *seg as u32 * 16 + *off as u32 + 2 + *cap as u32;
                if end + 8 >= (1 << 20) {
                    classes.push("c18/buffer-near-or-across-2^20".into());
                    nt = true;
                }
            }
            Call::RepChar { cx, .. } => {
                classes.push("c18/10h-0A".into());
                if *cx >= 256 {
                    classes.push("c18/cx>=256".into());
                    nt = true;
                }
            }
            Call::PutStr { seg, bp, .. } => {
                classes.push("c18/10h-13".into());
                if *seg as u32 * 16 + *bp as u32 >= (1 << 20) {
                    classes.push("c18/string-starts-at-or-beyond-2^20".into());
                }
                let high_buf = c.calls.iter().any(|(x, _)| matches!(x, Call::BufIn { seg, .. } if *seg >= 0xF000));
                if *seg >= 0xEFFF && !high_buf {
                    classes.push("c18/string-across-2^20".into());
                    nt = true;
                }
                if (*seg == 0xF000 || *seg == 0xEFFF) && !high_buf {
                    classes.push("c18/string-across-2^20-from-a-segment-below-F001h".into());
                }
            }
            Call::Unsupported { .. } => classes.push("c18/unsupported".into()),
        }
    }
    // histories: the same screen service with the same parameters comes back after another service ran in between
    {
        let sig = |k: &Call| match k {
            Call::PutStr { dl, text, .. } => Some(format!("p{}:{}", dl, text.len())),
            Call::RepChar { al, cx } => Some(format!("r{}:{}", al, cx)),
            _ => None,
        };
        let sigs: Vec<Option<String>> = c.calls.iter().map(|(k, _)| sig(k)).collect();
        for i in 0..sigs.len() {
            for j in i + 2..sigs.len() {
                if sigs[i].is_some() && sigs[i] == sigs[j] && (i + 1..j).any(|m| sigs[m] != sigs[i]) {
                    classes.push("c18/history-same-screen-call-again-after-another".into());
                    if matches!(&c.calls[i].0, Call::PutStr { dl, .. } if *dl > 0) && (i + 1..j).any(|m| matches!(&c.calls[m].0, Call::RepChar { cx, .. } if *cx > 0)) {
                        classes.push("c18/history-13h-0Ah-13h-same-column".into());
                    }
                    nt = true;
                }
            }
        }
        if c.calls.len() >= 5 {
            classes.push("c18/history-5-or-more-calls".into());
        }
    }
    match c.stdin_mode {
        3 => {
            classes.push("c18/stdin-closed".into());
            nt = true;
        }
        2 => classes.push("c18/stdin-ends-early".into()),
        1 => classes.push("c18/stdin-no-final-newline".into()),
        _ => {}
    }
    // the same program in the emulator built with cargo's default profile (what `cargo run` gives; arithmetic overflow is
    // checked there): it must end normally with byte-identical output
    if debug_cli_available() {
        let dbg = run_bin_limited(CLI_DEBUG_BIN, rendered.text.as_bytes(), if b.stdin_closed { Stdin::Closed } else { Stdin::Data(&b.stdin) }, false, 4 << 20, 60_000, Limits { cpu_secs: Some(30), ..DEFAULT_LIMITS });
        let mut rp = base_replay(&exp);
        rp["binary"] = json!("unoptimised");
        match &dbg.status {
            Status::Timeout | Status::SpawnError(_) => return CaseOutcome::Inconclusive(format!("unoptimised build: {:?}", dbg.status)),
            _ => {}
        }
        if !dbg.clean() {
            return CaseOutcome::Fail {
                key: "c18|unoptimised-build|abnormal-exit".into(),
                what: format!("the emulator built with cargo's default profile ends with {:?} {} (the optimised build runs the same program to its end)", dbg.status, dbg.err_str().lines().find(|l| l.contains("panicked")).unwrap_or("")),
                replay: rp,
            };
        }
        if dbg.stdout != out.stdout {
            return CaseOutcome::Fail { key: "c18|unoptimised-build|output-differs".into(), what: "the emulator built with cargo's default profile prints something else than the optimised build".into(), replay: rp };
        }
        classes.push("c18/also-in-unoptimised-build".into());
    }
    CaseOutcome::Pass { nontrivial: nt, classes, digest: fnv_str(&rendered.text) ^ fnv64(&b.stdin) }
}

/// only the way the program ends, in the given build of the emulator (used by the checks about aborts)
pub fn eval_ends_normally(c: &Case18, bin: &'static str, key: &str) -> CaseOutcome {
    if !sound(c) {
        return CaseOutcome::Pass { nontrivial: false, classes: vec![], digest: 0 };
    }
    let b = build(c);
    let layout = crate::progs::Layout { choices: c.choices.clone(), comments: false, trailing_newline: true, pack_lines: false };
    let rendered = render_program(&b.prog, &layout);
    let out = run_bin_limited(bin, rendered.text.as_bytes(), if b.stdin_closed { Stdin::Closed } else { Stdin::Data(&b.stdin) }, false, 4 << 20, 60_000, Limits { cpu_secs: Some(30), ..DEFAULT_LIMITS });
    let replay = json!({"kind":"cli","source":rendered.text,"stdin":String::from_utf8_lossy(&b.stdin),"stdin_closed":b.stdin_closed,"interpreted":false,"binary": if bin == CLI_DEBUG_BIN { "unoptimised" } else { "optimised" }});
    match &out.status {
        Status::Timeout | Status::SpawnError(_) => return CaseOutcome::Inconclusive(format!("{:?}", out.status)),
        _ => {}
    }
    if !out.clean() {
        return CaseOutcome::Fail { key: key.to_string(), what: format!("a program of console interrupt calls ends with {:?} {} in the {} build", out.status, out.err_str().lines().find(|l| l.contains("panicked")).unwrap_or(""), if bin == CLI_DEBUG_BIN { "unoptimised (cargo's default profile)" } else { "optimised" }), replay };
    }
    let nt = b.stdin_closed || c.calls.iter().any(|(k, _)| matches!(k, Call::BufIn { .. }));
    CaseOutcome::Pass { nontrivial: nt, classes: vec![format!("{}/io-program-ends-normally", key.split('|').next().unwrap_or("c15"))], digest: fnv_str(&rendered.text) ^ fnv64(&b.stdin) }
}

pub fn run(ctx: &Ctx) {
    ctx.set_rule("L3 with piped stdin: proptest-generated programs of 1-4 interrupt calls (INT 21h AH=1, 2, 0Ah; INT 10h AH=0Ah, 13h), one in four a history of 3-6 calls drawn from a palette of two or three calls so that the same service comes back with the same DL / AL / CX after another one ran in between, with random AL/BX/CX/DX/SI/DI/BP and segment values and random flag-control instructions; AH=0Ah buffers mid-memory, at the end of a segment, ending at FFFFFh and wrapping past it, capacity 0/1/2/5/254/255/random, pre-filled with CCh from 2 bytes before to 8 bytes after; input lines empty / one shorter than / equal to / one longer than / 40 longer than the capacity, with two-byte characters; stdin complete, without final newline, ending one line early, or closed; AH=13h strings in the data section incl. segments FFFEh/FFFFh so that the text crosses 2^20, characters >= 80h; CX up to 600 for AH=0Ah. After every call the program prints registers, flags and the buffer region; stdout is tokenised and compared event by event with the reference machine (characters written, AL results, every other register, all flags, memory). The stored count of AH=0Ah is read back and must be <= capacity and <= line length (and not more than one short of both). Plus EVERY AH value 0..=255 for both interrupts (512 programs): unsupported values must be reported for the right line and nothing after them may execute. Non-trivial = input longer than the capacity, closed stdin, a buffer or string within 8 bytes of 2^20, CX >= 256.");
    ctx.assume("bytes >= 80h are written as the UTF-8 encoding of that code point (how the emulator prints a byte converted to char); a line terminator (CR, LF, NUL, '$') directly after the stored characters of AH=0Ah is accepted; AH=1 on an empty line is not generated (whether its first byte is the newline is not specified); stdin is valid UTF-8");
    ctx.set_exhaustive(false);
    if !cli_available() {
        ctx.harness_error("CLI binary not built");
        return;
    }
    let n = ctx.tier.pick(1_000usize, 30_000usize);
    run_cases(ctx, "c18", n, case_s, eval, |c| {
        let b = build(c);
        json!({"source": render_program(&b.prog, &crate::progs::Layout::plain()).text, "stdin": String::from_utf8_lossy(&b.stdin), "stdin_closed": b.stdin_closed})
    });
    // every AH for both interrupts
    use rayon::prelude::*;
    let all: Vec<(u8, u8)> = (0..=255u8).flat_map(|ah| [(0x10u8, ah), (0x21u8, ah)]).collect();
    let outcomes: Vec<((u8, u8), CaseOutcome)> = all
        .par_iter()
        .map(|(n, ah)| {
            let supported = (*n == 0x10 && (*ah == 0x0A || *ah == 0x13)) || (*n == 0x21 && (*ah == 1 || *ah == 2 || *ah == 0x0A));
            let call = if supported {
                match (*n, *ah) {
                    (0x10, 0x0A) => Call::RepChar { al: b'#', cx: 3 },
                    (0x10, _) => Call::PutStr { seg: 0x9000, bp: 1, dl: 2, text: b"!#$".to_vec() },
                    (_, 1) => Call::GetChar { line: b"xyz".to_vec() },
                    (_, 2) => Call::PutChar { dl: b'@' },
                    _ => Call::BufIn { cap: 3, seg: 0x2000, off: 0x100, line: b"hello".to_vec() },
                }
            } else {
                Call::Unsupported { int: *n, ah: *ah }
            };
            let c = Case18 { calls: vec![(call, [0x1111, 0x2222, 0x3333, 0x4444]), (Call::PutChar { dl: b'!' }, [1, 2, 3, 4])], stdin_mode: 0, tweaks: vec![], choices: vec![0] };
            ((*n, *ah), eval(&c))
        })
        .collect();
    for ((n, ah), o) in outcomes {
        ctx.add_evals(1);
        ctx.class("c18/every-AH", 1);
        match o {
            CaseOutcome::Pass { .. } => ctx.add_nontrivial(1),
            CaseOutcome::Fail { key, what, replay } => ctx.fail(Failure { key: format!("{}|every-AH", key), what: format!("int {:02X}h AH={:02X}h: {}", n, ah, what), replay }),
            CaseOutcome::Inconclusive(w) => ctx.inconclusive(&w),
            CaseOutcome::Known(k) => ctx.known_hit(&k, 1),
        }
    }
    // a one-line source without a final newline (nothing but the statement line itself for the report to cite)
    for (n, ah, supported) in [(0x21u8, 5u8, false), (0x10, 2, false), (0x21, 0x4C, false), (0x10, 0x0E, false), (0x21, 2, true)] {
        let src = format!("start: mov dl, 33 mov ah, {} int 0x{:02X}", ah, n);
        let out = run_cli(src.as_bytes(), Stdin::Closed, false, 1 << 20, 20_000);
        ctx.add_evals(1);
        let replay = json!({"kind":"cli","source":src,"stdin":"","interpreted":false});
        if matches!(out.status, Status::Timeout | Status::SpawnError(_)) {
            ctx.inconclusive(&format!("one-line program: {:?}", out.status));
            continue;
        }
        let so = out.out_str();
        if !out.clean() {
            ctx.fail(Failure { key: "c18|one-line|abnormal-exit".into(), what: format!("{:?}: status {:?} {}", src, out.status, out.err_str().lines().next().unwrap_or("")), replay });
        } else if supported && !so.contains('!') {
            ctx.fail(Failure { key: "c18|one-line|no-output".into(), what: format!("{:?}: the character was not written (stdout {:?})", src, so), replay });
        } else if !supported && !(so.contains("not supported") && so.contains("Exiting")) {
            ctx.fail(Failure { key: "c18|one-line|unsupported-not-reported".into(), what: format!("{:?}: unsupported AH not reported (stdout {:?})", src, so), replay });
        } else {
            ctx.add_nontrivial(1);
            ctx.class("c18/one-line-program", 1);
        }
    }
    for k in ["c18/21h-01", "c18/21h-02", "c18/21h-0A", "c18/10h-0A", "c18/10h-13", "c18/line-longer-than-capacity", "c18/capacity-0", "c18/buffer-near-or-across-2^20", "c18/string-across-2^20", "c18/string-starts-at-or-beyond-2^20", "c18/cx>=256", "c18/stdin-closed", "c18/stdin-ends-early", "c18/stdin-no-final-newline", "c18/char>=80h"] {
        ctx.require_class(k, 20);
    }
    for k in ["c18/history-same-screen-call-again-after-another", "c18/history-13h-0Ah-13h-same-column", "c18/history-5-or-more-calls"] {
        ctx.require_class(k, 5);
    }
}

#[allow(dead_code)]
pub fn replay(_v: &Value) -> Result<String, String> {
    Err("C18 cases are replayed through the generic CLI replay".into())
}
