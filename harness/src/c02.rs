//! C02 -- logic, shift and rotate instructions for every value and count.
use crate::common::*;
use crate::l0::*;
use crate::refmodel::*;

pub fn run(ctx: &Ctx) {
    if !crate::l0::L0_DIRECT {
        ctx.note("the signatures of the public instruction functions in the working tree differ from the L0 tables: the harness was built without the direct calls, the L0 sweeps are skipped and the L1 (assembler + interpreter) and L3 (CLI) parts decide");
    }
    ctx.set_rule("L0: all 256 byte values x all 256 counts x CF_in x 3 prior flag words for the 7 shift/rotate functions, all 2^16 byte pairs for AND/OR/XOR/TEST (enumerated, distinct by construction); word values: lattice L16 x all 256 counts x CF_in in quick, all 65536 values x 256 counts x CF_in in thorough; word logic on lattice^2. L1: every operand form (register, memory, data label; immediate and CL counts) through Preprocessor+Interpreter with whole-machine comparison. Non-trivial = count outside 1..4 (0, >= width, multiples of width / width+1), rotate through carry with count >= 2, or memory/label destination.");
    ctx.assume("shift/rotate reference = `count` repetitions of the manual's single-bit step (no count masking: 8086), self-checked against closed forms; OF compared only for count 1, AF not compared for logic/shifts (undefined in the manual)");
    let openq = Quirks::none();
    let priors: [u16; 3] = [0x0000, 0xFFFF, 0xF002];
    for f in shift_fns().into_iter().filter(|f| f.w == 8) {
        let out = par_sweep(256, |a, vm, out| {
            for n in 0..256u32 {
                for cf in [0u16, 1] {
                    for (i, prior) in priors.iter().enumerate() {
                        let p = Point { a, b: n, dx: 0, flags: (prior & !CF) | cf };
                        let nt = n == 0 || n >= 5;
                        sweep_point(vm, &f, &p, &openq, out, nt && i == 0);
                    }
                }
            }
        });
        report(ctx, &f, "byte-exhaustive", out, &openq);
    }
    let lat = lattice16();
    let word_vals: Vec<u32> = if ctx.tier == Tier::Thorough { (0..65536u32).collect() } else { lat.iter().map(|v| *v as u32).collect() };
    ctx.set_exhaustive(ctx.tier == Tier::Thorough);
    for f in shift_fns().into_iter().filter(|f| f.w == 16) {
        let wv = word_vals.clone();
        let chunks = 64u32;
        let out = par_sweep(chunks, |c, vm, out| {
            let mut i = c as usize;
            while i < wv.len() {
                let a = wv[i];
                for n in 0..256u32 {
                    for cf in [0u16, 1] {
                        let p = Point { a, b: n, dx: 0, flags: 0xF002 & !CF | cf };
                        let nt = n == 0 || n >= 5;
                        sweep_point(vm, &f, &p, &openq, out, nt);
                    }
                }
                i += chunks as usize;
            }
        });
        report(ctx, &f, if ctx.tier == Tier::Thorough { "word-exhaustive" } else { "word-lattice" }, out, &openq);
    }
    for f in logic_fns().into_iter().filter(|f| f.w == 8) {
        let out = par_sweep(256, |a, vm, out| {
            for b in 0..256u32 {
                for (i, prior) in priors.iter().enumerate() {
                    let p = Point { a, b, dx: 0, flags: *prior };
                    sweep_point(vm, &f, &p, &openq, out, i == 0 && (a & b == 0 || (a | b) & 0x80 != 0));
                }
            }
        });
        report(ctx, &f, "byte-exhaustive", out, &openq);
    }
    for f in logic_fns().into_iter().filter(|f| f.w == 16) {
        let l2 = lat.clone();
        let out = par_sweep(lat.len() as u32, |ai, vm, out| {
            let a = l2[ai as usize] as u32;
            for &b in &l2 {
                for (i, prior) in priors.iter().enumerate() {
                    let p = Point { a, b: b as u32, dx: 0, flags: *prior };
                    sweep_point(vm, &f, &p, &openq, out, i == 0);
                }
            }
        });
        report(ctx, &f, "word-lattice", out, &openq);
    }
    for f in shift_fns().iter().chain(logic_fns().iter()) {
        let sweep = if f.w == 8 { "byte-exhaustive" } else if ctx.tier == Tier::Thorough && matches!(f.kind, Kind::Sh(_)) { "word-exhaustive" } else { "word-lattice" };
        ctx.require_class(&format!("l0/{}/{}", sweep, f.name), 1000);
    }
    crate::l1::run_forms(ctx, crate::l1::FormSet::Logic);
    crate::l3fam::run(ctx, crate::l3fam::Fam::Set(crate::l1::FormSet::Logic), ctx.tier.pick(320usize, 6000usize));
    if ctx.tier == Tier::Thorough {
        crate::fuzzrun::exec_campaign(ctx, &["and", "or", "xor", "test", "not", "sal", "shl", "sar", "shr", "rol", "ror", "rcl", "rcr"], &[]);
    }
}
