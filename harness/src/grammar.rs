//! Run-time extraction of terminals from the working tree's source grammar, so that a grammar
//! edit cannot silently fall outside the generators.
#![allow(dead_code)]
use crate::common::*;
use std::collections::BTreeSet;

pub const PRE_GRAMMAR: &str = "/repo/src/lib/preprocessor/preprocessor.lalrpop";

/// all double-quoted terminals on the left of `=>` or alone in an alternative list
pub fn all_terminals() -> BTreeSet<String> {
    terminals_of(PRE_GRAMMAR)
}

pub const DOWNSTREAM_GRAMMARS: [&str; 3] = ["/repo/src/lib/interpreter/interpreter.lalrpop", "/repo/src/lib/data_parser/data_parser.lalrpop", "/repo/src/driver/print.lalrpop"];

/// identifier-like terminals that one of the downstream grammars (interpreter, data loader, print reader) of the
/// working tree knows although the assembler's grammar does not: such a word is an ordinary NAME for the
/// assembler and a keyword further down
pub fn downstream_only_words() -> Vec<String> {
    let pre = all_terminals();
    let mut out: BTreeSet<String> = BTreeSet::new();
    for g in DOWNSTREAM_GRAMMARS {
        for t in terminals_of(g) {
            let ident = t.chars().next().map(|c| c == '_' || c.is_ascii_alphabetic()).unwrap_or(false) && t.chars().all(|c| c == '_' || c.is_ascii_alphanumeric());
            if ident && !pre.contains(&t) {
                out.insert(t);
            }
        }
    }
    out.into_iter().collect()
}

pub fn terminals_of(path: &str) -> BTreeSet<String> {
    let txt = std::fs::read_to_string(path).unwrap_or_default();
    let mut out = BTreeSet::new();
    for line in txt.lines() {
        let l = line.trim();
        if l.starts_with("//") {
            continue;
        }
        // take quoted strings that appear before "=>"; lines without an arrow only count when
        // they are a bare terminal of an alternative list ("set",) -- never action code
        let head = match l.find("=>") {
            Some(i) => &l[..i],
            None => {
                let t = l.trim_end_matches(',');
                if t.starts_with('"') && t.ends_with('"') && t.matches('"').count() == 2 {
                    l
                } else {
                    continue;
                }
            }
        };
        if head.contains("format!") || head.contains("error!") || head.contains("push(") {
            continue;
        }
        let mut rest = head;
        while let Some(i) = rest.find('"') {
            let r2 = &rest[i + 1..];
            if let Some(j) = r2.find('"') {
                let tok = &r2[..j];
                if !tok.is_empty() && !rest[..i].ends_with('r') && !rest[..i].ends_with("r#") {
                    out.insert(tok.to_string());
                }
                rest = &r2[j + 1..];
            } else {
                break;
            }
        }
    }
    out
}

/// terminals inside one named production block `name:Type = { ... }`
pub fn block_terminals(name: &str) -> BTreeSet<String> {
    let txt = std::fs::read_to_string(PRE_GRAMMAR).unwrap_or_default();
    let mut out = BTreeSet::new();
    let mut inside = false;
    for line in txt.lines() {
        let l = line.trim();
        if !inside {
            if l.starts_with(name) && l[name.len()..].trim_start().starts_with(':') {
                inside = true;
            }
            continue;
        }
        if l.starts_with('}') {
            break;
        }
        if l.starts_with("//") {
            continue;
        }
        if let Some(i) = l.find('"') {
            let r2 = &l[i + 1..];
            if let Some(j) = r2.find('"') {
                out.insert(r2[..j].to_string());
            }
        }
    }
    out
}

pub fn crosscheck_jumps(ctx: &Ctx, jcc: &[String], lp: &[String]) {
    let g = block_terminals("quote_jmps_loops");
    let mine: BTreeSet<String> = jcc.iter().chain(lp.iter()).cloned().collect();
    let unknown: Vec<&String> = g.difference(&mine).collect();
    let missing: Vec<&String> = mine.difference(&g).collect();
    ctx.extra(
        "grammar_crosscheck",
        serde_json::json!({"grammar_jump_terminals": g.len(), "table": mine.len(), "in_grammar_not_in_table": unknown, "in_table_not_in_grammar": missing}),
    );
    if !unknown.is_empty() {
        ctx.note(&format!("jump terminals in the grammar unknown to the table (not decided): {:?}", unknown));
    }
}
