//! L1/L2: one source instruction, rendered under a random spelling, assembled by the
//! Preprocessor, executed by the Interpreter on a prepared machine, compared with the
//! machine-level reference model (all registers, all flag bits, all 1 MiB of memory).
#![allow(dead_code)]
use crate::asm::*;
use crate::common::*;
use crate::emu::*;
use crate::machine::*;
use crate::pipeline::*;
use crate::pt;
use crate::refmodel::*;
use emulator_8086_lib::VM;
use proptest::prelude::*;
use rayon::prelude::*;
use serde_json::{json, Value};
use std::sync::OnceLock;

pub static BG: OnceLock<BgMem> = OnceLock::new();
pub fn bgmem() -> &'static BgMem {
    BG.get_or_init(BgMem::new)
}

/// all bytes that differ from the template, restoring them (chunked compare)
pub fn diff_vs_template(vm: &mut VM) -> Vec<(u32, u8)> {
    let t = &bgmem().template;
    let mut out = Vec::new();
    const CH: usize = 4096;
    for c in 0..(MB / CH) {
        let s = c * CH;
        if vm.mem[s..s + CH] != t[s..s + CH] {
            for i in s..s + CH {
                if vm.mem[i] != t[i] {
                    out.push((i as u32, vm.mem[i]));
                    vm.mem[i] = t[i];
                }
            }
        }
    }
    out
}

#[derive(Clone, Copy, Debug, PartialEq, Eq)]
pub struct Fix {
    pub off_class: u8,
    pub phys_class: u8,
    pub sp_class: u8,
    pub str_class: u8,
}

#[derive(Clone, Debug)]
pub struct Case {
    pub insn: Insn,
    pub regs: Regs,
    pub fix: Fix,
    pub memval: Option<u16>,
    pub choices: Vec<u8>,
    pub label_off: u16,
    /// explicit memory contents before the step (physical address, value)
    pub pre_mem: Vec<(u32, u8)>,
    /// do not run fixup (registers are exactly as given)
    pub exact: bool,
}

pub fn regs_s() -> BoxedStrategy<Regs> {
    let v = proptest::collection::vec(pt::u16s(), 12);
    (v, pt::flagword())
        .prop_map(|(v, f)| {
            let mut r = Regs::default();
            for i in 0..12 {
                r.r[i] = v[i];
            }
            r.r[FLAGS] = f;
            r.r[IP] = 0;
            r
        })
        .boxed()
}

pub fn fix_s() -> BoxedStrategy<Fix> {
    let cls = |n: u8| prop_oneof![3 => Just(0u8), 2 => 1u8..=n];
    (cls(4), cls(4), cls(7), cls(6))
        .prop_map(|(a, b, c, d)| Fix { off_class: a, phys_class: b, sp_class: c, str_class: d })
        .boxed()
}

pub fn label_off_s() -> BoxedStrategy<u16> {
    prop_oneof![
        3 => proptest::sample::select(vec![0u16, 1, 2, 7, 15, 16, 255, 256, 4095, 32767, 32768, 65533]),
        1 => 0u16..=65533,
    ]
    .boxed()
}

pub fn case_s(insn: BoxedStrategy<Insn>) -> BoxedStrategy<Case> {
    (insn, regs_s(), fix_s(), proptest::option::weighted(0.5, pt::u16s()), choices_s(24), label_off_s())
        .prop_map(|(insn, regs, fix, memval, choices, label_off)| Case { insn, regs, fix, memval, choices, label_off, pre_mem: vec![], exact: false })
        .boxed()
}

/// Deterministically adjust the generated registers so that the operand's address sums hit
/// the boundary classes (offset sum at FFFE/FFFF/0/1, physical address around 2^20, SS:SP
/// classes, string pointers).
pub fn fixup(case: &Case) -> Regs {
    let mut r = case.regs;
    if case.exact {
        return r;
    }
    let insn = &case.insn;
    let mut seg_idx: Option<usize> = None;
    let mut cur_off: Option<u16> = None;
    if let Some((_, m)) = insn.mem_operand() {
        let target_off: Option<u16> = match case.fix.off_class {
            1 => Some(0xFFFE),
            2 => Some(0xFFFF),
            3 => Some(0x0000),
            4 => Some(0x0001),
            _ => None,
        };
        let d16 = |d: i32| d as u16;
        if let Some(t) = target_off {
            match m.shape {
                Shape::Direct(_) => {}
                Shape::Ind(x) => r.r[x.idx()] = t,
                Shape::Based(x, d) | Shape::Indexed(x, d) => r.r[x.idx()] = t.wrapping_sub(d16(d)),
                Shape::BasedIdx(b, i, d) => {
                    r.r[b.idx()] = t.wrapping_sub(r.r[i.idx()]).wrapping_sub(d16(d.unwrap_or(0)))
                }
            }
        }
        let mach = Machine::new(r);
        let (_, off) = mach.ea(&m);
        cur_off = Some(off);
        seg_idx = Some(match m.seg {
            Some(s) => s.idx(),
            None => {
                if m.uses_bp() {
                    SS
                } else {
                    DS
                }
            }
        });
    } else if insn.label_operand().is_some() {
        cur_off = Some(case.label_off);
        seg_idx = Some(DS);
    }
    if let (Some(si), Some(off)) = (seg_idx, cur_off) {
        let target: Option<u32> = match case.fix.phys_class {
            1 => Some(0xFFFFE),
            2 => Some(0xFFFFF),
            3 => Some(0x100000),
            4 => Some(0x100001),
            _ => None,
        };
        if let Some(t) = target {
            // seg*16 + off == t  needs (t - off) % 16 == 0
            let diff = t as i64 - off as i64;
            if diff >= 0 && diff % 16 == 0 && diff / 16 <= 0xFFFF {
                r.r[si] = (diff / 16) as u16;
            } else if diff >= 0 {
                // nearest reachable: the physical address is then within 15 of the target
                let s = (diff / 16).min(0xFFFF);
                r.r[si] = s as u16;
            }
        }
    }
    let mn = insn.mn;
    if matches!(mn, "push" | "pop" | "pushf" | "popf") {
        match case.fix.sp_class {
            1 => r.r[SP] = 0,
            2 => r.r[SP] = 1,
            3 => r.r[SP] = 0xFFFF,
            4 => r.r[SP] = 0xFFFE,
            5 => {
                r.r[SS] = 0xFFFF;
                r.r[SP] = 0x000E + (case.regs.r[SP] & 3);
            }
            6 => {
                r.r[SS] = 0xFFFF;
                r.r[SP] = 0x0010 + (case.regs.r[SP] & 1);
            }
            7 => r.r[SS] = 0,
            _ => {}
        }
    }
    if matches!(mn, "movs" | "lods" | "stos" | "cmps" | "scas") {
        match case.fix.str_class {
            1 => {
                r.r[SI] = 0xFFFF - (case.regs.r[SI] & 3);
                r.r[DI] = 0xFFFF - (case.regs.r[DI] & 3);
            }
            2 => {
                r.r[SI] = case.regs.r[SI] & 3;
                r.r[DI] = case.regs.r[DI] & 3;
            }
            3 => {
                r.r[DS] = 0xFFFF;
                r.r[SI] = 0x000C + (case.regs.r[SI] & 7);
            }
            4 => {
                r.r[ES] = 0xFFFF;
                r.r[DI] = 0x000C + (case.regs.r[DI] & 7);
            }
            5 => {
                r.r[ES] = r.r[DS];
            }
            6 => {
                // overlapping source and destination ranges
                r.r[ES] = r.r[DS];
                r.r[DI] = r.r[SI].wrapping_add((case.regs.r[DI] & 7).wrapping_sub(3));
            }
            _ => {}
        }
        if insn.prefix.is_some() {
            // bounded repetition counts (the dedicated C07 check enumerates CX)
            r.r[CX] = case.regs.r[CX] % 40;
        }
    }
    if mn == "xlat" && case.fix.phys_class != 0 {
        r.r[DS] = 0xFFFF;
        r.r[BX] = 0x0010u16.wrapping_sub(case.regs.r[BX] & 0xFF);
    }
    r
}

pub fn source_for(case: &Case) -> (String, Vec<(String, u16)>) {
    let uses_label = case.insn.label_operand().is_some();
    let mut src = String::new();
    let mut labels: Vec<(String, u16)> = Vec::new();
    if uses_label {
        // the label's definition may follow a SET (its offset is counted from there; where DS points at run time is the
        // machine state's business)
        if case.choices.len() > 3 && case.choices[3] & 1 == 1 {
            src.push_str(&format!("set {}\n", [1u16, 0x0102, 0x000F, 0xFFFF, 0x2001, 0x0010][(case.choices[3] >> 1) as usize % 6]));
        }
        if case.label_off > 0 {
            src.push_str(&format!("db [{}]\n", case.label_off));
        }
        src.push_str(&format!("{}: dw 0\n", LBL));
        labels.push((LBL.to_string(), case.label_off));
    }
    let uses_name = case.insn.ops.iter().any(|o| matches!(o, Opd::Name(_)));
    if case.insn.mn == "call" {
        src.push_str(&format!("def {} {{ ret }}\n", PROC));
    }
    let mut ch = Choices::new(case.choices.clone());
    let text = render_insn(&case.insn, &mut ch, &labels);
    src.push_str("start: ");
    src.push_str(&text);
    src.push('\n');
    if uses_name && case.insn.mn != "call" {
        src.push_str(&format!("{}: hlt\n", TGT));
    }
    (src, labels)
}

pub fn case_to_json(c: &Case) -> Value {
    json!({"insn": insn_to_json(&c.insn), "regs": c.regs.to_json(),
        "fix": [c.fix.off_class, c.fix.phys_class, c.fix.sp_class, c.fix.str_class],
        "memval": c.memval, "choices": c.choices, "label_off": c.label_off,
        "pre_mem": c.pre_mem.iter().map(|(a, v)| json!([a, v])).collect::<Vec<_>>(), "exact": c.exact})
}
pub fn case_from_json(v: &Value) -> Case {
    let f: Vec<u8> = v["fix"].as_array().map(|a| a.iter().map(|x| x.as_u64().unwrap_or(0) as u8).collect()).unwrap_or(vec![0; 4]);
    Case {
        insn: insn_from_json(&v["insn"]),
        regs: Regs::from_json(&v["regs"]),
        fix: Fix { off_class: f[0], phys_class: f[1], sp_class: f[2], str_class: f[3] },
        memval: v["memval"].as_u64().map(|x| x as u16),
        choices: v["choices"].as_array().map(|a| a.iter().map(|x| x.as_u64().unwrap_or(0) as u8).collect()).unwrap_or_default(),
        label_off: v["label_off"].as_u64().unwrap_or(0) as u16,
        pre_mem: v["pre_mem"].as_array().map(|a| a.iter().map(|p| (p[0].as_u64().unwrap_or(0) as u32, p[1].as_u64().unwrap_or(0) as u8)).collect()).unwrap_or_default(),
        exact: v["exact"].as_bool().unwrap_or(false),
    }
}

#[derive(Debug)]
pub enum Verdict {
    Pass { nontrivial: bool, classes: Vec<String> },
    /// assembler refused the (documented) form -- outside the quantifier of the value properties
    Rejected(String),
    Known(&'static str),
    Fail { aspect: String, detail: String, replay: Value },
}

pub struct Worker {
    pub vm: VM,
}
impl Worker {
    pub fn new() -> Worker {
        let mut vm = VM::new();
        bgmem().fill(&mut vm);
        Worker { vm }
    }
}

fn outcome_matches(exp: &Outcome, obs: &StepOut, asm: &Assembled) -> bool {
    match (exp, obs) {
        (Outcome::Next, StepOut::State(St::Next)) => true,
        (Outcome::Halt, StepOut::State(St::Halt)) => true,
        (Outcome::Print, StepOut::State(St::Print)) => true,
        (Outcome::Int(n), StepOut::State(St::Int(m))) => n == m,
        (Outcome::JmpIdx(i), StepOut::State(St::Jmp(j))) => i == j,
        (Outcome::JmpLabel(n), StepOut::State(St::Jmp(j))) => asm.code_label(n) == Some(*j),
        (Outcome::JmpProc(n), StepOut::State(St::Jmp(j))) => asm.ictx.fn_map.get(n) == Some(j),
        // the defined run-time diagnostic (custom errors ride on lalrpop's UnrecognizedToken with an empty token)
        (Outcome::Error, StepOut::Err(e)) => !e.contains("Internal Error") && e.contains("Unrecognized token `` found") && e.contains("ret is encountered without corresponding call"),
        _ => false,
    }
}

/// compare one Expect with the observation; None = matches, Some(aspect, detail) otherwise
pub fn compare(
    e: &Expect,
    obs_regs: &Regs,
    obs_out: &StepOut,
    obs_mem: &[(u32, u8)],
    obs_stack: &[usize],
    asm: &Assembled,
) -> Option<(String, String)> {
    if !outcome_matches(&e.outcome, obs_out, asm) {
        return Some(("outcome".into(), format!("expected {:?} observed {:?}", e.outcome, obs_out)));
    }
    for i in 0..14 {
        if i == FLAGS || i == IP {
            continue;
        }
        if e.dc_regs & (1 << i) != 0 {
            continue;
        }
        if e.regs.r[i] != obs_regs.r[i] {
            return Some((
                format!("reg-{}", REG_NAMES[i]),
                format!("{} expected {:04X} observed {:04X}", REG_NAMES[i], e.regs.r[i], obs_regs.r[i]),
            ));
        }
    }
    let fd = (e.regs.r[FLAGS] ^ obs_regs.r[FLAGS]) & !e.undef_flags;
    if fd != 0 {
        let mut names = Vec::new();
        for (m, n) in crate::l0::FLAG_BITS {
            if fd & m != 0 {
                names.push(n);
            }
        }
        if fd & !STATUS != 0 {
            names.push("nonstatus");
        }
        return Some((
            format!("flags-{}", names.join("+")),
            format!("flags expected {:04X} observed {:04X} (undefined {:04X})", e.regs.r[FLAGS], obs_regs.r[FLAGS], e.undef_flags),
        ));
    }
    let want = e.mem.final_diff();
    if want.as_slice() != obs_mem {
        let mut d = String::new();
        let mut n = 0;
        for (a, v) in &want {
            match obs_mem.iter().find(|(x, _)| x == a) {
                Some((_, o)) if o == v => {}
                Some((_, o)) => {
                    if n < 4 {
                        d.push_str(&format!("[{:05X}] expected {:02X} observed {:02X}; ", a, v, o));
                    }
                    n += 1;
                }
                None => {
                    if n < 4 {
                        d.push_str(&format!("[{:05X}] expected {:02X} observed {:02X} (unchanged); ", a, v, bg(*a as usize)));
                    }
                    n += 1;
                }
            }
        }
        for (a, o) in obs_mem {
            if !want.iter().any(|(x, _)| x == a) {
                if n < 4 {
                    d.push_str(&format!("[{:05X}] expected {:02X} (untouched) observed {:02X}; ", a, bg(*a as usize), o));
                }
                n += 1;
            }
        }
        return Some(("memory".into(), format!("{} byte(s) differ: {}", n, d)));
    }
    if e.call_stack.as_slice() != obs_stack {
        return Some(("call-stack".into(), format!("expected {:?} observed {:?}", e.call_stack, obs_stack)));
    }
    None
}

fn expect_json(e: &Expect) -> Value {
    json!({
        "regs": e.regs.to_json(),
        "undef_flags": e.undef_flags,
        "dc_regs": e.dc_regs,
        "mem": e.mem.final_diff().iter().map(|(a,v)| json!([a,v])).collect::<Vec<_>>(),
        "outcome": format!("{:?}", e.outcome),
        "call_stack": e.call_stack,
    })
}

/// Run one case. `call_stack` = interpreter call stack before the instruction.
pub fn run_case(wk: &mut Worker, case: &Case, openq: &Quirks, call_stack: &[usize]) -> Verdict {
    let regs = fixup(case);
    let (src, labels) = source_for(case);
    let mut asm = match assemble(&src) {
        Ok(a) => a,
        Err(e) => {
            if e.starts_with("PANIC") {
                return Verdict::Fail {
                    aspect: "assembler-panic".into(),
                    detail: format!("{} on {:?}", e, src),
                    replay: json!({"kind":"l1","source":src,"pre_regs":regs.to_json(),"pre_mem":[],"accept":[],"insn":canonical(&case.insn),"call_stack":call_stack}),
                };
            }
            return Verdict::Rejected(e);
        }
    };
    let start = match asm.code_label("start") {
        Some(s) => s,
        None => return Verdict::Rejected("no start".into()),
    };
    let trailing = if case.insn.ops.iter().any(|o| matches!(o, Opd::Name(_))) && case.insn.mn != "call" { 1 } else { 0 };
    if asm.code.len() != start + 1 + trailing {
        return Verdict::Fail {
            aspect: "emitted-count".into(),
            detail: format!("one source instruction produced {:?}", asm.code),
            replay: json!({"kind":"l1","source":src,"pre_regs":regs.to_json(),"pre_mem":[],"accept":[],"insn":canonical(&case.insn),"call_stack":call_stack}),
        };
    }
    let line = asm.code[start].clone();
    // model
    let mut mach = Machine::new(regs);
    mach.call_stack = call_stack.to_vec();
    let env = Env { data_labels: &labels, current: start, string_straddle_both: true };
    // optional value at the (reference) operand address
    let mut pre: Vec<(u32, u8)> = case.pre_mem.clone();
    if let Some(v) = case.memval {
        let addr = if let Some((_, m)) = case.insn.mem_operand() {
            Some(mach.ea_phys(&m))
        } else if let Some((_, n)) = case.insn.label_operand() {
            Some(mach.label_phys(&env, n))
        } else {
            None
        };
        if let Some(a) = addr {
            pre.push((a & 0xFFFFF, v as u8));
            pre.push(((a + 1) & 0xFFFFF, (v >> 8) as u8));
        }
    }
    mach.mem.pre = pre.clone();
    let accept = mach.exec(&case.insn, &env, &Quirks::none());
    // implementation
    load(&mut wk.vm, &regs);
    for (a, v) in &pre {
        wk.vm.mem[*a as usize] = *v;
    }
    asm.ictx.call_stack = call_stack.to_vec();
    let cap = regs.r[CX] as u32 + 2;
    let mut iters = 0u32;
    let mut out;
    loop {
        out = step(&mut wk.vm, &mut asm.ictx, start, &line);
        iters += 1;
        if out != StepOut::State(St::Repeat) {
            break;
        }
        if iters > cap {
            break;
        }
    }
    let obs_regs = snap(&wk.vm);
    let obs_mem = diff_vs_template(&mut wk.vm);
    let obs_stack = asm.ictx.call_stack.clone();
    let replay = |accept: &Vec<Expect>| {
        json!({"kind":"l1","case":case_to_json(case),"source":src,"line":line,"insn":canonical(&case.insn),"pre_regs":regs.to_json(),
            "pre_mem":pre.iter().map(|(a,v)| json!([a,v])).collect::<Vec<_>>(),
            "accept":accept.iter().map(expect_json).collect::<Vec<_>>(),"call_stack":call_stack})
    };
    if out == StepOut::State(St::Repeat) {
        return Verdict::Fail {
            aspect: "repeat-runaway".into(),
            detail: format!("'{}' still REPEAT after CX+2 = {} steps", line, cap),
            replay: replay(&accept),
        };
    }
    if let StepOut::Panic(p) = &out {
        return Verdict::Fail { aspect: "panic".into(), detail: format!("'{}' panicked: {}", line, panic_class(p)), replay: replay(&accept) };
    }
    let mut first: Option<(String, String)> = None;
    for e in &accept {
        match compare(e, &obs_regs, &out, &obs_mem, &obs_stack, &asm) {
            None => {
                // classes / non-triviality
                let mut classes = vec![format!("form/{}/{}", case.insn.mn, case.insn.form())];
                let mut nt = false;
                if let Some((w, m)) = case.insn.mem_operand() {
                    nt = true;
                    let (seg, off) = Machine::new(regs).ea(&m);
                    classes.push(format!("shape/{}", m.shape_name()));
                    classes.push(format!("override/{}", m.seg.map(|s| s.name()).unwrap_or("none")));
                    let lin = seg as u32 * 16 + off as u32;
                    if lin >= 0x100000 {
                        classes.push("ea/phys-wrap".into());
                    }
                    if lin & 0xFFFFF == 0xFFFFF && w == W::W {
                        classes.push("ea/word-straddles-2^20".into());
                    }
                    if off >= 0xFFFE {
                        classes.push("ea/offset-top".into());
                    }
                    if m.uses_bp() && m.seg.is_none() && regs.r[SS] != regs.r[DS] {
                        classes.push("ea/bp-default-ss".into());
                    }
                    if let Some(d) = m.disp() {
                        if d < 0 {
                            classes.push("ea/negative-disp".into());
                        }
                    }
                }
                if case.insn.label_operand().is_some() {
                    nt = true;
                    classes.push("operand/label".into());
                }
                let fl = e.regs.r[FLAGS] ^ regs.r[FLAGS];
                if fl & (CF | OF | AF | ZF) != 0 {
                    nt = true;
                }
                return Verdict::Pass { nontrivial: nt, classes };
            }
            Some(d) => {
                if first.is_none() {
                    first = Some(d);
                }
            }
        }
    }
    // not in the accept set: attributable to an open quirk?
    if openq.any() {
        if let Some(k) = quirk_key_for_insn(&case.insn) {
            let acc2 = mach.exec(&case.insn, &env, openq);
            if acc2.iter().any(|e| compare(e, &obs_regs, &out, &obs_mem, &obs_stack, &asm).is_none()) {
                return Verdict::Known(k);
            }
        }
    }
    let (aspect, detail) = first.unwrap_or(("none".into(), "empty accept set".into()));
    if let StepOut::Err(e) = &out {
        return Verdict::Fail {
            aspect: "interp-reject".into(),
            detail: format!("interpreter refused emitted line '{}': {}", line, e.lines().next().unwrap_or("")),
            replay: replay(&accept),
        };
    }
    Verdict::Fail { aspect, detail: format!("'{}' (source {:?}): {}", line, src, detail), replay: replay(&accept) }
}

#[derive(Clone, Copy, PartialEq, Eq, Debug)]
pub enum FormSet {
    Arith,
    Logic,
    MulDiv,
    Addressing,
    Transfer,
    Strings,
}

pub fn insn_strategy(set: FormSet) -> BoxedStrategy<Insn> {
    match set {
        FormSet::Arith => prop_oneof![
            4 => two_operand_forms(vec!["add", "adc", "sub", "sbb", "cmp"], true),
            2 => one_operand_forms(vec!["inc", "dec", "neg"]),
        ]
        .boxed(),
        FormSet::Logic => prop_oneof![
            3 => two_operand_forms(vec!["and", "or", "xor", "test"], false),
            1 => one_operand_forms(vec!["not"]),
            4 => shift_forms(),
        ]
        .boxed(),
        FormSet::MulDiv => prop_oneof![
            4 => one_operand_forms(vec!["mul", "imul", "div", "idiv"]),
            2 => singleton(vec!["aaa", "aas", "daa", "das", "aam", "aad", "cbw", "cwd"]),
        ]
        .boxed(),
        FormSet::Addressing => prop_oneof![
            3 => mov_forms(),
            2 => lea_forms(),
            2 => two_operand_forms(vec!["add", "sub", "xor", "or"], false),
            1 => one_operand_forms(vec!["not"]),
            1 => xchg_forms(),
            // memory operands of PUSH / POP are addressed like any other (the stack side is C05's subject)
            1 => push_pop_forms(),
        ]
        .boxed(),
        FormSet::Transfer => prop_oneof![
            4 => mov_forms(),
            3 => xchg_forms(),
            4 => push_pop_forms(),
            1 => singleton(vec!["lahf", "sahf", "xlat"]),
        ]
        .boxed(),
        FormSet::Strings => string_forms(),
    }
}

/// run a form set under proptest in 16 shards; failures are shrunk and reported
pub fn run_forms(ctx: &Ctx, set: FormSet) {
    let cases_total: u32 = ctx.tier.pick(320_000, 4_000_000);
    run_forms_n(ctx, set, cases_total, &format!("{:?}", set));
}

pub fn run_forms_n(ctx: &Ctx, set: FormSet, cases_total: u32, tag: &str) {
    let openq = Quirks::from_keys(|k| ctx.quirk_open(k));
    let shards = 16u32;
    let results: Vec<(Local, u64, Option<(Case, String)>)> = (0..shards)
        .into_par_iter()
        .map(|sh| {
            let wk = std::cell::RefCell::new(Worker::new());
            let local = std::cell::RefCell::new(Local::default());
            let rejected = std::cell::Cell::new(0u64);
            let strat = case_s(insn_strategy(set));
            let r = pt::run(ctx.sub_seed(tag, sh as u64), cases_total / shards, &strat, |case, counting| {
                let v = run_case(&mut wk.borrow_mut(), case, &openq, &[]);
                let mut l = local.borrow_mut();
                match v {
                    Verdict::Pass { nontrivial, classes } => {
                        if counting {
                            l.evals += 1;
                            for c in classes {
                                l.class(&c);
                            }
                            if nontrivial {
                                let (src, _) = source_for(case);
                                l.digests.push(fnv_str(&src) ^ fnv64(&case.regs.r.iter().flat_map(|x| x.to_le_bytes()).collect::<Vec<u8>>()));
                            }
                        }
                        Ok(())
                    }
                    Verdict::Rejected(_) => {
                        if counting {
                            l.evals += 1;
                            rejected.set(rejected.get() + 1);
                            l.class(&format!("assembler-rejected/{}/{}", case.insn.mn, case.insn.form()));
                        }
                        Ok(())
                    }
                    Verdict::Known(k) => {
                        if counting {
                            l.evals += 1;
                            l.known(k);
                        }
                        Ok(())
                    }
                    Verdict::Fail { aspect, detail, .. } => Err(format!("{}|{}", aspect, detail)),
                }
            });
            (local.into_inner(), rejected.get(), r)
        })
        .collect();
    let mut total = 0u64;
    let mut rej = 0u64;
    for (sh, (l, rj, fail)) in results.into_iter().enumerate() {
        total += l.evals;
        rej += rj;
        // only the owner property prints KNOWN-FINDING lines; others count under excluded
        l.merge_into(ctx);
        if let Some((case, _why)) = fail {
            // re-run the shrunk case to get the structured verdict
            let mut wk = Worker::new();
            if let Verdict::Fail { aspect, detail, replay } = run_case(&mut wk, &case, &openq, &[]) {
                ctx.fail(Failure {
                    key: format!("l1|{}|{}|{}", case.insn.mn, case.insn.form(), aspect),
                    what: format!("[{} shard {}] {} {}: {}", tag, sh, canonical(&case.insn), aspect, detail),
                    replay,
                });
            }
        }
    }
    ctx.class(&format!("l1/{}/cases", tag), total);
    ctx.class(&format!("l1/{}/assembler-rejected", tag), rej);
    if total > 0 && rej * 4 > total {
        ctx.harness_error(&format!("{}: {} of {} generated forms were rejected by the assembler (generator unsound?)", tag, rej, total));
    }
    // sample
    let strat = case_s(insn_strategy(set));
    let ex = pt::generate(ctx.sub_seed(tag, 999), 3, &strat);
    for c in ex {
        let (src, _) = source_for(&c);
        ctx.sample(json!({"kind":"l1","set":tag,"source":src,"regs":fixup(&c).to_json()}));
    }
}

/// replay a stored L1 case: re-run the implementation and compare with the stored accept set
pub fn replay(v: &Value) -> Result<String, String> {
    if v.get("case").is_some() {
        let case = case_from_json(&v["case"]);
        let cs: Vec<usize> = v.get("call_stack").and_then(|x| x.as_array()).map(|a| a.iter().map(|x| x.as_u64().unwrap_or(0) as usize).collect()).unwrap_or_default();
        let mut wk = Worker::new();
        let (src, _) = source_for(&case);
        return match run_case(&mut wk, &case, &Quirks::none(), &cs) {
            Verdict::Pass { .. } => Ok(format!("source {:?}: implementation agrees with the reference model", src)),
            Verdict::Rejected(e) => Ok(format!("source {:?}: rejected by the assembler: {}", src, e)),
            Verdict::Known(k) => Err(format!("source {:?}: known finding {}", src, k)),
            Verdict::Fail { aspect, detail, .. } => Err(format!("{}: {}", aspect, detail)),
        };
    }
    let src = v.get("source").and_then(|x| x.as_str()).ok_or("no source")?;
    let regs = Regs::from_json(v.get("pre_regs").ok_or("no regs")?);
    let mut asm = assemble(src).map_err(|e| format!("assembler: {}", e))?;
    let start = asm.code_label("start").ok_or("no start")?;
    let line = asm.code.get(start).cloned().ok_or("no emitted line")?;
    let mut wk = Worker::new();
    load(&mut wk.vm, &regs);
    if let Some(pm) = v.get("pre_mem").and_then(|x| x.as_array()) {
        for e in pm {
            let a = e[0].as_u64().unwrap_or(0) as usize;
            let b = e[1].as_u64().unwrap_or(0) as u8;
            wk.vm.mem[a & 0xFFFFF] = b;
        }
    }
    if let Some(cs) = v.get("call_stack").and_then(|x| x.as_array()) {
        asm.ictx.call_stack = cs.iter().map(|x| x.as_u64().unwrap_or(0) as usize).collect();
    }
    let cap = regs.r[CX] as u32 + 2;
    let mut iters = 0;
    let mut out;
    loop {
        out = step(&mut wk.vm, &mut asm.ictx, start, &line);
        iters += 1;
        if out != StepOut::State(St::Repeat) || iters > cap {
            break;
        }
    }
    let obs = snap(&wk.vm);
    let mem = diff_vs_template(&mut wk.vm);
    let mut report = format!("source {:?}\nemitted '{}'\nobserved: outcome {:?} regs {} mem-diff {:?}\n", src, line, out, obs.to_json(), mem);
    let mut ok = false;
    if let Some(acc) = v.get("accept").and_then(|x| x.as_array()) {
        for (i, e) in acc.iter().enumerate() {
            let er = Regs::from_json(&e["regs"]);
            let undef = e["undef_flags"].as_u64().unwrap_or(0) as u16;
            let dc = e["dc_regs"].as_u64().unwrap_or(0) as u16;
            let mut same = true;
            for r in 0..12 {
                if dc & (1 << r) == 0 && er.r[r] != obs.r[r] {
                    same = false;
                }
            }
            if (er.r[FLAGS] ^ obs.r[FLAGS]) & !undef != 0 {
                same = false;
            }
            let em: Vec<(u32, u8)> = e["mem"].as_array().map(|a| a.iter().map(|p| (p[0].as_u64().unwrap_or(0) as u32, p[1].as_u64().unwrap_or(0) as u8)).collect()).unwrap_or_default();
            if em != mem {
                same = false;
            }
            let eo = e["outcome"].as_str().unwrap_or("");
            let oo = match &out {
                StepOut::State(St::Next) => eo == "Next",
                StepOut::State(St::Halt) => eo == "Halt",
                StepOut::State(St::Print) => eo == "Print",
                StepOut::State(St::Int(n)) => eo == format!("Int({})", n),
                StepOut::State(St::Jmp(_)) => eo.starts_with("Jmp"),
                StepOut::Err(_) => eo == "Error",
                _ => false,
            };
            if !oo {
                same = false;
            }
            report.push_str(&format!("expected[{}]: outcome {} regs {} undef {:04X} mem-diff {:?}\n", i, eo, er.to_json(), undef, em));
            if same {
                ok = true;
            }
        }
    }
    if ok {
        Ok(report)
    } else {
        Err(report)
    }
}
