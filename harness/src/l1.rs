//! stub (replaced below)
use crate::common::*;
#[derive(Clone, Copy, PartialEq, Eq, Debug)]
pub enum FormSet { Arith, Logic, MulDiv }
pub fn run_forms(_ctx: &Ctx, _set: FormSet) {}
