//! C07 -- string instructions and REP move the right elements the right number of times.
use crate::asm::*;
use crate::common::*;
use crate::emu::*;
use crate::l1::*;
use crate::machine::phys;
use crate::refmodel::*;
use rayon::prelude::*;
use serde_json::json;

struct Combo {
    mn: &'static str,
    w: W,
    prefix: Option<&'static str>,
}

fn combos() -> Vec<Combo> {
    let mut v = Vec::new();
    for mn in ["movs", "lods", "stos"] {
        for w in [W::B, W::W] {
            v.push(Combo { mn, w, prefix: None });
            v.push(Combo { mn, w, prefix: Some("rep") });
        }
    }
    for mn in ["cmps", "scas"] {
        for w in [W::B, W::W] {
            v.push(Combo { mn, w, prefix: None });
            for p in ["repe", "repz", "repne", "repnz"] {
                v.push(Combo { mn, w, prefix: Some(p) });
            }
        }
    }
    v
}

/// address configurations: (name, ds, es, si, di) for DF=0; mirrored for DF=1
fn configs(df: bool, seed: u64) -> Vec<(&'static str, u16, u16, u16, u16)> {
    let r = |k: u64| (splitmix(seed ^ k) & 0x0FFF) as u16;
    let mid = 0x4000 + r(1);
    vec![
        ("same-seg-disjoint", 0x1000, 0x1000, mid, mid.wrapping_add(0x2000)),
        ("ds-ne-es-disjoint", 0x2000 + r(2), 0x5000 + r(3), mid, 0x1000 + r(4)),
        // dst = src + 2 physically (overlap, forward)
        ("overlap-dst-after-src", 0x1000, 0x1001, mid, mid.wrapping_sub(0x10).wrapping_add(2)),
        // dst = src - 3 physically (overlap, backward)
        ("overlap-dst-before-src", 0x1001, 0x1000, mid, mid.wrapping_add(0x10).wrapping_sub(3)),
        ("offset-crosses-FFFF", 0x3000, 0x6000, if df { 9 } else { 0xFFF5 }, if df { 12 } else { 0xFFF1 }),
        ("phys-crosses-2^20", 0xFFFF, 0xFFFE, if df { 0x0019 } else { 0x0006 }, if df { 0x002B } else { 0x0017 }),
    ]
}

pub fn run(ctx: &Ctx) {
    ctx.set_rule("every string mnemonic x width x DF x prefix allowed by syntax.md, every CX in 0..=64 (enumerated) x 6 address configurations (DS=ES, DS!=ES disjoint, overlapping forwards/backwards, SI/DI crossing FFFFh, run crossing 2^20) x memory contents placing the first (non-)matching element of CMPS/SCAS at chosen positions 0..=CX and never; the emitted line is re-issued while REPEAT comes back (cap CX+2); plus proptest-generated string cases with larger CX. All registers, flags and the whole memory are compared after completion. Non-trivial = CX in {0,1} or early termination, DF=1 with word width, DS != ES, overlap, wrap.");
    ctx.assume("a word element that straddles offset FFFFh inside a string instruction may be read/written either at physical+1 or at offset 0 of the segment (both accepted)");
    ctx.set_exhaustive(false);
    let openq = Quirks::from_keys(|k| ctx.quirk_open(k));
    let cmax: u16 = 64;
    let cs = combos();
    let jobs: Vec<(usize, bool)> = (0..cs.len()).flat_map(|i| [(i, false), (i, true)]).collect();
    let results: Vec<(Local, Vec<Failure>)> = jobs
        .par_iter()
        .map(|(ci, df)| {
            let c = &cs[*ci];
            let mut wk = Worker::new();
            let mut local = Local::default();
            let mut fails: Vec<Failure> = Vec::new();
            let insn = Insn { prefix: c.prefix, mn: c.mn, ops: vec![Opd::Wd(c.w)] };
            let step: u16 = if c.w == W::B { 1 } else { 2 };
            let cx_list: Vec<u16> = if c.prefix.is_some() { (0..=cmax).collect() } else { vec![0, 1, 5, 0xFFFF] };
            for (cname, ds, es, si, di) in configs(*df, ctx.seed ^ *ci as u64) {
                for &cx in &cx_list {
                    // termination positions for the comparing instructions
                    let positions: Vec<Option<u16>> = if matches!(c.mn, "cmps" | "scas") && c.prefix.is_some() {
                        let mut p: Vec<Option<u16>> = vec![None, Some(0)];
                        if cx > 0 {
                            p.push(Some(cx - 1));
                            p.push(Some(cx));
                            p.push(Some(cx / 2));
                            p.push(Some((splitmix(ctx.seed ^ cx as u64 ^ 77) % (cx as u64 + 1)) as u16));
                        }
                        p.sort();
                        p.dedup();
                        p
                    } else {
                        vec![None]
                    };
                    for pos in positions {
                        let mut regs = Regs::default();
                        regs.r = [0x1234, 0x0BB0, cx, 0x0DD0, 0x0100, 0x0200, si, di, 0xFFFF, ds, 0x0500, es, if *df { 0xF400 | 0x0002 } else { 0xF002 }, 0];
                        let mut pre_mem: Vec<(u32, u8)> = Vec::new();
                        if let Some(p) = pos {
                            // arrange contents: equal (repe) / different (repne) before p, the opposite at p
                            let want_equal_before = matches!(c.prefix, Some("repe") | Some("repz"));
                            let overlapping = cname.starts_with("overlap");
                            if !overlapping {
                                for k in 0..=p.min(cx) {
                                    let adv = |b: u16| if *df { b.wrapping_sub(k.wrapping_mul(step)) } else { b.wrapping_add(k.wrapping_mul(step)) };
                                    let d_off = adv(di);
                                    let equal = if k < p { want_equal_before } else { !want_equal_before };
                                    for b in 0..step {
                                        let da = phys(es, d_off.wrapping_add(b));
                                        let sv: u8 = if c.mn == "cmps" {
                                            bg(phys(ds, adv(si).wrapping_add(b)) as usize)
                                        } else if b == 0 {
                                            regs.r[AX] as u8
                                        } else {
                                            (regs.r[AX] >> 8) as u8
                                        };
                                        let v = if equal { sv } else if b == 0 { sv ^ 0x01 } else { sv };
                                        pre_mem.push((da, v));
                                    }
                                }
                            }
                        }
                        let case = Case { insn: insn.clone(), regs, fix: Fix { off_class: 0, phys_class: 0, sp_class: 0, str_class: 0 }, memval: None, choices: vec![(cx as u8).wrapping_mul(7).wrapping_add(*ci as u8)], label_off: 0, pre_mem, exact: true };
                        let v = run_case(&mut wk, &case, &openq, &[]);
                        local.evals += 1;
                        let nt = cx <= 1 || pos.is_some() || (*df && c.w == W::W) || ds != es || cname.contains("cross") || cname.starts_with("overlap");
                        if nt {
                            local.nontrivial += 1;
                        }
                        local.class(&format!("string/{}{}/{}/df{}", c.prefix.map(|p| format!("{} ", p)).unwrap_or_default(), c.mn, c.w.kw(), *df as u8));
                        local.class(&format!("config/{}", cname));
                        match v {
                            Verdict::Pass { .. } => {}
                            Verdict::Rejected(e) => {
                                if fails.len() < 3 {
                                    fails.push(Failure {
                                        key: format!("string|{}|assembler-rejected", c.mn),
                                        what: format!("assembler rejected documented string form '{}': {}", canonical(&insn), e.lines().next().unwrap_or("")),
                                        replay: json!({"kind":"l1","case":case_to_json(&case)}),
                                    });
                                }
                            }
                            Verdict::Known(k) => local.known(k),
                            Verdict::Fail { aspect, detail, replay } => {
                                if !fails.iter().any(|f| f.key.ends_with(&aspect)) && fails.len() < 6 {
                                    fails.push(Failure {
                                        key: format!("string|{}{}|{}|{}", c.prefix.map(|p| format!("{} ", p)).unwrap_or_default(), c.mn, c.w.kw(), aspect),
                                        what: format!("{} df={} cx={} config={} first-stop={:?}: {}", canonical(&insn), *df as u8, cx, cname, pos, detail),
                                        replay,
                                    });
                                }
                            }
                        }
                    }
                }
            }
            (local, fails)
        })
        .collect();
    for (l, fails) in results {
        l.merge_into(ctx);
        for f in fails {
            ctx.fail(f);
        }
    }
    for c in ["config/same-seg-disjoint", "config/ds-ne-es-disjoint", "config/overlap-dst-after-src", "config/overlap-dst-before-src", "config/offset-crosses-FFFF", "config/phys-crosses-2^20"] {
        ctx.require_class(c, 500);
    }
    ctx.sample(json!({"kind":"string-enumeration","source":"start: repne scas word","cx":"0..=64","df":[0,1],"configs":6,"first_stop":"None, 0, cx/2, cx-1, cx, seeded"}));
    // generated cases (larger CX, arbitrary registers)
    let n = ctx.tier.pick(120_000u32, 2_000_000u32);
    run_forms_n(ctx, FormSet::Strings, n, "Strings");
    crate::l3fam::run(ctx, crate::l3fam::Fam::Set(FormSet::Strings), ctx.tier.pick(320usize, 6000usize));
    if ctx.tier == Tier::Thorough {
        crate::fuzzrun::exec_campaign(ctx, &["movs", "lods", "stos", "cmps", "scas"], &[]);
    }
}
