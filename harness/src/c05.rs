//! C05 -- data transfer and stack instructions; the stack stays sound.
use crate::common::*;
use crate::l1::*;

pub fn run(ctx: &Ctx) {
    ctx.set_rule("D1: proptest-generated single MOV (22 forms), XCHG (10 forms, both operand orders), PUSH/POP (register, segment register, memory, label; CS only for PUSH), PUSHF/POPF/LAHF/SAHF/XLAT from source text through the assembler, on stratified machine states with SS:SP in {SP=0,1,FFFEh,FFFFh; SS:SP around 2^20; SS=0; uniform}; D2: push/pop histories (vec(op,0..40)) against a reference stack; whole machine compared after every step. Non-trivial = memory/label/segment-register operand, SP wrap, physical wrap, SS != 0, or a history that pops a value pushed >= 2 operations earlier.");
    ctx.assume("PUSH SP may store the old or the new SP; the value POP SP leaves in SP is not compared; LAHF/SAHF: only the five defined flag bits are compared");
    ctx.set_exhaustive(false);
    let n = ctx.tier.pick(300_000u32, 4_000_000u32);
    run_forms_n(ctx, FormSet::Transfer, n, "Transfer");
    crate::l3fam::run(ctx, crate::l3fam::Fam::Set(FormSet::Transfer), ctx.tier.pick(320usize, 6000usize));
    if ctx.tier == Tier::Thorough {
        crate::fuzzrun::exec_campaign(ctx, &["mov", "xchg", "push", "pop", "pushf", "popf", "lahf", "sahf", "xlat"], &[]);
    }
    crate::hist::run_stack_histories(ctx);
}
