//! Byte-level decoder for the coverage-guided `exec` target: fuzzer bytes -> one single-instruction case
//! (instruction shape from the enumerator with its operands re-chosen from the bytes, machine state,
//! address fix-up classes, value at the operand, spelling choices).  Every byte has a fixed meaning, so
//! libFuzzer's mutations stay local and its compare tracing can steer operand values.
//! (proptest's pass-through RNG cannot be used for this: every `prop_oneof!` arm forks the RNG and
//! halves the remaining bytes, so union-heavy strategies exhaust any input and then never terminate.)
use crate::asm::*;
use crate::emu::*;
use crate::l1::{Case, Fix};

pub struct Rd<'a> {
    d: &'a [u8],
    p: usize,
}
impl<'a> Rd<'a> {
    pub fn new(d: &'a [u8]) -> Rd<'a> {
        Rd { d, p: 0 }
    }
    pub fn u8(&mut self) -> u8 {
        let v = self.d.get(self.p).copied().unwrap_or(0);
        self.p += 1;
        v
    }
    pub fn u16(&mut self) -> u16 {
        let lo = self.u8() as u16;
        let hi = self.u8() as u16;
        lo | hi << 8
    }
}

fn remap_mem(m: &Mem, rd: &mut Rd) -> Mem {
    let seg = match rd.u8() % 8 {
        0 => Some(Seg::ES),
        1 => Some(Seg::DS),
        2 => Some(Seg::SS),
        3 => Some(Seg::CS),
        _ => None,
    };
    let b = rd.u8();
    let base = if b & 1 == 0 { R16::BX } else { R16::BP };
    let idx = if b & 2 == 0 { R16::SI } else { R16::DI };
    let any4 = [R16::BX, R16::BP, R16::SI, R16::DI][(b >> 2) as usize % 4];
    let raw = rd.u16();
    // displacement as the grammar takes it: signed 16 bit or unsigned 16 bit
    let disp: i32 = if b & 0x10 == 0 { raw as i16 as i32 } else { raw as i32 };
    let shape = match m.shape {
        Shape::Direct(_) => Shape::Direct(raw),
        Shape::Ind(_) => Shape::Ind(any4),
        Shape::Based(_, _) => Shape::Based(base, disp),
        Shape::Indexed(_, _) => Shape::Indexed(idx, disp),
        Shape::BasedIdx(_, _, d) => Shape::BasedIdx(base, idx, if d.is_some() || b & 0x20 != 0 { Some(disp) } else { None }),
    };
    Mem { seg, shape }
}

/// decode one case; returns the case and the interpreter call stack to start from
pub fn decode_case(data: &[u8], shapes: &[Insn]) -> (Case, Vec<usize>) {
    let mut rd = Rd::new(data);
    let si = rd.u16() as usize % shapes.len().max(1);
    let mut insn = shapes[si].clone();
    let is_shift = matches!(insn.mn, "sal" | "shl" | "sar" | "shr" | "rol" | "ror" | "rcl" | "rcr");
    let nops = insn.ops.len();
    for (k, o) in insn.ops.iter_mut().enumerate() {
        let sel = rd.u8();
        let val = rd.u16();
        match o {
            // the count register of a shift stays CL
            Opd::R8(_) if is_shift && k == nops - 1 => {}
            Opd::R8(r) => *r = R8S[sel as usize % 8],
            Opd::R16(r) => *r = R16S[sel as usize % 8],
            Opd::Sr(_) => {}
            Opd::Imm(v, kind) => {
                if insn.mn != "int" {
                    *v = match kind {
                        ImmKind::SB | ImmKind::UB => val & 0xFF,
                        _ => val,
                    }
                }
            }
            Opd::Mem(_, m) => {
                let buf = [sel, (val & 0xFF) as u8, rd.u8(), rd.u8()];
                let mut sub = Rd::new(&buf);
                *m = remap_mem(m, &mut sub);
            }
            _ => {}
        }
    }
    let mut regs = Regs::default();
    for i in 0..12 {
        regs.r[i] = rd.u16();
    }
    regs.r[FLAGS] = rd.u16();
    regs.r[IP] = 0;
    let f = rd.u8();
    let g = rd.u8();
    let fix = Fix { off_class: (f & 7) % 5, phys_class: (f >> 3 & 7) % 5, sp_class: (g & 7) % 8, str_class: (g >> 3 & 7) % 7 };
    let mv = rd.u16();
    let mflag = rd.u8();
    let memval = if mflag & 1 == 1 { Some(mv) } else { None };
    let label_off = if mflag & 2 == 0 { [0u16, 1, 0xFFFD, 0x8000, 2, 15, 255, 256][(mflag >> 2) as usize % 8] } else { rd.u16().min(65533) };
    let stack = if mflag & 0x40 != 0 { vec![7] } else { vec![] };
    let mut choices = Vec::new();
    for _ in 0..12 {
        choices.push(rd.u8());
    }
    (Case { insn, regs, fix, memval, choices, label_off, pre_mem: vec![], exact: false }, stack)
}
