//! C10 -- whatever the assembler accepts, the data loader, interpreter and printer can run.
use crate::asm::*;
use crate::common::*;
use crate::emu::*;
use crate::pipeline::*;
use emulator_8086_lib::VM;
use rayon::prelude::*;
use serde_json::json;

pub fn wrap_program(insn_text: &str, i: &Insn) -> String {
    let mut s = String::new();
    if i.label_operand().is_some() {
        s.push_str(&format!("{}: dw 0\n", LBL));
    }
    let uses_name = i.ops.iter().any(|o| matches!(o, Opd::Name(_)));
    if i.mn == "call" {
        s.push_str(&format!("def {} {{ ret }}\n", PROC));
    }
    s.push_str("start: ");
    s.push_str(insn_text);
    s.push('\n');
    if uses_name && i.mn != "call" {
        s.push_str(&format!("{}: hlt\n", TGT));
    }
    s
}

/// Outcome of pushing one accepted program through the downstream parsers
pub enum Down {
    Rejected(String),
    Ok { lines: usize },
    Bad { stage: &'static str, line: String, err: String },
}

/// benign register state: no divide errors, CX small, stack in the middle of nowhere
fn benign(vm: &mut VM) {
    let mut r = Regs::default();
    r.r = [0x0102, 0x0304, 0x0003, 0x0000, 0x8000, 0x0506, 0x0708, 0x090A, 0xFFFF, 0x0100, 0x0200, 0x0300, 0xF002, 0];
    load(vm, &r);
}

pub fn downstream(vm: &mut VM, src: &str) -> Down {
    let mut asm = match assemble(src) {
        Ok(a) => a,
        Err(e) => {
            if e.starts_with("PANIC") {
                return Down::Bad { stage: "preprocessor-panic", line: src.to_string(), err: e };
            }
            return Down::Rejected(e);
        }
    };
    // driver-level checks
    for (_, l) in &asm.undefined {
        if asm.ictx.label_map.get(l).is_none() {
            return Down::Rejected(format!("label {} undefined", l));
        }
    }
    if asm.code_label("start").is_none() {
        return Down::Rejected("no start".into());
    }
    // data lines
    for x in vm.mem.iter_mut() {
        *x = 0x01; // non-zero so that a divisor read from memory is not 0
    }
    if let Err(e) = load_data(vm, &asm.data) {
        return Down::Bad { stage: "data-loader", line: asm.data.join(" | "), err: e };
    }
    let code = asm.code.clone();
    for (idx, line) in code.iter().enumerate() {
        benign(vm);
        asm.ictx.call_stack = vec![0];
        if line.starts_with("print") {
            let r = catch(|| PRINT.with(|p| p.parse(vm, line).map_err(|e| format!("{}", e))));
            match r {
                Err(p) => return Down::Bad { stage: "printer-panic", line: line.clone(), err: p },
                Ok(Err(e)) => return Down::Bad { stage: "printer", line: line.clone(), err: e },
                Ok(Ok(())) => {}
            }
        }
        let mut n = 0;
        loop {
            match step(vm, &mut asm.ictx, idx, line) {
                StepOut::State(St::Repeat) => {
                    n += 1;
                    if n > 8 {
                        break;
                    }
                }
                StepOut::State(_) => break,
                StepOut::Err(e) => return Down::Bad { stage: "interpreter", line: line.clone(), err: e.lines().next().unwrap_or("").to_string() },
                StepOut::Panic(p) => return Down::Bad { stage: "interpreter-panic", line: line.clone(), err: p },
            }
        }
    }
    Down::Ok { lines: code.len() + asm.data.len() }
}

fn directive_programs() -> Vec<(String, String)> {
    let mut v: Vec<(String, String)> = Vec::new();
    let mut add = |name: &str, body: &str| v.push((name.to_string(), body.to_string()));
    for (set, db, dw) in [("set", "db", "dw"), ("SET", "DB", "DW")] {
        for n in ["0", "16", "0x10", "0b101", "65535", "0XFFFF"] {
            add("set", &format!("{} {}\n{} 1\nstart: hlt\n", set, n, db));
        }
        for val in ["0", "5", "255", "-1", "-128", "0x7f", "0b11"] {
            add("db-value", &format!("{} {}\nstart: hlt\n", db, val));
            add("db-value-label", &format!("a: {} {}\nstart: mov al, byte a\n", db, val));
            add("db-fill", &format!("{} [{} , 3]\nstart: hlt\n", db, val));
            add("db-fill-label", &format!("a: {} [{},0x10]\nstart: mov al, byte a\n", db, val));
        }
        for val in ["0", "5", "65535", "-1", "-32768", "0x7fff", "0b11"] {
            add("dw-value", &format!("{} {}\nstart: hlt\n", dw, val));
            add("dw-value-label", &format!("a: {} {}\nstart: mov ax, word a\n", dw, val));
            add("dw-fill", &format!("{} [{} , 3]\nstart: hlt\n", dw, val));
            add("dw-fill-label", &format!("a: {} [{},0x10]\nstart: mov ax, word a\n", dw, val));
        }
        for n in ["0", "1", "7", "0x100", "0b1000"] {
            add("db-zero-array", &format!("{} [{}]\nstart: hlt\n", db, n));
            add("dw-zero-array", &format!("b: {} [{}]\nstart: lea bx, word b\n", dw, n));
        }
        for st in ["\"C:\\xampp\\htdocs\"", "\"\\x\"", "\"\\xZ9 \\n \\t \\0 \\\\ \\q\"", "\"C:\\TOOLS\\\"", "\"a  b   c\"", "\"  lead and trail  \"", "\"press \"q\" to quit\"", "\"a\"b\"", "\"\"\"", "\"\"\"\"", "\"say \"\"\"", "\"it's\"", "\"a\\\"", "\"\"\"", "\"a\"", "\"Hello World\"", "\"with ; semicolon\"", "\"tab\\tno escape\"", "\"~!@#$%^&*()_+{}|:<>?\""] {
            add("db-string", &format!("s: {} {}\nstart: mov al, byte s\n", db, st));
            add("dw-string", &format!("{} {}\nstart: hlt\n", dw, st));
        }
    }
    for (p, f, r, m) in [("print", "flags", "reg", "mem"), ("PRINT", "FLAGS", "REG", "MEM")] {
        add("print-flags", &format!("start: {} {}\n", p, f));
        add("print-reg", &format!("start: {} {}\n", p, r));
        for (a, b) in [("0", "15"), ("0x10", "0x1f"), ("0b0", "0b1"), ("1048575", "1048575"), ("5", "5")] {
            add("print-mem-range", &format!("start: {} {} {} -> {}\n", p, m, a, b));
        }
        for (a, b) in [("0", "15"), ("0x10", "0xf"), ("1048575", "0"), ("0", "1048575")] {
            add("print-mem-len", &format!("start: {} {} {} : {}\n", p, m, a, b));
            add("print-mem-len-nospace", &format!("start: {} {} {}:{}\n", p, m, a, b));
        }
        for n in ["0", "16", "0xff", "0b11"] {
            add("print-mem-ds", &format!("start: {} {} :{}\n", p, m, n));
        }
        add("print-mem-offset", &format!("db [4]\nz: db 1\nstart: {} {} offset z -> 9\n{} {} : OFFSET z\n", p, m, p, m));
    }
    add("offset-imm", "db [3]\nq: dw 7\nstart: mov ax, offset q\nadd bl, OFFSET q\nmov byte [offset q], 1\n");
    add("macro", "macro m1(a,b) -> add a,b <-\nstart: m1(ax,5)\nm1(bl , 0x2)\n");
    add("macro-noparam", "MACRO m0(_) -> inc ax <-\nstart: m0(_)\n");
    add("macro-nested", "macro a1(q) -> add ax,q <-\nmacro b1(k,q) -> k (q) <-\nstart: b1(a1,5)\n");
    add("macro-mem-arg", "macro ld(x) -> mov ax, x <-\nstart: ld(word [bx])\nld(word [bx,si,2])\n");
    add("proc", "def f { inc ax\n ret }\ndef g { call f }\nstart: call g\ncall f\n");
    add("proc-upper", "DEF f { INC AX }\nstart: CALL f\n");
    v
}

pub fn run(ctx: &Ctx) {
    if !crate::pipeline::DRIVER_SRC {
        ctx.note("the driver's pure modules (preprocess.rs, error_helper.rs, print.rs) of the working tree do not compile stand-alone into the harness: in-process calls of preprocess() and of the print reader are replaced by stubs; the CLI parts decide for them");
    }
    ctx.set_rule("(a) the complete shape enumeration of syntax.md (every mnemonic spelling x every operand-kind alternative x representative registers, all 5 addressing shapes x {none,ES,CS,SS,DS}), each rendered in lower and upper case and in decimal/hex/binary constants, embedded in a minimal program that declares what it needs; every directive and print form; (b) proptest-generated whole programs (with the C08 generator); for each program accepted by Preprocessor + label/start checks, every data line goes to the DataParser, every code line to the Interpreter in the context built from the same program, every print line to the print parser. Every shape counts once (distinct by construction).");
    ctx.assume("a shape documented in syntax.md that the assembler rejects is reported here too (the statement quantifies over every mnemonic, synonym, operand form and directive described in syntax.md)");
    ctx.set_exhaustive(true);
    let shapes = enumerate_shapes();
    ctx.extra("shape_count", json!(shapes.len()));
    let _quiet = QuietStdout::new();
    let variants: Vec<(usize, bool, u8)> = (0..shapes.len()).flat_map(|i| [(i, false, (i % 3) as u8), (i, true, ((i + 1) % 3) as u8)]).collect();
    let results: Vec<(Local, Vec<Failure>)> = variants
        .par_chunks(512)
        .map(|chunk| {
            let mut vm = VM::new();
            let mut local = Local::default();
            let mut fails = Vec::new();
            for (i, upper, radix) in chunk {
                let insn = &shapes[*i];
                let text = render_fixed(insn, *upper, *radix);
                let src = wrap_program(&text, insn);
                local.evals += 1;
                local.nontrivial += 1;
                local.class(&format!("shape/{}", insn.mn));
                match downstream(&mut vm, &src) {
                    Down::Ok { .. } => {}
                    Down::Rejected(e) => fails.push(Failure {
                        key: format!("c10|assembler-rejects-documented|{}|{}", insn.mn, insn.form()),
                        what: format!("documented form rejected by the assembler: {:?}: {}", src, e.lines().next().unwrap_or("")),
                        replay: json!({"kind":"c10","source":src}),
                    }),
                    Down::Bad { stage, line, err } => fails.push(Failure {
                        key: format!("c10|{}|{}|{}", stage, insn.mn, insn.form()),
                        what: format!("accepted program {:?}: {} refuses emitted line '{}': {}", src, stage, line, err),
                        replay: json!({"kind":"c10","source":src}),
                    }),
                }
            }
            (local, fails)
        })
        .collect();
    for (l, fails) in results {
        l.merge_into(ctx);
        for f in fails {
            ctx.fail(f);
        }
    }
    let mut vm = VM::new();
    for (name, src) in directive_programs() {
        ctx.add_evals(1);
        ctx.add_nontrivial(1);
        ctx.class(&format!("directive/{}", name), 1);
        match downstream(&mut vm, &src) {
            Down::Ok { .. } => {}
            Down::Rejected(e) => ctx.fail(Failure {
                key: format!("c10|assembler-rejects-documented|{}", name),
                what: format!("documented form rejected by the assembler: {:?}: {}", src, e.lines().next().unwrap_or("")),
                replay: json!({"kind":"c10","source":src}),
            }),
            Down::Bad { stage, line, err } => ctx.fail(Failure {
                key: format!("c10|{}|{}", stage, name),
                what: format!("accepted program {:?}: {} refuses emitted line '{}': {}", src, stage, line, err),
                replay: json!({"kind":"c10","source":src}),
            }),
        }
    }
    ctx.sample(json!({"source": wrap_program(&render_fixed(&shapes[7], true, 1), &shapes[7])}));
    ctx.sample(json!({"source": wrap_program(&render_fixed(&shapes[shapes.len() / 2], false, 2), &shapes[shapes.len() / 2])}));
    ctx.sample(json!({"source": wrap_program(&render_fixed(&shapes[shapes.len() - 9], true, 0), &shapes[shapes.len() - 9])}));
    crate::progs::c10_random_programs(ctx);
    // grammar cross-check: terminals of the working tree's grammar unknown to the enumerator
    let known: std::collections::BTreeSet<String> = {
        let mut k = std::collections::BTreeSet::new();
        for s in &shapes {
            k.insert(s.mn.to_string());
            k.insert(s.mn.to_uppercase());
            if let Some(p) = s.prefix {
                k.insert(p.to_string());
                k.insert(p.to_uppercase());
            }
        }
        for w in ["byte", "word", "set", "db", "dw", "macro", "def", "print", "flags", "reg", "mem", "offset", "al", "ah", "bl", "bh", "cl", "ch", "dl", "dh", "ax", "bx", "cx", "dx", "sp", "bp", "si", "di", "es", "ds", "ss", "cs",
            "in", "out", "lds", "les", "wait", "esc", "lock", "into", "iret"] {
            k.insert(w.to_string());
            k.insert(w.to_uppercase());
        }
        for p in ["[", "]", ",", "(", ")", "->", ":", "{", "}"] {
            k.insert(p.to_string());
        }
        k
    };
    boundary_probes(ctx, &mut vm);
    name_probes(ctx, &mut vm);
    near_miss_probes(ctx);
    if ctx.tier == Tier::Thorough {
        // coverage-guided search for an accepted program whose emitted lines a downstream parser refuses
        crate::fuzzrun::campaigns(ctx, &["compose"]);
    }
    let g = crate::grammar::all_terminals();
    let unknown: Vec<&String> = g.difference(&known).collect();
    ctx.extra("grammar_terminals", json!({"in_grammar": g.len(), "unknown_to_enumerator": unknown}));
}

/// A name is a name: whatever identifier the assembler takes as a code label, data label, procedure or macro name
/// (and as a macro parameter) must also be a name for the interpreter and the loaders.  Vocabulary: every
/// identifier-like terminal that a DOWNSTREAM grammar of the working tree has and the assembler's grammar has not
/// (extracted at run time), plausible program vocabulary, and mnemonics / keywords with one character added,
/// each in lower, upper and capitalised spelling.
fn name_probes(ctx: &Ctx, vm: &mut VM) {
    let mut words: Vec<String> = crate::grammar::downstream_only_words();
    ctx.extra("downstream_only_words", json!(words));
    for w in ["halt", "stop", "end", "exit", "quit", "done", "next", "n", "q", "main", "begin", "data", "code", "stack", "loop1", "again", "skip", "fail", "ok", "error", "org", "equ", "proc", "endp", "ptr", "short",
        "near", "far", "dup", "segment", "ends", "assume", "include", "label", "start1", "_start", "start_", "x", "y", "z", "_", "__", "a_1", "A1", "l", "f", "v", "t", "r", "e", "d", "h", "b", "o", "hex", "bin", "dec1",
        "true", "false", "null", "none", "line", "output", "input", "int3", "trap", "step", "run", "show", "dump", "regs", "flag", "memory", "ip", "pc", "eax", "r8", "st0", "byte1", "word1", "dword", "qword", "db1", "dw1", "dd", "dq",
        "repeat", "until", "while", "if", "then", "else", "jmp1", "call1", "ret1", "retn", "retf", "iretw", "movsb", "movsw", "cmpsb", "scasb", "lodsb", "stosb", "cwde", "cdq", "pusha", "popa", "enter", "leave", "bound",
        "hlt1", "nop1", "int1", "into1", "cs1", "ds1", "es1", "ss1", "fs", "gs", "al1", "ax1", "si1", "flags1", "reg1", "mem1", "print1", "macro1", "def1", "set1", "offset1"] {
        words.push(w.to_string());
    }
    // names with a non-ASCII letter after the first character (the interpreter's names are ASCII)
    for w in ["r\u{e9}p\u{e9}ter", "gr\u{f6}\u{df}e", "na\u{ef}ve", "x\u{b2}", "se\u{f1}al", "label\u{e9}", "a\u{3b1}", "d\u{436}", "t\u{fc}r1", "_\u{e9}"] {
        words.push(w.to_string());
    }
    // keywords of the assembler with one character appended / prepended
    for t in crate::grammar::all_terminals() {
        if t.chars().all(|c| c.is_ascii_alphabetic()) && t.chars().all(|c| c.is_ascii_lowercase()) && t.len() >= 2 {
            words.push(format!("{}x", t));
            words.push(format!("x{}", t));
            words.push(format!("{}_", t));
        }
    }
    words.sort();
    words.dedup();
    let mut variants: Vec<String> = Vec::new();
    for w in &words {
        variants.push(w.clone());
        variants.push(w.to_uppercase());
        let mut c = w.chars();
        if let Some(f) = c.next() {
            variants.push(format!("{}{}", f.to_uppercase(), c.as_str()));
        }
    }
    variants.sort();
    variants.dedup();
    let _ = vm;
    let mut jobs: Vec<(String, &'static str, String)> = Vec::new();
    for w in &variants {
        let progs = [
            ("code-label", format!("start: jmp {w}\nstc\n{w}:\nje {w}\nloop {w}\nhlt\n", w = w)),
            ("code-label-at-end", format!("start: jnz {w}\nclc\n{w}:\n", w = w)),
            ("data-label", format!("{w}: dw 5\nstart: mov ax, word {w}\nmov bl, byte {w}\nadd word {w}, 2\nmov cx, offset {w}\nlea dx, word {w}\npush word {w}\nshl byte {w}, 1\n", w = w)),
            ("procedure", format!("def {w} {{ stc }}\nstart: call {w}\ncall {w}\n", w = w)),
            ("macro-name", format!("macro {w}(a) -> add ax, a <-\nstart: {w}(5)\n", w = w)),
            ("macro-parameter", format!("macro m_q({w}) -> add ax, {w} <-\nstart: m_q(bx)\nm_q(7)\n", w = w)),
            ("macro-argument-label", format!("macro j_q(a) -> jmp a <-\nstart: j_q({w})\n{w}:\n", w = w)),
        ];
        for (kind, src) in progs {
            jobs.push((w.clone(), kind, src));
        }
    }
    let results: Vec<(Local, Vec<Failure>)> = jobs
        .par_chunks(128)
        .map(|chunk| {
            let mut vm = VM::new();
            let mut local = Local::default();
            let mut fails = Vec::new();
            for (w, kind, src) in chunk {
                local.evals += 1;
                match downstream(&mut vm, src) {
                    Down::Ok { .. } => {
                        local.class(&format!("c10/name-probe/{}/accepted", kind));
                        local.nontrivial += 1;
                    }
                    Down::Rejected(_) => local.class(&format!("c10/name-probe/{}/refused-by-assembler", kind)),
                    Down::Bad { stage, line, err } => fails.push(Failure {
                        key: format!("c10|{}|name-probe|{}|{}", stage, kind, w.to_lowercase()),
                        what: format!("the assembler accepts '{}' as a {} but downstream it is not a name: {} refuses emitted line '{}': {} -- program {:?}", w, kind, stage, line, err, src),
                        replay: json!({"kind":"c10","source":src}),
                    }),
                }
            }
            (local, fails)
        })
        .collect();
    for (l, fails) in results {
        l.merge_into(ctx);
        for f in fails {
            ctx.fail(f);
        }
    }
    for k in ["code-label", "data-label", "procedure", "macro-name", "macro-parameter"] {
        ctx.require_class(&format!("c10/name-probe/{}/accepted", k), 100);
    }
}

/// Programs on both sides of every acceptance boundary of the assembler (constant ranges, address
/// sums, array sizes): whether each is accepted is C14's business; here, IF it is accepted then the
/// loaders must take what was emitted -- this is where an assembler range that drifts away from
/// the downstream range shows.
fn boundary_probes(ctx: &Ctx, vm: &mut VM) {
    let mb = 1u32 << 20;
    let mut progs: Vec<String> = Vec::new();
    for (a, n) in [(mb - 16, 14u32), (mb - 16, 15), (mb - 16, 16), (mb - 16, 17), (0, mb - 2), (0, mb - 1), (0, mb), (mb - 1, 0), (mb - 1, 1), (mb, 0), (524288, 524287), (524288, 524288)] {
        progs.push(format!("start: print mem {}:{}\n", a, n));
        progs.push(format!("start: PRINT MEM 0x{:X} : 0x{:X}\n", a, n));
    }
    for (a, b) in [(0u32, mb - 1), (0, mb), (mb - 1, mb - 1), (mb - 1, mb), (mb, mb), (mb - 2, mb - 1), (5, 4), (mb - 1, 0)] {
        progs.push(format!("start: print mem {} -> {}\n", a, b));
    }
    for n in [0u32, 1, 65535, 65536, mb - 1, mb, mb + 1] {
        progs.push(format!("start: print mem :{}\n", n));
        progs.push(format!("start: mov ax, 0xFFFF\nmov ds, ax\nprint mem :{}\n", n));
    }
    for v in ["255", "256", "-128", "-129", "0xFF", "0x100", "0b11111111", "0b100000000"] {
        for t in ["mov al, {}", "add bl, {}", "cmp byte [bx], {}", "mov byte v, {}", "and cl, {}", "test byte [si], {}", "db {}", "db [{} , 2]"] {
            let line = t.replace("{}", v);
            if line.starts_with("db") {
                progs.push(format!("{}\nstart: hlt\n", line));
            } else {
                progs.push(format!("v: db 0\nstart: {}\n", line));
            }
        }
    }
    for v in ["65535", "65536", "-32768", "-32769", "0xFFFF", "0x10000"] {
        for t in ["mov ax, {}", "sub dx, {}", "cmp word [bx], {}", "mov word w, {}", "or cx, {}", "dw {}", "dw [{} , 2]", "set {}", "db [{}]", "dw [{}]", "db [1 , {}]", "mov ax, word [{}]", "mov ax, word [bx , {}]", "mov al, byte [bp , si , {}]"] {
            let line = t.replace("{}", v);
            if line.starts_with('d') || line.starts_with("set") {
                progs.push(format!("{}\nstart: hlt\n", line));
            } else {
                progs.push(format!("w: dw 0\nstart: {}\n", line));
            }
        }
    }
    for c in ["0", "1", "8", "16", "255", "256"] {
        for t in ["shl ax, {}", "rcr byte [bx], {}", "ror word w, {}", "sar bl, {}"] {
            progs.push(format!("w: dw 0\nstart: {}\n", t.replace("{}", c)));
        }
    }
    for n in ["0", "3", "4", "0x10", "0x21", "0x20", "255", "256"] {
        progs.push(format!("start: int {}\n", n));
    }
    // data definitions of every kind placed so that they end just below, reach exactly, straddle or start at the end of
    // the 1 MiB address space (the last segments overlap it), and arrays that fill a segment: accepted => loadable
    for (seg, lead) in [(0xFFFFu32, 0u32), (0xFFFF, 1), (0xFFFF, 13), (0xFFFF, 14), (0xFFFF, 15), (0xFFFF, 16), (0xFFF0, 250), (0xF800, 32760), (0xF001, 65500), (0xF000, 65530)] {
        for def in ["db 7", "dw 0x1234", "db [5]", "db [7 , 32]", "db [0 , 300]", "dw [3]", "dw [0xBEEF , 17]", "dw [600]", "db \"top of memory!\"", "dw \"wide string\"", "db [65535]", "dw [32767]", "dw [1 , 32767]", "db [9 , 65535]"] {
            let lead_s = if lead == 0 { String::new() } else { format!("db [{}]\n", lead) };
            progs.push(format!("set {}\n{}x_q: {}\ny_q: db 1\nstart: mov ax, offset y_q\n", seg, lead_s, def));
        }
    }
    // instructions that jump to their own line and still terminate; a call in tail position (its return address is the
    // procedure's own implied ret)
    progs.push("start: mov cx, 3\nspin: loop spin\nprint reg\n".to_string());
    progs.push("start: mov cx, 2\nmov al, 1\ncmp al, 2\nw: loopne w\nx: loope x\nprint reg\n".to_string());
    progs.push("def r { cmp cx, 0\n je done\n sub cx, 1\n call r\n done: }\nstart: mov cx, 4\ncall r\nprint reg\n".to_string());
    // the same programs through the real driver: whatever it accepts must not end in an internal-error path (the
    // print reader is given the machine state the program has established, e.g. DS = FFFFh)
    if crate::cli::cli_available() {
        use crate::cli::*;
        let outs: Vec<(String, CliOut)> = progs.par_iter().map(|s| (s.clone(), run_cli(s.as_bytes(), Stdin::Closed, false, 8 << 20, 30_000))).collect();
        for (src, out) in outs {
            ctx.add_evals(1);
            if matches!(out.status, Status::Timeout | Status::SpawnError(_)) {
                ctx.inconclusive(&format!("boundary probe through the CLI: {:?}", out.status));
                continue;
            }
            let so = out.out_str();
            if so.contains("Internal Error") && !so.contains("ret is encountered without corresponding call") {
                ctx.fail(Failure {
                    key: "c10|cli|boundary-probe|internal-error".into(),
                    what: format!("accepted program {:?} ended in an internal-error path: {}", src, so.lines().filter(|l| l.contains("Error")).take(2).collect::<Vec<_>>().join(" / ")),
                    replay: json!({"kind":"cli","source":src,"stdin":"","interpreted":false,"forbid":["Internal Error"]}),
                });
            } else if !out.clean() {
                ctx.fail(Failure {
                    key: "c10|cli|boundary-probe|abnormal-exit".into(),
                    what: format!("program {:?}: status {:?} {}", src, out.status, out.err_str().lines().next().unwrap_or("")),
                    replay: json!({"kind":"cli","source":src,"stdin":"","interpreted":false}),
                });
            } else {
                ctx.class("c10/boundary-probe/cli-run", 1);
            }
        }
    }
    for src in progs {
        ctx.add_evals(1);
        match downstream(vm, &src) {
            Down::Ok { .. } => {
                ctx.class("c10/boundary-probe/accepted", 1);
                ctx.add_nontrivial(1);
            }
            Down::Rejected(_) => ctx.class("c10/boundary-probe/refused-by-assembler", 1),
            Down::Bad { stage, line, err } => ctx.fail(Failure {
                key: format!("c10|{}|boundary-probe", stage),
                what: format!("accepted program {:?}: {} refuses emitted line '{}': {}", src, stage, line, err),
                replay: json!({"kind":"c10","source":src}),
            }),
        }
    }
}

/// C14's single-mutation near misses through the real driver: each should be refused, which is C14's
/// business; here, a near miss that IS accepted must not end in an internal-error path (an accepted
/// program the loaders cannot run).  Covers the driver-level acceptance decisions (label / procedure
/// resolution), which the in-process replica cannot see.
fn near_miss_probes(ctx: &Ctx) {
    use crate::cli::*;
    use crate::clicheck::*;
    use proptest::prelude::*;
    if !cli_available() {
        return;
    }
    let n = ctx.tier.pick(600usize, 12_000usize);
    run_cases(
        ctx,
        "c10-near-miss",
        n,
        || (crate::c14::raw_s(), any::<u16>()),
        |(raw, sel)| {
            let p = crate::c14::build_parent(raw);
            let ms = crate::c14::mutants(&p);
            let m = &ms[crate::pt::idx(*sel, ms.len())];
            let out = run_cli(m.text.as_bytes(), Stdin::Closed, false, 4 << 20, 20_000);
            if matches!(out.status, Status::Timeout | Status::SpawnError(_)) {
                return CaseOutcome::Inconclusive(format!("{:?}", out.status));
            }
            let so = out.out_str();
            if so.contains("Internal Error") {
                if so.contains("ret is encountered without corresponding call") {
                    return CaseOutcome::Known("c10|internal-error|ret-without-call".into());
                }
                return CaseOutcome::Fail {
                    key: format!("c10|near-miss|internal-error|{}", m.class),
                    what: format!("{} ({}): the program was accepted and then ended in an internal-error path: {}", m.class, m.what, so.lines().filter(|l| l.contains("Error")).take(2).collect::<Vec<_>>().join(" / ")),
                    replay: json!({"kind":"cli","source":m.text,"stdin":"","interpreted":false,"forbid":["Internal Error"]}),
                };
            }
            CaseOutcome::Pass { nontrivial: true, classes: vec!["c10/near-miss-probe".into()], digest: fnv_str(&m.text) }
        },
        |(raw, sel)| {
            let p = crate::c14::build_parent(raw);
            let ms = crate::c14::mutants(&p);
            json!({"near_miss": ms[crate::pt::idx(*sel, ms.len())].what})
        },
    );
}

pub fn replay(v: &serde_json::Value) -> Result<String, String> {
    let src = v.get("source").and_then(|x| x.as_str()).ok_or("no source")?;
    let _q = QuietStdout::new();
    let mut vm = VM::new();
    match downstream(&mut vm, src) {
        Down::Ok { lines } => Ok(format!("{:?}: accepted, {} emitted lines all accepted downstream", src, lines)),
        Down::Rejected(e) => Err(format!("{:?}: rejected by the assembler: {}", src, e)),
        Down::Bad { stage, line, err } => Err(format!("{:?}: {} refuses '{}': {}", src, stage, line, err)),
    }
}
