//! The verification harness as a library: every module of the `vcheck` binary, so that the
//! libFuzzer targets in /verif/fuzz can reuse the generators, the assembler pipeline and the
//! reference model (the `exec` target feeds fuzzer bytes to the proptest strategies through
//! proptest's pass-through RNG).
#![allow(dead_code)]
pub mod asm;
pub mod c01;
pub mod c02;
pub mod c03;
pub mod c03cli;
pub mod c04;
pub mod c05;
pub mod c06;
pub mod c07;
pub mod c08;
pub mod c09;
pub mod c09cli;
pub mod c10;
pub mod c11;
pub mod c12;
pub mod c13;
pub mod c14;
pub mod c15;
pub mod c16;
pub mod c17;
pub mod c18;
pub mod c19;
pub mod c20;
pub mod cli;
pub mod clicheck;
pub mod common;
pub mod emu;
pub mod fuzzdec;
pub mod fuzzrun;
pub mod gen;
pub mod grammar;
pub mod hist;
pub mod ir;
pub mod l0;
pub mod l1;
pub mod l3fam;
pub mod machine;
pub mod pipeline;
pub mod progs;
pub mod pt;
pub mod refmodel;
