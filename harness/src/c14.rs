//! C14 -- invalid programs are rejected with a diagnostic before anything executes.
use crate::asm::*;
use crate::cli::*;
use crate::clicheck::*;
use crate::common::*;
use crate::gen::*;
use crate::pipeline::*;
use crate::progs::*;
use emulator_8086_lib::LabelType;
use proptest::prelude::*;
use serde_json::{json, Value};

#[derive(Clone, Debug)]
pub enum LK {
    Data(Option<String>),
    Label(String),
    /// instruction; `dead` = part of the never-executed block whose instructions are mutated
    Ins(Insn, bool),
    Print,
    ProcOpen(String),
    ProcClose,
}

#[derive(Clone, Debug)]
pub struct Line {
    pub text: String,
    pub kind: LK,
}

#[derive(Clone, Debug)]
pub struct Parent {
    pub lines: Vec<Line>,
    /// index of the first line after the marker sequence (a live position)
    pub live_pos: usize,
    /// index of a line inside a procedure body (if any)
    pub proc_pos: Option<usize>,
    pub n_instructions: usize,
}

#[derive(Clone, Debug)]
pub struct Mutant {
    pub class: &'static str,
    pub what: String,
    pub text: String,
    pub site: usize,
    pub total_lines: usize,
}

#[derive(Clone, Debug)]
pub struct Raw14 {
    pub g: GenCfg,
    pub dead: Vec<Insn>,
    pub dead_pos: u8,
    pub upper: bool,
}

fn ins_text(i: &Insn, upper: bool) -> String {
    render_fixed(i, upper, if upper { 1 } else { 0 })
}

pub fn build_parent(r: &Raw14) -> Parent {
    let mut g = r.g.clone();
    g.with_data = true;
    g.with_prints = true;
    g.label_before_proc = false; // ret without call is not this property's subject
    let prog = build_program(&g);
    let mut lines: Vec<Line> = Vec::new();
    for d in &prog.data {
        let mut ch = Choices::fixed();
        let label = match d {
            DataDecl::Item { label, .. } => label.clone(),
            _ => None,
        };
        lines.push(Line { text: render_data(d, &mut ch), kind: LK::Data(label) });
    }
    lines.push(Line { text: "w_0: dw 5".into(), kind: LK::Data(Some("w_0".into())) });
    lines.push(Line { text: format!("{}: dw 0x1234", LBL), kind: LK::Data(Some(LBL.into())) });
    // a data label whose offset does not fit a byte (OFFSET of it in a byte position is a constant out of range)
    lines.push(Line { text: "big_0: db [300]".into(), kind: LK::Data(Some("big_0".into())) });
    lines.push(Line { text: "far_0: db 7".into(), kind: LK::Data(Some("far_0".into())) });
    let dead_lines = |v: &mut Vec<Line>| {
        for i in &r.dead {
            v.push(Line { text: ins_text(i, r.upper), kind: LK::Ins(i.clone(), true) });
        }
    };
    if r.dead_pos % 3 == 1 {
        // a procedure nobody calls
        lines.push(Line { text: "def dead_p {".into(), kind: LK::ProcOpen("dead_p".into()) });
        dead_lines(&mut lines);
        if r.dead.is_empty() {
            lines.push(Line { text: "nop".into(), kind: LK::Ins(Insn::new("nop", vec![]), false) });
        }
        lines.push(Line { text: "}".into(), kind: LK::ProcClose });
    }
    let mut live_pos = 0;
    let mut proc_pos = None;
    fn walk(items: &[Item], lines: &mut Vec<Line>, in_proc: bool, live_pos: &mut usize, proc_pos: &mut Option<usize>, r: &Raw14, dead_lines: &dyn Fn(&mut Vec<Line>)) {
        for it in items {
            match it {
                Item::Label(n) => {
                    lines.push(Line { text: format!("{}:", n), kind: LK::Label(n.clone()) });
                    if n == "start" {
                        // the first executed instructions write the marker '!'
                        for t in ["mov dl, 33", "mov ah, 2", "int 0x21"] {
                            lines.push(Line { text: t.into(), kind: LK::Ins(Insn::new("nop", vec![]), false) });
                        }
                        *live_pos = lines.len();
                        if r.dead_pos % 3 == 2 {
                            lines.push(Line { text: "jmp over_dead".into(), kind: LK::Ins(Insn::new("jmp", vec![Opd::Name("over_dead".into())]), false) });
                            dead_lines(lines);
                            lines.push(Line { text: "over_dead:".into(), kind: LK::Label("over_dead".into()) });
                        }
                    }
                }
                Item::Ins(i) => {
                    if in_proc && proc_pos.is_none() {
                        *proc_pos = Some(lines.len());
                    }
                    lines.push(Line { text: ins_text(i, false), kind: LK::Ins(i.clone(), false) });
                }
                Item::Print(p) => {
                    let mut ch = Choices::fixed();
                    lines.push(Line { text: render_print(p, &mut ch), kind: LK::Print });
                }
                Item::Proc { name, body } => {
                    lines.push(Line { text: format!("def {} {{", name), kind: LK::ProcOpen(name.clone()) });
                    walk(body, lines, true, live_pos, proc_pos, r, dead_lines);
                    lines.push(Line { text: "}".into(), kind: LK::ProcClose });
                }
                _ => {}
            }
        }
    }
    walk(&prog.code, &mut lines, false, &mut live_pos, &mut proc_pos, r, &dead_lines);
    if r.dead_pos % 3 == 0 {
        lines.push(Line { text: "hlt".into(), kind: LK::Ins(Insn::new("hlt", vec![]), false) });
        dead_lines(&mut lines);
    }
    let n_instructions = lines.iter().filter(|l| matches!(l.kind, LK::Ins(..))).count();
    Parent { lines, live_pos, proc_pos, n_instructions }
}

pub fn text_of(lines: &[String]) -> String {
    let mut s = lines.join("\n");
    s.push('\n');
    s
}

fn base(p: &Parent) -> Vec<String> {
    p.lines.iter().map(|l| l.text.clone()).collect()
}

/// every applicable single semantic mutation of the parent, one mutant per site
pub fn mutants(p: &Parent) -> Vec<Mutant> {
    let mut out: Vec<Mutant> = Vec::new();
    let b = base(p);
    let n = b.len();
    let mut push = |class: &'static str, what: String, lines: Vec<String>, site: usize| {
        let total = lines.len();
        out.push(Mutant { class, what, text: text_of(&lines), site, total_lines: total });
    };
    let replace = |i: usize, t: &str| {
        let mut v = b.clone();
        v[i] = t.to_string();
        v
    };
    let delete = |i: usize| {
        let mut v = b.clone();
        v.remove(i);
        v
    };
    let insert = |i: usize, t: &str| {
        let mut v = b.clone();
        v.insert(i.min(v.len()), t.to_string());
        v
    };
    let first_code = p.lines.iter().position(|l| !matches!(l.kind, LK::Data(_))).unwrap_or(n);
    // insertion positions for new statements: live (right after the marker), inside a procedure, end of file
    let mut ins_pos: Vec<(usize, &'static str)> = vec![(p.live_pos, "live"), (n, "end")];
    if let Some(pp) = p.proc_pos {
        ins_pos.push((pp, "in-proc"));
    }
    let code_labels: Vec<(usize, String)> = p.lines.iter().enumerate().filter_map(|(i, l)| if let LK::Label(n) = &l.kind { Some((i, n.clone())) } else { None }).collect();
    let procs: Vec<(usize, String)> = p.lines.iter().enumerate().filter_map(|(i, l)| if let LK::ProcOpen(n) = &l.kind { Some((i, n.clone())) } else { None }).collect();
    let jumps: Vec<(usize, Insn)> = p
        .lines
        .iter()
        .enumerate()
        .filter_map(|(i, l)| match &l.kind {
            LK::Ins(ins, _) if ins.mn != "call" && matches!(ins.ops.get(0), Some(Opd::Name(_))) => Some((i, ins.clone())),
            _ => None,
        })
        .collect();
    // M1: drop the definition of a label some jump uses
    let mut seen = std::collections::HashSet::new();
    for (_, j) in &jumps {
        if let Some(Opd::Name(t)) = j.ops.get(0) {
            if t != "start" && seen.insert(t.clone()) {
                if let Some((li, _)) = code_labels.iter().find(|(_, n)| n == t) {
                    push("undefined-jump-target", format!("definition of label {} removed", t), delete(*li), *li);
                }
            }
        }
    }
    // M2: duplicate definitions
    for (li, name) in code_labels.iter().take(6) {
        let at = if *li + 2 < n { *li + 2 } else { n };
        push("duplicate-label", format!("label {} defined twice", name), insert(at, &format!("{}:", name)), at);
    }
    push("duplicate-label", "data label d_0 defined twice".into(), insert(first_code, "d_0: db 1"), first_code);
    push("duplicate-label", "code label with the name of data label d_0".into(), insert(p.live_pos, "d_0:"), p.live_pos);
    // M3: duplicate procedure
    for (pi, name) in procs.iter().take(4) {
        push("duplicate-procedure", format!("procedure {} defined twice", name), insert(*pi, &format!("def {} {{ nop }}", name)), *pi);
    }
    // M4: jump to a data label
    for (ji, j) in jumps.iter().take(8) {
        let up = ji % 2 == 1;
        let mn = if up { j.mn.to_uppercase() } else { j.mn.to_string() };
        push("jump-to-data-label", format!("{} retargeted to data label", j.mn), replace(*ji, &format!("{} {}", mn, if ji % 3 == 0 { "w_0" } else { "d_0" })), *ji);
    }
    // inserted invalid statements
    // a code label that is not also the name of a procedure (the two name spaces are separate)
    let some_label = code_labels.iter().map(|(_, n)| n.as_str()).find(|n| *n != "start" && !procs.iter().any(|(_, p)| p == n)).unwrap_or("start").to_string();
    // a procedure that is not also the name of a label: jumping to it is a jump to an undefined label
    let some_proc: Option<String> = procs.iter().map(|(_, p)| p.clone()).find(|p| !code_labels.iter().any(|(_, n)| n == p));
    let mut inserted: Vec<(&'static str, String)> = vec![
        ("code-label-as-data-operand", format!("mov al, byte {}", some_label)),
        ("code-label-as-data-operand", format!("MOV AX, WORD {}", some_label)),
        ("code-label-as-data-operand", format!("inc word {}", some_label)),
        ("unknown-name-as-data-operand", "mov al, byte nosuch".into()),
        ("unknown-name-as-data-operand", "add word nosuch, 5".into()),
        ("offset-of-code-label", format!("mov bx, offset {}", some_label)),
        ("offset-of-code-label", format!("mov byte [OFFSET {}], 1", some_label)),
        ("offset-of-unknown-name", "mov bx, offset nosuch".into()),
        ("call-non-procedure", format!("call {}", some_label)),
        ("call-non-procedure", "call nosuch".into()),
        ("call-non-procedure", "CALL d_0".into()),
        ("call-non-procedure", format!("call {}", LBL)),
        ("two-memory-operands", "mov byte [bx], byte [si]".into()),
        ("two-memory-operands", "add word [1], word [2]".into()),
        ("two-memory-operands", "xchg byte [bx], byte [si]".into()),
        ("two-memory-operands", "cmp byte d_0, byte [bx]".into()),
        ("two-memory-operands", "mov word w_0, word w_0".into()),
        ("two-memory-operands", "AND BYTE ES [BX,SI,1], BYTE [5]".into()),
        ("mixed-operand-sizes", "mov ax, bl".into()),
        ("mixed-operand-sizes", "add cl, dx".into()),
        ("mixed-operand-sizes", "xchg si, ah".into()),
        ("mixed-operand-sizes", "mov al, word [bx]".into()),
        ("mixed-operand-sizes", "MOV BYTE [5], CX".into()),
        ("mixed-operand-sizes", "mov ds, al".into()),
        ("mixed-operand-sizes", "sub ax, byte d_0".into()),
        ("mixed-operand-sizes", "mov byte w_0, dx".into()),
        ("mixed-operand-sizes", "push al".into()),
        ("mixed-operand-sizes", "pop byte [bx]".into()),
        ("mixed-operand-sizes", "lea bl, word [bx]".into()),
        ("mixed-operand-sizes", "test dh, sp".into()),
        ("constant-out-of-range", "mov al, 256".into()),
        ("constant-out-of-range", "mov al, -129".into()),
        ("constant-out-of-range", "mov ax, 65536".into()),
        ("constant-out-of-range", "mov ax, -32769".into()),
        ("constant-out-of-range", "add byte [bx], 0x100".into()),
        ("constant-out-of-range", "sub word w_0, 0x10000".into()),
        ("constant-out-of-range", "and al, 0b100000000".into()),
        ("constant-out-of-range", "or cx, 65536".into()),
        ("constant-out-of-range", "cmp byte d_0, 256".into()),
        ("constant-out-of-range", "shl ax, 256".into()),
        ("constant-out-of-range", "ror byte [si], 0x100".into()),
        ("constant-out-of-range", "mov ax, word [65536]".into()),
        ("constant-out-of-range", "mov ax, word [bx, 65536]".into()),
        ("constant-out-of-range", "mov ax, word [bx, -32769]".into()),
        ("constant-out-of-range", "mov al, byte [bp, si, 65536]".into()),
        ("constant-out-of-range", "int 256".into()),
        ("constant-out-of-range", "mov bl, offset far_0".into()),
        ("constant-out-of-range", "add al, OFFSET far_0".into()),
        ("constant-out-of-range", "mov byte [bx], offset far_0".into()),
        ("constant-out-of-range", "cmp byte d_0, offset far_0".into()),
        ("constant-out-of-range", "and cl, offset far_0".into()),
        ("constant-out-of-range", "shl dx, offset far_0".into()),
        ("unsupported-instruction", "in al, 5".into()),
        ("unsupported-instruction", "IN AL, DL".into()),
        ("unsupported-instruction", "out 5, al".into()),
        ("unsupported-instruction", "lds ax, [bx]".into()),
        ("unsupported-instruction", "LES BX, [SI]".into()),
        ("unsupported-instruction", "wait".into()),
        ("unsupported-instruction", "esc".into()),
        ("unsupported-instruction", "LOCK".into()),
        ("unsupported-instruction", "into".into()),
        ("unsupported-instruction", "iret".into()),
        ("unsupported-instruction", "movsb".into()),
        ("unsupported-instruction", "stosw".into()),
        ("unsupported-instruction", "rep movsb".into()),
        ("unsupported-instruction", "pusha".into()),
        ("unsupported-instruction", "jmpf start".into()),
        ("unsupported-interrupt", "int 4".into()),
        ("unsupported-interrupt", "int 0x20".into()),
        ("unsupported-interrupt", "INT 0".into()),
        ("unsupported-interrupt", "int 255".into()),
        ("unsupported-directive", "org 100".into()),
        ("unsupported-directive", "dd 5".into()),
        ("unsupported-directive", "equ x 5".into()),
        ("unsupported-directive", "section data".into()),
    ];
    // the same name errors as the very first code statement of the file (every code label is still ahead)
    for (class, stmt) in [
        ("offset-of-code-label", format!("mov bx, offset {}", some_label)),
        ("offset-of-code-label", "mov bx, offset start".to_string()),
        ("offset-of-code-label", format!("MOV AX, WORD [OFFSET {}]", some_label)),
        ("code-label-as-data-operand", format!("mov al, byte {}", some_label)),
        ("code-label-as-data-operand", "inc word start".to_string()),
        ("offset-of-unknown-name", "mov bx, offset nosuch".to_string()),
        ("unknown-name-as-data-operand", "mov al, byte nosuch".to_string()),
        ("call-non-procedure", format!("call {}", some_label)),
        ("call-non-procedure", "call start".to_string()),
    ] {
        push(class, format!("inserted '{}' as the first code statement", stmt), insert(first_code, &stmt), first_code);
    }
    if let Some(pn) = &some_proc {
        for mn in ["jmp", "jz", "loop", "JNBE", "jcxz"] {
            inserted.push(("undefined-jump-target", format!("{} {}", mn, pn)));
        }
    }
    let toplevel_only: Vec<(&'static str, String)> = vec![
        ("data-directive-after-code", "db 5".into()),
        ("data-directive-after-code", "late: dw 1".into()),
        ("data-directive-after-code", "set 5".into()),
        ("data-directive-after-code", "DB \"text\"".into()),
        ("constant-out-of-range", "print mem 1048576 -> 1048577".into()),
        ("constant-out-of-range", "print mem 0 -> 1048576".into()),
        ("constant-out-of-range", "print mem 1048576 : 0".into()),
        ("constant-out-of-range", "print mem 1048575 : 1".into()),
        ("constant-out-of-range", "print mem 5 : 1048571".into()),
        ("constant-out-of-range", "PRINT MEM 0x100000 -> 0x100001".into()),
    ];
    for (k, (class, stmt)) in inserted.drain(..).enumerate() {
        // one mutant per statement and position; the position rotates so that every class meets every position
        let (pos, _pname) = ins_pos[k % ins_pos.len()];
        push(class, format!("inserted '{}'", stmt), insert(pos, &stmt), pos);
        if k % 4 == 0 {
            let (pos2, _) = ins_pos[(k + 1) % ins_pos.len()];
            push(class, format!("inserted '{}'", stmt), insert(pos2, &stmt), pos2);
        }
    }
    for (k, (class, stmt)) in toplevel_only.into_iter().enumerate() {
        let pos = if k % 2 == 0 { p.live_pos } else { n };
        push(class, format!("inserted '{}'", stmt), insert(pos, &stmt), pos);
    }
    // data section constants one past their range
    for (class, stmt) in [
        ("constant-out-of-range", "set 65536"),
        ("constant-out-of-range", "SET 0x10000"),
        ("constant-out-of-range", "db 256"),
        ("constant-out-of-range", "db -129"),
        ("constant-out-of-range", "dw 65536"),
        ("constant-out-of-range", "dw -32769"),
        ("constant-out-of-range", "db [65536]"),
        ("constant-out-of-range", "dw [1 , 65536]"),
        ("constant-out-of-range", "db [256 , 2]"),
        ("constant-out-of-range", "x9: DW [0x10000]"),
    ] {
        push(class, format!("data definition '{}'", stmt), insert(first_code.min(1), stmt), first_code.min(1));
    }
    // M7/M8 on the instructions of the dead block: width swaps and constants one past the range
    for (i, l) in p.lines.iter().enumerate() {
        if let LK::Ins(ins, true) = &l.kind {
            for (what, t) in instruction_mutations(ins) {
                push(if what.starts_with("width") { "mixed-operand-sizes" } else { "constant-out-of-range" }, format!("'{}' -> '{}' ({})", l.text, t, what), replace(i, &t), i);
            }
        }
    }
    // a jump to an undefined label that comes out of a macro: one use, and two uses of the same macro of
    // which only one names an undefined label (uses of one macro have the same positions inside their expansion)
    // (the other uses name a label that is defined only further down, so that they too are recorded as not yet resolved)
    for (k, uses) in [vec!["nowhere_m"], vec!["nowhere_m", "fwd_ok"], vec!["fwd_ok", "nowhere_m"], vec!["fwd_ok", "nowhere_m", "start"]].iter().enumerate() {
        let mut v = b.clone();
        let at = if k % 2 == 0 { p.live_pos } else { n };
        for (j, u) in uses.iter().enumerate() {
            v.insert((at + j).min(v.len()), format!("jmx({})", u));
        }
        v.push("fwd_ok:".to_string());
        v.push("nop".to_string());
        v.insert(first_code, format!("macro jmx(t) -> {} t <-", ["jmp", "jz", "loop", "jnbe"][k]));
        push("undefined-jump-target-via-macro", format!("macro jmx used with {:?}", uses), v, at + 1);
    }
    // a constant that is out of range for the position a macro pastes it into (the argument itself is a legal number)
    for (k, (body, arg)) in [
        ("mov al, v", "65535"), ("mov al, v", "0xFF80"), ("mov al, v", "256"), ("add bl, v", "0xFFFF"), ("cmp byte [bx], v", "65408"),
        ("mov byte d_0, v", "0xFF00"), ("and cl, v", "0x100"), ("shl ax, v", "256"), ("int v", "256"), ("mov ax, word [bx, v]", "65536"),
    ]
    .iter()
    .enumerate()
    {
        let mut v = b.clone();
        let at = if k % 2 == 0 { p.live_pos } else { n };
        v.insert(at.min(v.len()), format!("ldq({})", arg));
        v.insert(first_code, format!("macro ldq(v) -> {} <-", body));
        push("constant-out-of-range", format!("macro body '{}' used with argument {}", body, arg), v, at + 1);
    }
    // the text 'def NAME' inside a string defines nothing: calling NAME is calling something that is not a procedure
    for (k, (strline, call)) in [("msg_q: db \"def handler_q missing\"", "call handler_q"), ("DB \"DEF nosuch_p { }\"", "CALL nosuch_p"), ("note_q: dw \"def L1 {\"", "call note_q")].iter().enumerate() {
        let mut v = b.clone();
        let at = if k % 2 == 0 { p.live_pos } else { n };
        v.insert(at.min(v.len()), call.to_string());
        v.insert(0, strline.to_string());
        push("call-non-procedure", format!("'{}' with the data line '{}'", call, strline), v, at + 1);
    }
    // a macro used, then redefined with a body that is not valid, then used again with the same arguments
    for (k, bad) in ["in al, p", "mov ax, bl", "mov al, 300", "jmp d_0", "lock"].iter().enumerate() {
        let mut v = b.clone();
        let at = if k % 2 == 0 { p.live_pos } else { n };
        v.insert(at.min(v.len()), "port_q(5)".to_string());
        v.insert(at.min(v.len()), format!("macro port_q(p) -> {} <-", bad));
        v.insert(at.min(v.len()), "port_q(5)".to_string());
        v.insert(first_code, "macro port_q(p) -> mov dh, p <-".to_string());
        push(if *bad == "mov al, 300" { "constant-out-of-range" } else if *bad == "mov ax, bl" { "mixed-operand-sizes" } else if *bad == "jmp d_0" { "jump-to-data-label" } else { "unsupported-instruction" }, format!("macro redefined with the body '{}' between two identical uses", bad), v, at + 2);
    }
    // one use of a macro whose body holds several jumps, only one of them to an undefined label (all jumps of one use
    // are recorded at the position of that use)
    for (k, (body, args)) in [
        ("jo a jmp b", vec!["nowhere_m", "fwd_ok"]),
        ("jo a jmp b", vec!["fwd_ok", "nowhere_m"]),
        ("jc a jz b loop c", vec!["fwd_ok", "nowhere_m", "fwd_ok"]),
        ("jc a jz b loop c", vec!["nowhere_m", "fwd_ok", "start"]),
        ("jnz a jmp a jmp b", vec!["fwd_ok", "nowhere_m"]),
    ]
    .iter()
    .enumerate()
    {
        let mut v = b.clone();
        let at = if k % 2 == 0 { p.live_pos } else { n };
        v.insert(at.min(v.len()), format!("jm{}({})", args.len(), args.join(", ")));
        v.push("fwd_ok:".to_string());
        v.push("nop".to_string());
        let params = ["a", "b", "c"][..args.len()].join(",");
        v.insert(first_code, format!("macro jm{}({}) -> {} <-", args.len(), params, body));
        push("undefined-jump-target-via-macro", format!("macro with body '{}' used once with {:?}", body, args), v, at + 1);
    }
    // M11: start
    if let Some((si, _)) = code_labels.iter().find(|(_, n)| n == "start") {
        push("missing-start", "label start removed".into(), delete(*si), *si);
        let mut v = delete(*si);
        v.insert(0, "start: db 1".into());
        push("missing-start", "start is a data label".into(), v, 0);
        push("missing-start", "start renamed to Start".into(), replace(*si, "Start:"), *si);
    }
    out
}

fn operand_texts(i: &Insn) -> Vec<String> {
    i.ops.iter().map(|o| render_fixed(&Insn::new("x", vec![o.clone()]), false, 0)[2..].to_string()).collect()
}

fn assemble_ins(i: &Insn, ops: &[String]) -> String {
    let mut s = String::new();
    if let Some(p) = i.prefix {
        s.push_str(p);
        s.push(' ');
    }
    s.push_str(i.mn);
    if !ops.is_empty() {
        s.push(' ');
        s.push_str(&ops.join(", "));
    }
    s
}

/// definitive single-operand corruptions of a valid instruction
fn instruction_mutations(i: &Insn) -> Vec<(String, String)> {
    let mut out = Vec::new();
    let ops = operand_texts(i);
    let is_shift = matches!(i.mn, "sal" | "shl" | "sar" | "shr" | "rol" | "ror" | "rcl" | "rcr");
    for (k, o) in i.ops.iter().enumerate() {
        let mut with = |what: &str, t: String| {
            let mut v = ops.clone();
            v[k] = t;
            out.push((what.to_string(), assemble_ins(i, &v)));
        };
        match o {
            Opd::Imm(_, kind) => match kind {
                ImmKind::UB => with("constant 256 for an unsigned byte", "256".into()),
                ImmKind::SB => {
                    with("constant 256 for a byte", "256".into());
                    with("constant -129 for a byte", "-129".into());
                }
                ImmKind::UW => with("constant 65536 for an unsigned word", "65536".into()),
                ImmKind::SW => {
                    with("constant 65536 for a word", "0x10000".into());
                    with("constant -32769 for a word", "-32769".into());
                }
            },
            Opd::Mem(w, m) => {
                if let Some(_) = m.disp() {
                    let mut m2 = *m;
                    m2.shape = match m.shape {
                        Shape::Based(r, _) => Shape::Based(r, 65536),
                        Shape::Indexed(r, _) => Shape::Indexed(r, 65536),
                        Shape::BasedIdx(b, x, _) => Shape::BasedIdx(b, x, Some(65536)),
                        s => s,
                    };
                    let t = render_fixed(&Insn::new("x", vec![Opd::Mem(*w, m2)]), false, 0)[2..].to_string();
                    with("displacement 65536", t);
                }
                // width keyword against a register operand of the other width (not for shifts: the count is CL)
                if i.ops.len() == 2 && !is_shift {
                    let other = &i.ops[1 - k];
                    if matches!(other, Opd::R8(_) | Opd::R16(_)) {
                        let w2 = if *w == W::B { W::W } else { W::B };
                        let t = render_fixed(&Insn::new("x", vec![Opd::Mem(w2, *m)]), false, 0)[2..].to_string();
                        with("width keyword flipped against a register", t);
                    }
                }
            }
            Opd::Lab(w, n) => {
                if i.ops.len() == 2 && !is_shift && matches!(i.ops[1 - k], Opd::R8(_) | Opd::R16(_)) {
                    let w2 = if *w == W::B { "word" } else { "byte" };
                    with("width keyword flipped against a register", format!("{} {}", w2, n));
                }
            }
            Opd::R8(r) => {
                if i.ops.len() == 2 && !is_shift && matches!(i.ops[1 - k], Opd::R8(_)) {
                    let r16 = R16S[(*r as usize) % 4];
                    with("width of one register changed", r16.name().to_string());
                }
            }
            Opd::R16(r) => {
                if i.ops.len() == 2 && !is_shift && matches!(i.ops[1 - k], Opd::R16(_)) && i.mn != "lea" {
                    let r8 = R8S[(*r as usize) % 8];
                    with("width of one register changed", r8.name().to_string());
                }
            }
            _ => {}
        }
    }
    out
}

// ------------------------------------------------------------------ evaluation

fn refused_l2(src: &str) -> Result<String, String> {
    match assemble(src) {
        Err(e) if e.starts_with("PANIC") => Err(format!("assembler aborted: {}", e.chars().take(160).collect::<String>())),
        Err(e) => {
            if e.trim().is_empty() {
                Err("empty diagnostic".into())
            } else {
                Ok("assembler".into())
            }
        }
        Ok(a) => {
            for (_, l) in &a.undefined {
                if a.ictx.label_map.get(l).is_none() {
                    return Ok("undefined-label check".into());
                }
            }
            match a.ictx.label_map.get("start") {
                Some(l) if matches!(l.get_type(), LabelType::CODE) => Err(format!("accepted: {} instructions emitted, no undefined label, start present", a.code.len())),
                _ => Ok("start check".into()),
            }
        }
    }
}

pub fn raw_s() -> BoxedStrategy<Raw14> {
    (gencfg_s(14, 3), proptest::collection::vec(crate::c11::insn_any(), 1..7), any::<u8>(), any::<bool>()).prop_map(|(g, dead, dead_pos, upper)| Raw14 { g, dead, dead_pos, upper }).boxed()
}

fn parent_ok_l2(p: &Parent) -> Result<(), String> {
    let src = text_of(&base(p));
    match refused_l2(&src) {
        Err(e) if e.starts_with("accepted") => Ok(()),
        Err(e) => Err(e),
        Ok(by) => Err(format!("the unmutated program is refused by the {}", by)),
    }
}

/// all mutants of one parent at L2
pub fn eval_l2(r: &Raw14) -> CaseOutcome {
    let p = build_parent(r);
    let psrc = text_of(&base(&p));
    if let Err(e) = parent_ok_l2(&p) {
        return CaseOutcome::Fail { key: "c14|parent-invalid".into(), what: format!("generated parent program is not accepted: {}", e), replay: json!({"kind":"c14","source":psrc,"expect":"accepted"}) };
    }
    let ms = mutants(&p);
    let mut classes: Vec<String> = Vec::new();
    let mut nt = false;
    for m in &ms {
        match refused_l2(&m.text) {
            Ok(_) => {
                classes.push(format!("c14/{}", m.class));
                if p.n_instructions >= 5 && m.site > 0 && m.site + 1 < m.total_lines {
                    nt = true;
                }
            }
            Err(e) => {
                return CaseOutcome::Fail {
                    key: format!("c14|not-refused|{}", m.class),
                    what: format!("{} ({}): {}", m.class, m.what, e),
                    replay: json!({"kind":"c14","source":m.text,"expect":"refused","class":m.class,"mutation":m.what,"parent":psrc}),
                }
            }
        }
    }
    classes.push("c14/parents".into());
    CaseOutcome::Pass { nontrivial: nt, classes, digest: fnv_str(&psrc) }
}

/// one mutant of one parent through the CLI
pub fn eval_cli(c: &(Raw14, u16)) -> CaseOutcome {
    let (r, sel) = c;
    let p = build_parent(r);
    let ms = mutants(&p);
    let m = &ms[crate::pt::idx(*sel, ms.len())];
    let psrc = text_of(&base(&p));
    // the parent runs and writes its marker first
    let po = run_cli(psrc.as_bytes(), Stdin::Closed, false, 4 << 20, 20_000);
    if matches!(po.status, Status::Timeout | Status::SpawnError(_)) {
        return CaseOutcome::Inconclusive(format!("parent: {:?}", po.status));
    }
    if !po.clean() || !po.out_str().starts_with('!') {
        return CaseOutcome::Fail { key: "c14|cli|parent-invalid".into(), what: format!("the unmutated program does not run normally (status {:?}, stdout starts {:?})", po.status, po.out_str().chars().take(80).collect::<String>()), replay: json!({"kind":"cli","source":psrc,"stdin":"","interpreted":false}) };
    }
    let out = run_cli(m.text.as_bytes(), Stdin::Closed, false, 4 << 20, 20_000);
    let replay = json!({"kind":"cli","source":m.text,"stdin":"","interpreted":false,"forbid":["Output of line","AX : "],"forbid_prefix":"!","class":m.class,"mutation":m.what});
    if matches!(out.status, Status::Timeout | Status::SpawnError(_)) {
        return CaseOutcome::Inconclusive(format!("{:?}", out.status));
    }
    if !out.clean() {
        return CaseOutcome::Fail { key: format!("c14|cli|abnormal-exit|{}", m.class), what: format!("{} ({}): status {:?} {}", m.class, m.what, out.status, out.err_str().lines().next().unwrap_or("")), replay };
    }
    let so = out.out_str();
    // the marker is the first thing a run writes; diagnostics never start with it (they may echo a source line that contains one)
    let executed = so.starts_with('!') || so.contains("Output of line") || so.contains("AX : ");
    let diagnosed = looks_like_diagnostic(&so);
    if executed {
        return CaseOutcome::Fail { key: format!("c14|cli|executed|{}", m.class), what: format!("{} ({}): program output present, the invalid program was run (stdout starts {:?})", m.class, m.what, so.chars().take(80).collect::<String>()), replay };
    }
    if !diagnosed || so.trim().is_empty() {
        return CaseOutcome::Fail { key: format!("c14|cli|no-diagnostic|{}", m.class), what: format!("{} ({}): no diagnostic (stdout {:?})", m.class, m.what, so.chars().take(120).collect::<String>()), replay };
    }
    let nt = p.n_instructions >= 5 && m.site > 0 && m.site + 1 < m.total_lines;
    CaseOutcome::Pass { nontrivial: nt, classes: vec![format!("c14/cli/{}", m.class)], digest: fnv_str(&m.text) }
}

pub const CLASSES: [&str; 19] = [
    "undefined-jump-target-via-macro",
    "undefined-jump-target",
    "duplicate-label",
    "duplicate-procedure",
    "jump-to-data-label",
    "code-label-as-data-operand",
    "unknown-name-as-data-operand",
    "offset-of-code-label",
    "offset-of-unknown-name",
    "call-non-procedure",
    "two-memory-operands",
    "mixed-operand-sizes",
    "constant-out-of-range",
    "unsupported-instruction",
    "unsupported-interrupt",
    "unsupported-directive",
    "data-directive-after-code",
    "missing-start",
    "parents",
];

pub fn run(ctx: &Ctx) {
    ctx.set_rule("proptest-generated valid, terminating programs (structured generator: jumps, loops, procedures, calls, prints, data) whose first executed instructions write a marker, extended by a never-executed block of random instructions of every class (after a final hlt, inside an uncalled procedure, or jumped over); for each parent EVERY applicable single semantic mutation is applied, one mutant per site: definition of a jump target removed; label / procedure / data label defined twice; jump retargeted to a data label; code label or unknown name as byte/word operand or under OFFSET; call of a label / unknown name / data label; one register or width keyword of an instruction changed to the other width; every constant moved one past either end of its range (u8, s8, u16, s16, shift counts, displacements, direct addresses, INT numbers, SET, array lengths, data values, print mem addresses and start:offset sums); two memory operands; each unsupported mnemonic, interrupt and directive; data directive after code; start removed, renamed or made a data label -- inserted at a live position (right after the marker), inside a procedure and at the end of the file in rotation. Every mutant is assembled in-process with the driver's undefined-label and start checks replicated; a seeded subset goes through the CLI: non-empty diagnostic, no marker and no other program output, exit status 0. The unmutated parent must be accepted and print its marker. Non-trivial = the parent has >= 5 instructions and the mutation site is neither the first nor the last line.");
    ctx.assume("a call that merely precedes the definition of its procedure, and a negative constant for an unsigned operand, are not in the statement's list and are not used as mutants");
    ctx.set_exhaustive(false);
    let n = ctx.tier.pick(400u32, 12_000u32);
    run_inproc(ctx, "c14", n, raw_s, eval_l2, |r| {
        let p = build_parent(r);
        let ms = mutants(&p);
        json!({"parent": text_of(&base(&p)), "mutants": ms.len(), "example_mutant": {"class": ms[ms.len() / 2].class, "mutation": ms[ms.len() / 2].what}})
    });
    for c in CLASSES {
        ctx.require_class(&format!("c14/{}", c), if c == "duplicate-procedure" || c == "undefined-jump-target" || c == "jump-to-data-label" { 50 } else { 300 });
    }
    if !cli_available() {
        ctx.harness_error("CLI binary not built");
        return;
    }
    // sources without a single instruction lack a code label 'start' too
    for src in ["", "\n", "; only a comment\n", "d_0: db 5\n", "set 0x10\ndw [4]\n", "macro m(a) -> inc a <-\n", "d_0: db \"text\"\nmacro m(a) -> inc a <-\n; nothing else\n", "def f { }\n", "def f { nop }\n", "l1:\n", "start: db 1\n"] {
        ctx.add_evals(1);
        let out = run_cli(src.as_bytes(), Stdin::Closed, false, 1 << 20, 20_000);
        let replay = json!({"kind":"cli","source":src,"stdin":"","interpreted":false,"require":["start"]});
        if matches!(out.status, Status::Timeout | Status::SpawnError(_)) {
            ctx.inconclusive(&format!("instruction-less source: {:?}", out.status));
            continue;
        }
        let so = out.out_str();
        if !out.clean() {
            ctx.fail(Failure { key: "c14|cli|abnormal-exit|missing-start".into(), what: format!("source without instructions {:?}: status {:?} {}", src, out.status, out.err_str().lines().next().unwrap_or("")), replay });
        } else if !looks_like_diagnostic(&so) {
            ctx.fail(Failure { key: "c14|cli|no-diagnostic|missing-start|no-instructions".into(), what: format!("a source without any instruction ({:?}) lacks a code label 'start' but no diagnostic was produced (stdout {:?})", src, so.chars().take(100).collect::<String>()), replay });
        } else {
            ctx.add_nontrivial(1);
            ctx.class("c14/cli/no-instructions", 1);
        }
    }
    let ncli = ctx.tier.pick(2_400usize, 60_000usize);
    run_cases(ctx, "c14-cli", ncli, || (raw_s(), any::<u16>()), eval_cli, |(r, sel)| {
        let p = build_parent(r);
        let ms = mutants(&p);
        let m = &ms[crate::pt::idx(*sel, ms.len())];
        json!({"cli_mutant": m.text, "class": m.class, "mutation": m.what})
    });
    for c in &CLASSES[..18] {
        ctx.require_class(&format!("c14/cli/{}", c), 3);
    }
}

pub fn replay(v: &Value) -> Result<String, String> {
    let src = v["source"].as_str().ok_or("no source")?;
    let r = refused_l2(src);
    let rep = format!("source:\n{}\n-> {:?}\n", src, r);
    let want_refused = v["expect"].as_str() != Some("accepted");
    match (r, want_refused) {
        (Ok(_), true) => Ok(rep),
        (Err(e), false) if e.starts_with("accepted") => Ok(rep),
        _ => Err(rep),
    }
}
