//! Machine-level reference model: executes one AST instruction on a register file and a
//! sparse memory over the deterministic background pattern.  Written from the manual's
//! instruction descriptions; it shares no code with the emulator.
#![allow(dead_code)]
use crate::asm::*;
use crate::emu::*;
use crate::refmodel::*;
use std::collections::HashMap;

#[derive(Clone, Debug, PartialEq, Eq)]
pub enum Outcome {
    Next,
    JmpLabel(String),
    JmpProc(String),
    JmpIdx(usize),
    Int(u8),
    Halt,
    Print,
    /// a reported run-time error (ret without call)
    Error,
}

/// sparse memory: pre-state overrides + write log over bg()
#[derive(Clone, Debug, Default)]
pub struct SMem {
    pub pre: Vec<(u32, u8)>,
    pub writes: Vec<(u32, u8)>,
    /// dense 1 MiB image (whole-program runs); when present, pre/writes are not used
    pub dense: Option<std::sync::Arc<Vec<u8>>>,
}

impl SMem {
    pub fn rd(&self, a: u32) -> u8 {
        let a = a & 0xFFFFF;
        if let Some(d) = &self.dense {
            return d[a as usize];
        }
        for (x, v) in self.writes.iter().rev() {
            if *x == a {
                return *v;
            }
        }
        for (x, v) in self.pre.iter().rev() {
            if *x == a {
                return *v;
            }
        }
        bg(a as usize)
    }
    pub fn wr(&mut self, a: u32, v: u8) {
        if let Some(d) = &mut self.dense {
            // copy on write: `exec` clones the machine, the 1 MiB image is copied only when a clone writes
            std::sync::Arc::make_mut(d)[(a & 0xFFFFF) as usize] = v;
            return;
        }
        self.writes.push((a & 0xFFFFF, v));
    }
    pub fn rd16(&self, a: u32) -> u16 {
        self.rd(a) as u16 | ((self.rd(a.wrapping_add(1)) as u16) << 8)
    }
    pub fn wr16(&mut self, a: u32, v: u16) {
        self.wr(a, v as u8);
        self.wr(a.wrapping_add(1), (v >> 8) as u8);
    }
    /// final overlay relative to the background: address -> value, only where != bg
    pub fn final_diff(&self) -> Vec<(u32, u8)> {
        let mut m: HashMap<u32, u8> = HashMap::new();
        for (a, v) in self.pre.iter().chain(self.writes.iter()) {
            m.insert(*a, *v);
        }
        let mut v: Vec<(u32, u8)> = m.into_iter().filter(|(a, v)| bg(*a as usize) != *v).collect();
        v.sort();
        v
    }
}

#[derive(Clone, Debug)]
pub struct Machine {
    pub regs: Regs,
    pub mem: SMem,
    pub call_stack: Vec<usize>,
}

/// one acceptable result of an instruction
#[derive(Clone, Debug)]
pub struct Expect {
    pub regs: Regs,
    /// flag bits that are undefined after the instruction (not compared)
    pub undef_flags: u16,
    /// registers (bit i = emu index i) whose value is not compared
    pub dc_regs: u16,
    pub mem: SMem,
    pub outcome: Outcome,
    pub call_stack: Vec<usize>,
}

/// environment of the instruction: data label offsets, current instruction index
pub struct Env<'a> {
    pub data_labels: &'a [(String, u16)],
    pub current: usize,
    /// accept both readings where a word element of a string instruction straddles offset FFFFh
    pub string_straddle_both: bool,
}

impl<'a> Env<'a> {
    pub fn label_off(&self, n: &str) -> u16 {
        self.data_labels.iter().find(|(x, _)| x == n).map(|(_, o)| *o).unwrap_or(0)
    }
}

pub fn phys(seg: u16, off: u16) -> u32 {
    ((seg as u32) * 16 + off as u32) & 0xFFFFF
}

impl Machine {
    pub fn new(regs: Regs) -> Machine {
        Machine { regs, mem: SMem::default(), call_stack: Vec::new() }
    }
    fn r16(&self, r: R16) -> u16 {
        self.regs.r[r.idx()]
    }
    fn set16(&mut self, r: R16, v: u16) {
        self.regs.r[r.idx()] = v;
    }
    fn r8(&self, r: R8) -> u8 {
        let (p, hi) = r.parent();
        if hi {
            (self.regs.r[p] >> 8) as u8
        } else {
            self.regs.r[p] as u8
        }
    }
    fn set8(&mut self, r: R8, v: u8) {
        let (p, hi) = r.parent();
        if hi {
            self.regs.r[p] = (self.regs.r[p] & 0x00FF) | ((v as u16) << 8);
        } else {
            self.regs.r[p] = (self.regs.r[p] & 0xFF00) | v as u16;
        }
    }
    fn sr(&self, s: Seg) -> u16 {
        self.regs.r[s.idx()]
    }
    fn flags(&self) -> u16 {
        self.regs.r[FLAGS]
    }
    fn set_flags(&mut self, f: u16) {
        self.regs.r[FLAGS] = f;
    }

    /// effective 16-bit offset and segment value of a memory operand
    pub fn ea(&self, m: &Mem) -> (u16, u16) {
        let disp16 = |d: i32| d as u16; // two's complement truncation of the written number
        let off: u16 = match m.shape {
            Shape::Direct(n) => n,
            Shape::Ind(r) => self.r16(r),
            Shape::Based(r, d) | Shape::Indexed(r, d) => self.r16(r).wrapping_add(disp16(d)),
            Shape::BasedIdx(b, i, d) => self.r16(b).wrapping_add(self.r16(i)).wrapping_add(disp16(d.unwrap_or(0))),
        };
        let seg = match m.seg {
            Some(s) => self.sr(s),
            None => {
                if m.uses_bp() {
                    self.regs.r[SS]
                } else {
                    self.regs.r[DS]
                }
            }
        };
        (seg, off)
    }
    pub fn ea_phys(&self, m: &Mem) -> u32 {
        let (s, o) = self.ea(m);
        phys(s, o)
    }
    pub fn label_phys(&self, env: &Env, n: &str) -> u32 {
        phys(self.regs.r[DS], env.label_off(n))
    }

    /// physical address of a memory-like operand
    fn opd_addr(&self, o: &Opd, env: &Env) -> Option<u32> {
        match o {
            Opd::Mem(_, m) => Some(self.ea_phys(m)),
            Opd::Lab(_, n) => Some(self.label_phys(env, n)),
            _ => None,
        }
    }

    pub fn width_of(o: &Opd) -> Option<u32> {
        match o {
            Opd::R8(_) => Some(8),
            Opd::R16(_) | Opd::Sr(_) => Some(16),
            Opd::Mem(w, _) | Opd::Lab(w, _) | Opd::Wd(w) => Some(w.bits()),
            Opd::Imm(_, k) => Some(match k {
                ImmKind::SB | ImmKind::UB => 8,
                _ => 16,
            }),
            Opd::Name(_) => None,
        }
    }

    fn read(&self, o: &Opd, w: u32, env: &Env) -> u32 {
        match o {
            Opd::R8(r) => self.r8(*r) as u32,
            Opd::R16(r) => self.r16(*r) as u32,
            Opd::Sr(s) => self.sr(*s) as u32,
            Opd::Imm(v, _) => (*v as u32) & mask_w(w),
            Opd::Mem(..) | Opd::Lab(..) => {
                let a = self.opd_addr(o, env).unwrap();
                if w == 8 {
                    self.mem.rd(a) as u32
                } else {
                    self.mem.rd16(a) as u32
                }
            }
            _ => 0,
        }
    }
    /// write; the address of a memory destination must have been computed BEFORE any
    /// register update of the same instruction (callers pass it in)
    fn write(&mut self, o: &Opd, w: u32, v: u32, addr: Option<u32>) {
        match o {
            Opd::R8(r) => self.set8(*r, v as u8),
            Opd::R16(r) => self.set16(*r, v as u16),
            Opd::Sr(s) => self.regs.r[s.idx()] = v as u16,
            Opd::Mem(..) | Opd::Lab(..) => {
                let a = addr.unwrap();
                if w == 8 {
                    self.mem.wr(a, v as u8);
                } else {
                    self.mem.wr16(a, v as u16);
                }
            }
            _ => {}
        }
    }

    fn push16(&mut self, v: u16) {
        let sp = self.regs.r[SP].wrapping_sub(2);
        self.regs.r[SP] = sp;
        let a = phys(self.regs.r[SS], sp);
        self.mem.wr16(a, v);
    }
    fn pop16(&mut self) -> u16 {
        let sp = self.regs.r[SP];
        let a = phys(self.regs.r[SS], sp);
        let v = self.mem.rd16(a);
        self.regs.r[SP] = sp.wrapping_add(2);
        v
    }

    fn snapshot(&self, outcome: Outcome, undef: u16, dc: u16) -> Expect {
        Expect {
            regs: self.regs,
            undef_flags: undef,
            dc_regs: dc,
            mem: self.mem.clone(),
            outcome,
            call_stack: self.call_stack.clone(),
        }
    }

    /// Execute one instruction (a REP-prefixed string instruction runs to completion).
    /// Returns the accept set.
    pub fn exec(&self, insn: &Insn, env: &Env, q: &Quirks) -> Vec<Expect> {
        let mut m = self.clone();
        let mn = insn.mn;
        let ops = &insn.ops;
        let one = |m: &Machine, o: Outcome| vec![m.snapshot(o, 0, 0)];
        match mn {
            "mov" => {
                let w = Self::width_of(&ops[0]).unwrap();
                let addr = m.opd_addr(&ops[0], env);
                let v = m.read(&ops[1], w, env);
                m.write(&ops[0], w, v, addr);
                one(&m, Outcome::Next)
            }
            "xchg" => {
                let w = Self::width_of(&ops[0]).unwrap();
                let a0 = m.opd_addr(&ops[0], env);
                let a1 = m.opd_addr(&ops[1], env);
                let v0 = m.read(&ops[0], w, env);
                let v1 = m.read(&ops[1], w, env);
                // register first, then memory: for `xchg word [bx], bx` the address was
                // computed from the old register value on real hardware as well
                m.write(&ops[0], w, v1, a0);
                m.write(&ops[1], w, v0, a1);
                one(&m, Outcome::Next)
            }
            "push" => {
                let v = m.read(&ops[0], 16, env) as u16;
                if ops[0] == Opd::R16(R16::SP) {
                    // PUSH SP: old (later CPUs) or new (8086) value -- both accepted
                    let mut a = m.clone();
                    a.push16(v);
                    let mut b = m.clone();
                    b.push16(v.wrapping_sub(2));
                    return vec![a.snapshot(Outcome::Next, 0, 0), b.snapshot(Outcome::Next, 0, 0)];
                }
                m.push16(v);
                one(&m, Outcome::Next)
            }
            "pop" => {
                if ops[0] == Opd::R16(R16::SP) {
                    // POP SP: result not compared
                    let v = m.pop16();
                    m.regs.r[SP] = v;
                    return vec![m.snapshot(Outcome::Next, 0, 1 << SP)];
                }
                // destination address: computed with the ORIGINAL register values unless it
                // involves SP (it cannot: SP is not an addressing register)
                let addr = m.opd_addr(&ops[0], env);
                let v = m.pop16();
                m.write(&ops[0], 16, v as u32, addr);
                one(&m, Outcome::Next)
            }
            "pushf" => {
                let f = m.flags();
                m.push16(f);
                one(&m, Outcome::Next)
            }
            "popf" => {
                let v = m.pop16();
                m.set_flags(v);
                one(&m, Outcome::Next)
            }
            "lahf" => {
                // AH <- SF ZF x AF x PF x CF : only the five defined bits are compared
                let f = m.flags() as u8;
                let mut outs = Vec::new();
                // accept: reserved bits as stored in the flag word, or as the 8086 fixes them
                for ah in [f, (f & 0xD5) | 0x02] {
                    let mut a = m.clone();
                    a.set8(R8::AH, ah);
                    outs.push(a.snapshot(Outcome::Next, 0, 0));
                }
                outs
            }
            "sahf" => {
                let ah = m.r8(R8::AH) as u16;
                let mut outs = Vec::new();
                let f = m.flags();
                // defined: SF ZF AF PF CF from AH; accept reserved bits 1,3,5 either copied or kept
                for nf in [(f & 0xFF00) | ah, (f & !0x00D5) | (ah & 0x00D5)] {
                    let mut a = m.clone();
                    a.set_flags(nf);
                    outs.push(a.snapshot(Outcome::Next, 0, 0));
                }
                outs
            }
            "xlat" => {
                let off = m.regs.r[BX].wrapping_add(m.r8(R8::AL) as u16);
                let a = phys(m.regs.r[DS], off);
                let v = m.mem.rd(a);
                m.set8(R8::AL, v);
                one(&m, Outcome::Next)
            }
            "lea" => {
                let off = match &ops[1] {
                    Opd::Mem(_, mm) if q.lea_phys => {
                        (m.ea_phys(mm) as i64 - m.regs.r[DS] as i64 * 16) as u16
                    }
                    Opd::Mem(_, mm) => m.ea(mm).1,
                    Opd::Lab(_, n) => env.label_off(n),
                    _ => 0,
                };
                m.write(&ops[0], 16, off as u32, None);
                one(&m, Outcome::Next)
            }
            "add" | "adc" | "sub" | "sbb" | "cmp" => {
                let op = Bin::from_name(mn).unwrap();
                let w = Self::width_of(&ops[0]).unwrap();
                let addr = m.opd_addr(&ops[0], env);
                let a = m.read(&ops[0], w, env);
                let b = m.read(&ops[1], w, env);
                let r = bin(op, a, b, m.flags() & CF != 0, w);
                if op != Bin::Cmp {
                    m.write(&ops[0], w, r.res, addr);
                }
                let f = m.flags();
                m.set_flags((f & !r.defined) | (r.flags & r.defined));
                one(&m, Outcome::Next)
            }
            "inc" | "dec" | "neg" => {
                let op = match mn {
                    "inc" => Un::Inc,
                    "dec" => Un::Dec,
                    _ => Un::Neg,
                };
                let w = Self::width_of(&ops[0]).unwrap();
                let addr = m.opd_addr(&ops[0], env);
                let a = m.read(&ops[0], w, env);
                let r = un(op, a, m.flags(), w, q);
                m.write(&ops[0], w, r.res, addr);
                let f = m.flags();
                m.set_flags((f & !r.defined) | (r.flags & r.defined));
                one(&m, Outcome::Next)
            }
            "not" => {
                let w = Self::width_of(&ops[0]).unwrap();
                let addr = m.opd_addr(&ops[0], env);
                let a = m.read(&ops[0], w, env);
                m.write(&ops[0], w, !a & mask_w(w), addr);
                one(&m, Outcome::Next)
            }
            "and" | "or" | "xor" | "test" => {
                let op = match mn {
                    "and" => Logic::And,
                    "or" => Logic::Or,
                    "xor" => Logic::Xor,
                    _ => Logic::Test,
                };
                let w = Self::width_of(&ops[0]).unwrap();
                let addr = m.opd_addr(&ops[0], env);
                let a = m.read(&ops[0], w, env);
                let b = m.read(&ops[1], w, env);
                let r = logic(op, a, b, w);
                if op != Logic::Test {
                    m.write(&ops[0], w, r.res, addr);
                }
                let f = m.flags();
                m.set_flags((f & !(r.defined | AF)) | (r.flags & r.defined));
                vec![m.snapshot(Outcome::Next, AF, 0)]
            }
            "sal" | "shl" | "sar" | "shr" | "rol" | "ror" | "rcl" | "rcr" => {
                let op = match mn {
                    "sal" | "shl" => Sh::Shl,
                    "sar" => Sh::Sar,
                    "shr" => Sh::Shr,
                    "rol" => Sh::Rol,
                    "ror" => Sh::Ror,
                    "rcl" => Sh::Rcl,
                    _ => Sh::Rcr,
                };
                let w = Self::width_of(&ops[0]).unwrap();
                let addr = m.opd_addr(&ops[0], env);
                let a = m.read(&ops[0], w, env);
                let count = m.read(&ops[1], 8, env) & 0xFF;
                let r = shift(op, a, count, m.flags() & CF != 0, w);
                m.write(&ops[0], w, r.res, addr);
                let f = m.flags();
                m.set_flags((f & !(r.defined | r.undef)) | (r.flags & r.defined));
                vec![m.snapshot(Outcome::Next, r.undef, 0)]
            }
            "mul" | "imul" | "div" | "idiv" => {
                let op = match mn {
                    "mul" => MulDiv::Mul,
                    "imul" => MulDiv::Imul,
                    "div" => MulDiv::Div,
                    _ => MulDiv::Idiv,
                };
                let w = Self::width_of(&ops[0]).unwrap();
                let v = m.read(&ops[0], w, env);
                let und_all = match op {
                    MulDiv::Mul | MulDiv::Imul => SF | ZF | AF | PF,
                    _ => STATUS,
                };
                match muldiv(op, w, m.regs.r[AX], m.regs.r[DX], v, q) {
                    MdOut::Ok { ax, dx, flags, defined } => {
                        m.regs.r[AX] = ax;
                        m.regs.r[DX] = dx;
                        let undef = und_all & !defined;
                        let f = m.flags();
                        m.set_flags((f & !(defined | undef)) | (flags & defined));
                        vec![m.snapshot(Outcome::Next, undef, 0)]
                    }
                    MdOut::DivideError => {
                        // registers after a divide error are not compared
                        vec![m.snapshot(Outcome::Int(0), STATUS, (1 << AX) | (1 << DX))]
                    }
                    MdOut::Either { ax, dx } => {
                        let e1 = m.snapshot(Outcome::Int(0), STATUS, (1 << AX) | (1 << DX));
                        m.regs.r[AX] = ax;
                        m.regs.r[DX] = dx;
                        vec![e1, m.snapshot(Outcome::Next, STATUS, 0)]
                    }
                }
            }
            "aaa" | "aas" | "daa" | "das" | "aam" | "aad" | "cbw" | "cwd" => {
                let op = ADJS.iter().copied().find(|a| a.name() == mn).unwrap();
                let und = match op {
                    Adj::Aaa | Adj::Aas => OF | SF | ZF | PF,
                    Adj::Daa | Adj::Das => OF,
                    Adj::Aam | Adj::Aad => OF | AF | CF,
                    _ => 0,
                };
                let mut outs = Vec::new();
                for a in adjust(op, m.regs.r[AX], m.regs.r[DX], m.flags()) {
                    let mut x = m.clone();
                    x.regs.r[AX] = a.ax;
                    x.regs.r[DX] = a.dx;
                    let f = x.flags();
                    x.set_flags((f & !(a.defined | und)) | (a.flags & a.defined));
                    outs.push(x.snapshot(Outcome::Next, und, 0));
                }
                outs
            }
            "movs" | "lods" | "stos" | "cmps" | "scas" => m.exec_string(insn, env),
            "stc" => {
                let f = m.flags();
                m.set_flags(f | CF);
                one(&m, Outcome::Next)
            }
            "clc" => {
                let f = m.flags();
                m.set_flags(f & !CF);
                one(&m, Outcome::Next)
            }
            "cmc" => {
                let f = m.flags();
                m.set_flags(f ^ CF);
                one(&m, Outcome::Next)
            }
            "std" => {
                let f = m.flags();
                m.set_flags(f | DF);
                one(&m, Outcome::Next)
            }
            "cld" => {
                let f = m.flags();
                m.set_flags(f & !DF);
                one(&m, Outcome::Next)
            }
            "sti" => {
                let f = m.flags();
                m.set_flags(f | IF);
                one(&m, Outcome::Next)
            }
            "cli" => {
                let f = m.flags();
                m.set_flags(f & !IF);
                one(&m, Outcome::Next)
            }
            "hlt" => one(&m, Outcome::Halt),
            "nop" => one(&m, Outcome::Next),
            "int" => {
                let n = match ops[0] {
                    Opd::Imm(v, _) => v as u8,
                    _ => 0,
                };
                one(&m, Outcome::Int(n))
            }
            "call" => {
                let n = match &ops[0] {
                    Opd::Name(n) => n.clone(),
                    _ => String::new(),
                };
                m.call_stack.push(env.current + 1);
                one(&m, Outcome::JmpProc(n))
            }
            "ret" => match m.call_stack.pop() {
                Some(p) => one(&m, Outcome::JmpIdx(p)),
                None => one(&m, Outcome::Error),
            },
            "jcxz" => {
                let n = name_of(&ops[0]);
                if m.regs.r[CX] == 0 {
                    one(&m, Outcome::JmpLabel(n))
                } else {
                    one(&m, Outcome::Next)
                }
            }
            "loop" | "loope" | "loopz" | "loopne" | "loopnz" => {
                let n = name_of(&ops[0]);
                let c = m.regs.r[CX].wrapping_sub(1);
                m.regs.r[CX] = c;
                let z = m.flags() & ZF != 0;
                let take = match mn {
                    "loop" => c != 0,
                    "loope" | "loopz" => c != 0 && z,
                    _ => c != 0 && !z,
                };
                if take {
                    one(&m, Outcome::JmpLabel(n))
                } else {
                    one(&m, Outcome::Next)
                }
            }
            _ => {
                if let Some(t) = jcc_predicate(mn, m.flags(), q) {
                    let n = name_of(&ops[0]);
                    if t {
                        one(&m, Outcome::JmpLabel(n))
                    } else {
                        one(&m, Outcome::Next)
                    }
                } else {
                    panic!("model: unknown mnemonic {}", mn);
                }
            }
        }
    }

    /// one element of a string instruction; `linear` selects the reading of a word element
    /// that straddles offset FFFFh (true: physical address + 1, false: offset wraps to 0)
    fn string_body(&mut self, mn: &str, w: u32, linear: bool) {
        let df = self.flags() & DF != 0;
        let step: u16 = if w == 8 { 1 } else { 2 };
        let rd_el = |m: &Machine, seg: u16, off: u16| -> u32 {
            if w == 8 {
                m.mem.rd(phys(seg, off)) as u32
            } else if linear {
                m.mem.rd16(phys(seg, off)) as u32
            } else {
                m.mem.rd(phys(seg, off)) as u32 | ((m.mem.rd(phys(seg, off.wrapping_add(1))) as u32) << 8)
            }
        };
        let wr_el = |m: &mut Machine, seg: u16, off: u16, v: u32| {
            if w == 8 {
                m.mem.wr(phys(seg, off), v as u8);
            } else if linear {
                m.mem.wr16(phys(seg, off), v as u16);
            } else {
                m.mem.wr(phys(seg, off), v as u8);
                m.mem.wr(phys(seg, off.wrapping_add(1)), (v >> 8) as u8);
            }
        };
        let adv = |v: u16| if df { v.wrapping_sub(step) } else { v.wrapping_add(step) };
        let (ds, es, si, di) = (self.regs.r[DS], self.regs.r[ES], self.regs.r[SI], self.regs.r[DI]);
        match mn {
            "movs" => {
                let v = rd_el(self, ds, si);
                wr_el(self, es, di, v);
                self.regs.r[SI] = adv(si);
                self.regs.r[DI] = adv(di);
            }
            "lods" => {
                let v = rd_el(self, ds, si);
                if w == 8 {
                    self.set8(R8::AL, v as u8);
                } else {
                    self.regs.r[AX] = v as u16;
                }
                self.regs.r[SI] = adv(si);
            }
            "stos" => {
                let v = if w == 8 { self.r8(R8::AL) as u32 } else { self.regs.r[AX] as u32 };
                wr_el(self, es, di, v);
                self.regs.r[DI] = adv(di);
            }
            "cmps" => {
                let s = rd_el(self, ds, si);
                let d = rd_el(self, es, di);
                let r = sub(s, d, false, w);
                let f = self.flags();
                self.set_flags((f & !STATUS) | r.flags);
                self.regs.r[SI] = adv(si);
                self.regs.r[DI] = adv(di);
            }
            "scas" => {
                let a = if w == 8 { self.r8(R8::AL) as u32 } else { self.regs.r[AX] as u32 };
                let d = rd_el(self, es, di);
                let r = sub(a, d, false, w);
                let f = self.flags();
                self.set_flags((f & !STATUS) | r.flags);
                self.regs.r[DI] = adv(di);
            }
            _ => unreachable!(),
        }
    }

    fn exec_string(&self, insn: &Insn, env: &Env) -> Vec<Expect> {
        let w = match insn.ops[0] {
            Opd::Wd(w) => w.bits(),
            _ => 8,
        };
        let variants: &[bool] = if env.string_straddle_both && w == 16 { &[true, false] } else { &[true] };
        let mut outs = Vec::new();
        for &linear in variants {
            let mut m = self.clone();
            match insn.prefix {
                None => m.string_body(insn.mn, w, linear),
                Some(p) => {
                    // REP / REPE / REPNE protocol
                    while m.regs.r[CX] != 0 {
                        m.string_body(insn.mn, w, linear);
                        m.regs.r[CX] = m.regs.r[CX].wrapping_sub(1);
                        let z = m.flags() & ZF != 0;
                        match p {
                            "repe" | "repz" => {
                                if !z {
                                    break;
                                }
                            }
                            "repne" | "repnz" => {
                                if z {
                                    break;
                                }
                            }
                            _ => {}
                        }
                    }
                }
            }
            outs.push(m.snapshot(Outcome::Next, 0, 0));
        }
        outs
    }
}

fn name_of(o: &Opd) -> String {
    match o {
        Opd::Name(n) => n.clone(),
        _ => String::new(),
    }
}

/// which open quirk may explain a mismatch of this instruction
pub fn quirk_key_for_insn(i: &Insn) -> Option<&'static str> {
    match i.mn {
        "inc" | "dec" => Some(QUIRK_KEYS[0]),
        "neg" => Some(QUIRK_KEYS[1]),
        "imul" => {
            if Machine::width_of(&i.ops[0]) == Some(8) {
                Some(QUIRK_KEYS[2])
            } else {
                None
            }
        }
        "jle" | "jng" => Some(QUIRK_KEYS[3]),
        "lea" => Some(QUIRK_KEYS[4]),
        _ => None,
    }
}
