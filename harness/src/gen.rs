//! Generator of structured, terminating programs (C08, C20, C19, C10, C16): blocks of marker
//! instructions joined by forward jumps, counter-guarded backward jumps, conditional skips,
//! procedures (explicit, early and implied ret), nested calls, labels at every legal
//! position, prints.  Built from a token vector so that shrinking keeps programs well formed.
#![allow(dead_code)]
use crate::asm::*;
use crate::progs::*;
use proptest::prelude::*;

#[derive(Clone, Debug)]
pub struct Tok {
    pub kind: u8,
    pub a: u8,
    pub b: u8,
}

#[derive(Clone, Debug)]
pub struct GenCfg {
    pub toks_pre: Vec<Tok>,
    pub procs: Vec<Vec<Tok>>,
    pub toks_main: Vec<Tok>,
    /// 0 = start first, 1 = code before start, 2 = start label is the last thing in the file
    pub start_pos: u8,
    pub label_before_proc: bool,
    pub trailing_label: bool,
    pub with_prints: bool,
    pub with_data: bool,
    pub max_depth: u8,
    /// allow int 3 and trap-flag set/clear sequences in the main part (C20)
    pub stepping: bool,
    /// names of generated code labels and procedures: 0..=2 synthetic (L3, p_0); otherwise words of `name_vocab()`
    /// (program vocabulary and words that are keywords of a downstream grammar only), chosen by this value
    pub vocab: u8,
}

/// Words a programmer may use as a label or procedure name and which the assembler of the working tree accepts as
/// both: plausible program vocabulary (in three letter cases) and every identifier-like terminal that only a
/// DOWNSTREAM grammar (interpreter, data loader, print reader) knows.  A name is a name: a program must run the same
/// whatever its labels are called, so the generator renames the labels and procedures of one program in four to
/// words from this list and the reference (which never looks at names) must still be matched.
pub fn name_vocab() -> &'static Vec<String> {
    static V: std::sync::OnceLock<Vec<String>> = std::sync::OnceLock::new();
    V.get_or_init(|| {
        let mut words: Vec<String> = crate::grammar::downstream_only_words();
        for w in [
            "end", "halt", "stop", "exit", "quit", "done", "next", "main", "begin", "data", "code", "stack", "again", "skip", "fail", "ok", "error", "org", "equ", "proc", "endp", "ptr", "short", "near", "far", "dup",
            "segment", "ends", "assume", "include", "label", "n", "q", "x", "line", "output", "input", "trap", "step", "run", "show", "dump", "regs", "flag", "memory", "ip", "pc", "eax", "repeat", "until", "while",
            "if", "then", "else", "retn", "retf", "leave", "enter", "jump", "goto", "top", "bottom", "body", "tail", "head", "entry", "finish", "continue", "break", "return", "begin_", "_end", "init", "out1", "in1",
        ] {
            words.push(w.to_string());
        }
        let mut vars: Vec<String> = Vec::new();
        for w in &words {
            vars.push(w.clone());
            vars.push(w.to_uppercase());
            let mut c = w.chars();
            if let Some(f) = c.next() {
                vars.push(format!("{}{}", f.to_uppercase(), c.as_str()));
            }
        }
        vars.sort();
        vars.dedup();
        let reserved = |w: &str| {
            let l = w.to_lowercase();
            l == "start" || l == "pre_entry" || l == "pre_back" || l == "before_proc" || l.starts_with("d_") || l.starts_with("p_") || (l.starts_with('l') && l[1..].chars().all(|c| c.is_ascii_digit()) && l.len() > 1)
        };
        vars.into_iter()
            .filter(|w| !reserved(w))
            .filter(|w| {
                crate::pipeline::assemble(&format!("start: jmp {w}\njz {w}\nloop {w}\n{w}:\nhlt\n", w = w)).is_ok()
                    && crate::pipeline::assemble(&format!("def {w} {{ stc }}\nstart: call {w}\n", w = w)).is_ok()
            })
            .collect()
    })
}

/// rename the synthetic labels (L<n>) and procedures (p_<n>, P_<n>) of a program to vocabulary words; one name maps to
/// one word in both name spaces, different names to different words
fn apply_vocab(p: &mut Program, sel: u8) {
    let vocab = name_vocab();
    if vocab.is_empty() {
        return;
    }
    fn synthetic(n: &str) -> bool {
        let b = n.as_bytes();
        (b.len() >= 2 && b[0] == b'L' && b[1..].iter().all(|c| c.is_ascii_digit())) || ((n.starts_with("p_") || n.starts_with("P_")) && n.len() > 2 && b[2..].iter().all(|c| c.is_ascii_digit()))
    }
    let mut map: std::collections::BTreeMap<String, String> = Default::default();
    let mut used: std::collections::BTreeSet<String> = Default::default();
    let mut next = (sel as usize).wrapping_mul(7919) % vocab.len();
    let mut lookup = |n: &str, map: &mut std::collections::BTreeMap<String, String>| -> String {
        if !synthetic(n) {
            return n.to_string();
        }
        if let Some(w) = map.get(n) {
            return w.clone();
        }
        let mut tries = 0;
        while used.contains(&vocab[next]) && tries < vocab.len() {
            next = (next + 1) % vocab.len();
            tries += 1;
        }
        if tries >= vocab.len() {
            return n.to_string();
        }
        let w = vocab[next].clone();
        used.insert(w.clone());
        next = (next + 31) % vocab.len();
        map.insert(n.to_string(), w.clone());
        w
    };
    fn walk(items: &mut [Item], lookup: &mut dyn FnMut(&str) -> String) {
        for it in items.iter_mut() {
            match it {
                Item::Label(n) => *n = lookup(n),
                Item::Ins(i) => {
                    for o in i.ops.iter_mut() {
                        if let Opd::Name(n) = o {
                            *n = lookup(n);
                        }
                    }
                }
                Item::Proc { name, body } => {
                    *name = lookup(name);
                    walk(body, lookup);
                }
                _ => {}
            }
        }
    }
    let mut f = |n: &str| lookup(n, &mut map);
    walk(&mut p.code, &mut f);
}

/// does the program use a vocabulary word as a label or procedure name (evidence class)
pub fn uses_vocab_names(p: &Program) -> bool {
    fn any(items: &[Item], v: &[String]) -> bool {
        items.iter().any(|it| match it {
            Item::Label(n) => v.binary_search(n).is_ok(),
            Item::Proc { name, body } => v.binary_search(name).is_ok() || any(body, v),
            _ => false,
        })
    }
    any(&p.code, name_vocab())
}

fn marker(c: u8) -> Vec<Item> {
    vec![
        Item::Ins(Insn::new("mov", vec![Opd::R8(R8::DL), Opd::Imm(c as u16, ImmKind::SB)])),
        Item::Ins(Insn::new("mov", vec![Opd::R8(R8::AH), Opd::Imm(2, ImmKind::SB)])),
        Item::Ins(Insn::new("int", vec![Opd::Imm(0x21, ImmKind::UB)])),
    ]
}

enum Open {
    Loop { label: String, ctr: &'static str },
    Skip { label: String },
}

/// loop counters: the main part uses cx (LOOP) and bl (SUB/JNZ) by nesting depth; procedure i
/// uses its own register so that nested calls never share a counter
const MAIN_COUNTERS: [&str; 2] = ["cx", "bl"];
const PROC_COUNTERS: [&str; 5] = ["si", "di", "bp", "bh", "dh"];

fn ctr_opd(r: &str) -> (Opd, ImmKind) {
    match r {
        "cx" => (Opd::R16(R16::CX), ImmKind::SW),
        "si" => (Opd::R16(R16::SI), ImmKind::SW),
        "di" => (Opd::R16(R16::DI), ImmKind::SW),
        "bp" => (Opd::R16(R16::BP), ImmKind::SW),
        "bl" => (Opd::R8(R8::BL), ImmKind::SB),
        "bh" => (Opd::R8(R8::BH), ImmKind::SB),
        // loop counters that live in memory (main part only): nothing but that byte changes from pass to pass
        "m0" => (Opd::Mem(W::B, Mem { seg: None, shape: Shape::Direct(0x7F00) }), ImmKind::SB),
        "m1" => (Opd::Mem(W::B, Mem { seg: None, shape: Shape::Direct(0x7F02) }), ImmKind::SB),
        _ => (Opd::R8(R8::DH), ImmKind::SB),
    }
}

struct Builder {
    next_label: usize,
    prefix: String,
    /// names of procedures that labels may share (labels and procedures live in separate name
    /// spaces: `jmp p_0` goes to the label, `call p_0` to the procedure)
    alias: Vec<String>,
    /// procedures named like their predecessor in another case (see proc_name)
    case_variants: bool,
}

impl Builder {
    fn fresh(&mut self) -> String {
        self.next_label += 1;
        if self.next_label % 3 == 2 {
            if let Some(a) = self.alias.pop() {
                return a;
            }
        }
        format!("{}{}", self.prefix, self.next_label)
    }
}

const CCS: [&str; 22] = [
    "ja", "jnbe", "jae", "jnb", "jb", "jnae", "jbe", "jna", "jc", "je", "jz", "jg", "jnle", "jge", "jnl", "jl", "jnge", "jnc", "jne", "jnz", "jns", "js",
];

fn build_body(toks: &[Tok], b: &mut Builder, nprocs_callable: usize, top_level: bool, in_proc: bool, with_prints: bool, max_depth: u8, counters: &[&'static str], special_jump: Option<&str>, stepping: bool) -> Vec<Item> {
    let mut out: Vec<Item> = Vec::new();
    let mut open: Vec<Open> = Vec::new();
    let mut loops_open = 0usize;
    let close = |o: Open, out: &mut Vec<Item>, loops_open: &mut usize| match o {
        Open::Loop { label, ctr } => {
            if ctr == "cx" {
                out.push(Item::Ins(Insn::new("loop", vec![Opd::Name(label)])));
            } else {
                let (opd, k) = ctr_opd(ctr);
                out.push(Item::Ins(Insn::new("sub", vec![opd, Opd::Imm(1, k)])));
                out.push(Item::Ins(Insn::new("jnz", vec![Opd::Name(label)])));
            }
            *loops_open -= 1;
        }
        Open::Skip { label } => out.push(Item::Label(label)),
    };
    for t in toks {
        match t.kind % 17 {
            0 | 1 | 2 => out.extend(marker(MARKERS[t.a as usize % MARKERS.len()])),
            3 => {
                if (open.len() as u8) < max_depth && loops_open < counters.len() {
                    let n = 1 + (t.a % 3) as u16;
                    let in_memory = top_level && !in_proc && t.b % 4 == 1;
                    let ctr = if in_memory { ["m0", "m1", "m1", "m1", "m1"][loops_open] } else { counters[loops_open] };
                    let n = if in_memory { n + 2 } else { n };
                    let (opd, k) = ctr_opd(ctr);
                    out.push(Item::Ins(Insn::new("mov", vec![opd, Opd::Imm(n, k)])));
                    let l = b.fresh();
                    out.push(Item::Label(l.clone()));
                    open.push(Open::Loop { label: l, ctr });
                    loops_open += 1;
                }
            }
            4 => {
                if (open.len() as u8) < max_depth {
                    let l = b.fresh();
                    out.push(Item::Ins(Insn::new("jmp", vec![Opd::Name(l.clone())])));
                    open.push(Open::Skip { label: l });
                }
            }
            5 => {
                if (open.len() as u8) < max_depth {
                    let l = b.fresh();
                    out.push(Item::Ins(Insn::new("mov", vec![Opd::R8(R8::AL), Opd::Imm(t.a as u16, ImmKind::SB)])));
                    out.push(Item::Ins(Insn::new("cmp", vec![Opd::R8(R8::AL), Opd::Imm(t.b as u16, ImmKind::SB)])));
                    out.push(Item::Ins(Insn::new(CCS[(t.a as usize + t.b as usize) % CCS.len()], vec![Opd::Name(l.clone())])));
                    open.push(Open::Skip { label: l });
                }
            }
            6 | 7 => {
                if let Some(o) = open.pop() {
                    close(o, &mut out, &mut loops_open);
                }
            }
            8 => {
                if nprocs_callable > 0 {
                    // one call in three sits between a PUSH and the matching POP: the machine stack is deeper inside the
                    // callee than at the caller's own entry, and back to that level when the caller returns
                    let wrap = t.b % 3 == 0;
                    if wrap {
                        out.push(Item::Ins(Insn::new("push", vec![Opd::R16(R16::AX)])));
                    }
                    out.push(Item::Ins(Insn::new("call", vec![Opd::Name(proc_name(b.case_variants, t.a as usize % nprocs_callable))])));
                    if wrap {
                        out.push(Item::Ins(Insn::new("pop", vec![Opd::R16(R16::AX)])));
                    }
                }
            }
            9 => out.push(Item::Label(b.fresh())),
            10 => {
                if top_level && with_prints && open.iter().all(|o| matches!(o, Open::Skip { .. })) {
                    let p = match t.a % 4 {
                        0 => PrintStmt::Reg,
                        1 => PrintStmt::Flags,
                        2 => PrintStmt::MemRange(t.b as u32, t.b as u32 + (t.a as u32 % 20)),
                        _ => PrintStmt::MemDs(t.b as u32 % 40),
                    };
                    out.push(Item::Print(p));
                }
            }
            11 => {
                if in_proc && t.a % 4 == 0 {
                    out.push(Item::Ins(Insn::new("ret", vec![])));
                } else if top_level && !in_proc && t.a % 16 == 0 && open.is_empty() {
                    out.push(Item::Ins(Insn::new("hlt", vec![])));
                }
            }
            14 if stepping && top_level => out.push(Item::Ins(Insn::new("int", vec![Opd::Imm(3, ImmKind::UB)]))),
            15 | 16 if stepping && top_level => {
                // set (15) or clear (16) the trap flag: load a complete, fully defined flag word
                let base: u16 = 0xF002 | ((t.a as u16 & 0x0F) << 4 & 0x00D0) | (t.b as u16 & 0x05) | ((t.b as u16 & 0x08) << 8);
                let fw = if t.kind % 17 == 15 { base | 0x0100 } else { base & !0x0100 };
                out.push(Item::Ins(Insn::new("mov", vec![Opd::R16(R16::AX), Opd::Imm(fw, ImmKind::SW)])));
                out.push(Item::Ins(Insn::new("push", vec![Opd::R16(R16::AX)])));
                out.push(Item::Ins(Insn::new("popf", vec![])));
            }
            12 if in_proc => {
                // the machine stack is not where CALL and RET of this emulator keep their return addresses: a procedure may
                // pop what its caller pushed, or leave something behind, and still return to its caller
                out.push(Item::Ins(Insn::new(if t.a % 2 == 0 { "pop" } else { "push" }, vec![Opd::R16(R16::AX)])));
            }
            13 if special_jump.is_some() && t.a % 3 == 0 => {
                // jump to the label that precedes a procedure definition: the body runs and its
                // ret finds no active call
                out.push(Item::Ins(Insn::new("jmp", vec![Opd::Name(special_jump.unwrap().to_string())])));
            }
            _ => {
                let harmless = ["nop", "cld", "clc", "stc", "cmc"];
                out.push(Item::Ins(Insn::new(harmless[t.a as usize % harmless.len()], vec![])));
            }
        }
    }
    while let Some(o) = open.pop() {
        close(o, &mut out, &mut loops_open);
    }
    out
}

/// name of the i-th procedure.  In one program in three (max_depth == 3) every odd-numbered procedure is called like
/// its predecessor with a capital P: names are case-sensitive, so p_0 and P_0 are two different procedures
pub fn proc_name(case_variants: bool, i: usize) -> String {
    if case_variants && i % 2 == 1 {
        format!("P_{}", i - 1)
    } else {
        format!("p_{}", i)
    }
}

pub fn build_program(g: &GenCfg) -> Program {
    let mut code: Vec<Item> = Vec::new();
    // one program in four reuses procedure names as label names
    let alias: Vec<String> = if g.max_depth == 2 && g.trailing_label { (0..g.procs.len()).map(|i| proc_name(false, i)).collect() } else { vec![] };
    let mut b = Builder { next_label: 0, prefix: "L".into(), alias, case_variants: g.max_depth == 3 };
    let mut data: Vec<DataDecl> = Vec::new();
    if g.with_data {
        data.push(DataDecl::Item { label: Some("d_0".into()), word: false, kind: DataKind::Str("data!".into()) });
        data.push(DataDecl::Item { label: None, word: true, kind: DataKind::Fill(0xBEEF, 3) });
    }
    // code before start: reached only by a jump; ends by jumping back into the main part
    let has_pre = g.start_pos == 1 && !g.toks_pre.is_empty();
    if has_pre {
        code.push(Item::Label("pre_entry".into()));
        code.extend(build_body(&g.toks_pre, &mut b, 0, false, false, false, g.max_depth, &[], None, false));
        code.push(Item::Ins(Insn::new("jmp", vec![Opd::Name("pre_back".into())])));
    }
    // one program in four has an ordinary label that spells start in another case, before everything else (labels are
    // case sensitive: it is not the entry point)
    if g.max_depth == 1 && !g.trailing_label && g.start_pos != 1 {
        code.push(Item::Label(if g.with_data { "Start".into() } else { "START".into() }));
        code.extend(marker(MARKERS[5 % MARKERS.len()]));
    }
    // procedures: p_i may call p_j for j < i; each level uses counters above the callers' ones
    let np = g.procs.len();
    for (i, toks) in g.procs.iter().enumerate() {
        if g.label_before_proc && i == 0 {
            code.push(Item::Label("before_proc".into()));
        }
        // a procedure body must not be empty (proc_contents is one or more)
        let mut body = build_body(toks, &mut b, i, false, true, false, g.max_depth.min(2), &PROC_COUNTERS[i % PROC_COUNTERS.len()..i % PROC_COUNTERS.len() + 1], None, false);
        if body.is_empty() {
            body.extend(marker(MARKERS[i % MARKERS.len()]));
        }
        code.push(Item::Proc { name: proc_name(g.max_depth == 3, i), body });
    }
    if g.start_pos != 2 {
        code.push(Item::Label("start".into()));
    }
    if has_pre {
        code.push(Item::Ins(Insn::new("jmp", vec![Opd::Name("pre_entry".into())])));
        code.push(Item::Label("pre_back".into()));
    }
    code.extend(build_body(&g.toks_main, &mut b, np, true, false, g.with_prints, g.max_depth, &MAIN_COUNTERS, if g.label_before_proc && np > 0 { Some("before_proc") } else { None }, g.stepping));
    if g.trailing_label {
        code.push(Item::Label(b.fresh()));
    }
    if g.start_pos == 2 {
        // everything above is dead code; start is the last thing in the file
        code.push(Item::Label("start".into()));
    }
    let mut prog = Program { data, code };
    if g.vocab >= 3 {
        apply_vocab(&mut prog, g.vocab);
    }
    prog
}

fn tok_s() -> BoxedStrategy<Tok> {
    (any::<u8>(), any::<u8>(), any::<u8>()).prop_map(|(kind, a, b)| Tok { kind, a, b }).boxed()
}

pub fn gencfg_s(max_main: usize, max_procs: usize) -> BoxedStrategy<GenCfg> {
    (
        proptest::collection::vec(tok_s(), 0..6),
        proptest::collection::vec(proptest::collection::vec(tok_s(), 0..8), 0..=max_procs),
        proptest::collection::vec(tok_s(), 0..max_main),
        prop_oneof![6 => Just(0u8), 2 => Just(1u8), 1 => Just(2u8)],
        any::<bool>(),
        any::<bool>(),
        any::<bool>(),
        any::<bool>(),
        1u8..=3,
        prop_oneof![3 => 0u8..3, 1 => 3u8..=255],
    )
        .prop_map(|(toks_pre, procs, toks_main, start_pos, label_before_proc, trailing_label, with_prints, with_data, max_depth, vocab)| GenCfg {
            toks_pre,
            procs,
            toks_main,
            start_pos,
            label_before_proc,
            trailing_label,
            with_prints,
            with_data,
            max_depth,
            stepping: false,
            vocab,
        })
        .boxed()
}

/// structural features for the non-triviality rule
pub struct Features {
    pub backward_jump: bool,
    pub call_depth2: bool,
    pub label_adjacent_special: bool,
    pub repeated_call: bool,
    /// a call executed inside a procedure directly after a PUSH (popped again after the callee returned)
    pub push_call_in_proc: bool,
    /// a procedure returned with SP above / below its value at the call
    pub ret_with_sp_above: bool,
    pub ret_with_sp_below: bool,
}

pub fn features(p: &Program, trace: &[usize], flat: &Flat) -> Features {
    let mut backward = false;
    for w in trace.windows(2) {
        if w[1] <= w[0] {
            if let FlatOp::Ins(i) = &flat.ops[w[0]] {
                if i.mn != "call" && i.mn != "ret" {
                    backward = true;
                }
            }
        }
    }
    let mut depth = 0;
    let mut maxd = 0;
    let mut calls: std::collections::HashMap<String, u32> = Default::default();
    let mut push_call_in_proc = false;
    let mut prev_push = false;
    // relative stack depth (bytes) along the trace
    let mut sp: i64 = 0;
    let mut sp_at_call: Vec<i64> = Vec::new();
    let (mut above, mut below) = (false, false);
    for &i in trace {
        let was_push = prev_push;
        prev_push = matches!(&flat.ops[i], FlatOp::Ins(x) if x.mn == "push");
        match &flat.ops[i] {
            FlatOp::Ins(x) if x.mn == "call" => {
                if depth >= 1 && was_push {
                    push_call_in_proc = true;
                }
                sp_at_call.push(sp);
                depth += 1;
                maxd = maxd.max(depth);
                if let Some(Opd::Name(n)) = x.ops.get(0) {
                    *calls.entry(n.clone()).or_insert(0) += 1;
                }
            }
            FlatOp::Ins(x) if x.mn == "ret" => {
                depth -= 1;
                match sp_at_call.pop() {
                    Some(s) if sp > s => above = true,
                    Some(s) if sp < s => below = true,
                    _ => {}
                }
            }
            FlatOp::ImpliedRet => {
                depth -= 1;
                match sp_at_call.pop() {
                    Some(s) if sp > s => above = true,
                    Some(s) if sp < s => below = true,
                    _ => {}
                }
            }
            FlatOp::Ins(x) if x.mn == "push" || x.mn == "pushf" => sp -= 2,
            FlatOp::Ins(x) if x.mn == "pop" || x.mn == "popf" => sp += 2,
            _ => {}
        }
    }
    let mut adj = false;
    for w in p.code.windows(2) {
        if let Item::Label(_) = w[0] {
            if matches!(w[1], Item::Proc { .. } | Item::MacroUse { .. } | Item::Print(_)) {
                adj = true;
            }
        }
    }
    if let Some(Item::Label(_)) = p.code.last() {
        adj = true;
    }
    Features { backward_jump: backward, call_depth2: maxd >= 2, label_adjacent_special: adj, repeated_call: calls.values().any(|c| *c >= 2), push_call_in_proc, ret_with_sp_above: above, ret_with_sp_below: below }
}
