
use vcheck::common::*;
use vcheck::*;

fn usage() -> ! {
    eprintln!("usage: vcheck <C01..C20> <quick|thorough> | vcheck replay <file>");
    std::process::exit(3);
}

fn main() {
    let args: Vec<String> = std::env::args().collect();
    if args.len() < 3 {
        usage();
    }
    emu::install_quiet_panic_hook();
    if let Err(e) = refmodel::self_check() {
        println!("HARNESS-ERROR: reference model self-check failed: {}", e);
        std::process::exit(3);
    }
    if args[1] == "child-answer" {
        // a brand-new process answers one text with fresh objects (C19: nothing kept per process may matter)
        let txt = std::fs::read_to_string(&args[2]).unwrap_or_default();
        print!("{}", c19::answer_for_child(&txt));
        std::process::exit(0);
    }
    if args[1] == "replay" {
        std::process::exit(replay(&args[2]));
    }
    let tier = match args[2].as_str() {
        "quick" => Tier::Quick,
        "thorough" => Tier::Thorough,
        _ => usage(),
    };
    let seed: u64 = std::env::var("VERIF_SEED").ok().and_then(|s| s.trim().parse::<i128>().ok()).map(|v| v as u64).unwrap_or(0);
    let prop: &'static str = match args[1].as_str() {
        "C01" => "C01",
        "C02" => "C02",
        "C03" => "C03",
        "C04" => "C04",
        "C05" => "C05",
        "C06" => "C06",
        "C07" => "C07",
        "C08" => "C08",
        "C09" => "C09",
        "C10" => "C10",
        "C11" => "C11",
        "C12" => "C12",
        "C13" => "C13",
        "C14" => "C14",
        "C15" => "C15",
        "C16" => "C16",
        "C17" => "C17",
        "C18" => "C18",
        "C19" => "C19",
        "C20" => "C20",
        _ => usage(),
    };
    let ctx = Ctx::new(prop, tier, seed);
    match prop {
        "C01" => c01::run(&ctx),
        "C02" => c02::run(&ctx),
        "C03" => c03::run(&ctx),
        "C04" => c04::run(&ctx),
        "C05" => c05::run(&ctx),
        "C06" => c06::run(&ctx),
        "C07" => c07::run(&ctx),
        "C08" => c08::run(&ctx),
        "C09" => c09::run(&ctx),
        "C10" => c10::run(&ctx),
        "C11" => c11::run(&ctx),
        "C12" => c12::run(&ctx),
        "C13" => c13::run(&ctx),
        "C14" => c14::run(&ctx),
        "C15" => c15::run(&ctx),
        "C16" => c16::run(&ctx),
        "C17" => c17::run(&ctx),
        "C18" => c18::run(&ctx),
        "C19" => c19::run(&ctx),
        "C20" => c20::run(&ctx),
        _ => unreachable!(),
    }
    std::process::exit(ctx.finish());
}

fn replay(path: &str) -> i32 {
    let txt = match std::fs::read_to_string(path) {
        Ok(t) => t,
        Err(e) => {
            eprintln!("cannot read {}: {}", path, e);
            return 3;
        }
    };
    let v: serde_json::Value = match serde_json::from_str(&txt) {
        Ok(v) => v,
        Err(e) => {
            eprintln!("bad replay file: {}", e);
            return 3;
        }
    };
    let kind = v.get("kind").and_then(|k| k.as_str()).unwrap_or("");
    let r = match kind {
        "l0" => l0::replay_point(&v),
        "jcc" | "jcc-context" => c06::replay(&v),
        "l1" => l1::replay(&v),
        "seq" => hist::replay(&v),
        "c10" => c10::replay(&v),
        "c11" | "c11-comments" => c11::replay(&v),
        "c12" => c12::replay(&v),
        "c13" => c13::replay(&v),
        "c14" => c14::replay(&v),
        "c16-map" | "c16-diag" | "c16-undefined" | "c16-runtime" => c16::replay(&v),
        "c19-newvm" | "c19-det" | "c19-hist" | "c19-iso" => c19::replay(&v),
        "c15" | "c15-family" | "cli-bytes" => c15::replay(&v),
        "cli" => clicheck::replay(&v),
        "c08" => c08::replay(&v),
        _ => Err(format!("unknown replay kind '{}'", kind)),
    };
    match r {
        Ok(s) => {
            println!("PASS {}", s);
            0
        }
        Err(s) => {
            println!("FAIL {}", s);
            1
        }
    }
}
