//! C11 -- the assembler's output means what the source says, independent of spelling.
use crate::asm::*;
use crate::cli::*;
use crate::clicheck::*;
use crate::common::*;
use crate::ir::*;
use crate::pipeline::*;
use crate::progs::*;
use emulator_8086_lib::LabelType;
use proptest::prelude::*;
use serde_json::{json, Value};

#[derive(Clone, Debug)]
pub enum MainItem {
    Ins(Insn),
    Print(PrintStmt),
    Jump(u8, u16),
    Call(u16),
}

#[derive(Clone, Debug)]
pub struct Case11 {
    pub data_extra: Vec<DataDecl>,
    pub v1_first: bool,
    pub procs: Vec<Vec<Insn>>,
    pub main: Vec<(Option<u8>, MainItem)>,
    pub ch1: Vec<u8>,
    pub ch2: Vec<u8>,
    pub pack: bool,
}

pub const LABEL_POOL: [&str; 14] = ["L1", "l1", "Lx", "lX", "lx", "LX", "loop_", "_a", "A9", "again", "Again", "x86", "_", "mov_"];

pub fn insn_any() -> BoxedStrategy<Insn> {
    prop_oneof![
        4 => two_operand_forms(vec!["add", "adc", "sub", "sbb", "cmp"], true),
        3 => two_operand_forms(vec!["and", "or", "xor", "test"], false),
        3 => one_operand_forms(vec!["inc", "dec", "neg", "mul", "imul", "div", "idiv", "not"]),
        3 => shift_forms(),
        4 => mov_forms(),
        2 => xchg_forms(),
        2 => push_pop_forms(),
        1 => lea_forms(),
        2 => string_forms(),
        1 => flagctl_forms(),
        1 => singleton(vec!["lahf", "sahf", "xlat", "aaa", "aad", "aam", "aas", "daa", "das", "cbw", "cwd", "nop", "hlt", "ret"]),
        1 => proptest::sample::select(vec![3u16, 0x10, 0x21]).prop_map(|n| Insn::new("int", vec![Opd::Imm(n, ImmKind::UB)])),
    ]
    .boxed()
}

pub fn case_s() -> BoxedStrategy<Case11> {
    let item = prop_oneof![
        10 => insn_any().prop_map(MainItem::Ins),
        1 => crate::c17::print_s(300).prop_map(MainItem::Print),
        3 => (any::<u8>(), any::<u16>()).prop_map(|(s, t)| MainItem::Jump(s, t)),
        1 => any::<u16>().prop_map(MainItem::Call),
    ];
    (
        crate::c17::data_s(),
        any::<bool>(),
        proptest::collection::vec(proptest::collection::vec(insn_any(), 1..5), 0..3),
        proptest::collection::vec((proptest::option::weighted(0.3, 0u8..14), item), 1..24),
        proptest::collection::vec(any::<u8>(), 48),
        proptest::collection::vec(any::<u8>(), 48),
        any::<bool>(),
    )
        .prop_map(|(data_extra, v1_first, procs, main, ch1, ch2, pack)| Case11 { data_extra, v1_first, procs, main, ch1, ch2, pack })
        .boxed()
}

const JUMPS: [&str; 37] = [
    "jmp", "ja", "jnbe", "jae", "jnb", "jb", "jnae", "jbe", "jna", "jc", "je", "jz", "jg", "jnle", "jge", "jnl", "jl", "jnge", "jle", "jng", "jnc", "jne", "jnz", "jno", "jnp", "jpo", "jns", "jo", "jp", "jpe",
    "js", "jcxz", "loop", "loope", "loopz", "loopne", "loopnz",
];

/// build the program; `rename` maps a label name to the name actually used
pub fn build(c: &Case11, rename: &dyn Fn(&str) -> String) -> Program {
    let v1 = DataDecl::Item { label: Some(LBL.to_string()), word: true, kind: DataKind::Val(0x1234) };
    let mut data = c.data_extra.clone();
    if c.v1_first {
        data.insert(0, v1);
    } else {
        // after the last SET-free position: anywhere is fine, the label only has to exist
        data.push(v1);
    }
    // labels defined in the main part
    let mut defined: Vec<String> = vec!["start".to_string()];
    let mut used = std::collections::HashSet::new();
    let mut labels_at: Vec<Option<String>> = Vec::new();
    for (l, _) in &c.main {
        let n = l.and_then(|i| {
            let n = LABEL_POOL[i as usize % LABEL_POOL.len()];
            if used.insert(n) {
                Some(n.to_string())
            } else {
                None
            }
        });
        if let Some(n) = &n {
            defined.push(n.clone());
        }
        labels_at.push(n);
    }
    let mut code: Vec<Item> = Vec::new();
    for (i, body) in c.procs.iter().enumerate() {
        code.push(Item::Proc { name: format!("p_{}", i), body: body.iter().cloned().map(Item::Ins).collect() });
    }
    code.push(Item::Label(rename("start")));
    for (k, (_, it)) in c.main.iter().enumerate() {
        if let Some(n) = &labels_at[k] {
            code.push(Item::Label(rename(n)));
        }
        match it {
            MainItem::Ins(i) => code.push(Item::Ins(i.clone())),
            MainItem::Print(p) => code.push(Item::Print(p.clone())),
            MainItem::Jump(s, t) => {
                let target = &defined[crate::pt::idx(*t, defined.len())];
                code.push(Item::Ins(Insn::new(JUMPS[*s as usize % JUMPS.len()], vec![Opd::Name(rename(target))])));
            }
            MainItem::Call(p) => {
                if !c.procs.is_empty() {
                    code.push(Item::Ins(Insn::new("call", vec![Opd::Name(format!("p_{}", crate::pt::idx(*p, c.procs.len())))])));
                }
            }
        }
    }
    Program { data, code }
}

fn print_to_json(p: &PrintStmt) -> Value {
    match p {
        PrintStmt::Flags => json!({"p":"flags"}),
        PrintStmt::Reg => json!({"p":"reg"}),
        PrintStmt::MemRange(a, b) => json!({"p":"range","a":a,"b":b}),
        PrintStmt::MemLen(a, b) => json!({"p":"len","a":a,"b":b}),
        PrintStmt::MemDs(a) => json!({"p":"ds","a":a}),
    }
}
fn print_from_json(v: &Value) -> PrintStmt {
    let a = v["a"].as_u64().unwrap_or(0) as u32;
    let b = v["b"].as_u64().unwrap_or(0) as u32;
    match v["p"].as_str().unwrap_or("") {
        "flags" => PrintStmt::Flags,
        "reg" => PrintStmt::Reg,
        "range" => PrintStmt::MemRange(a, b),
        "len" => PrintStmt::MemLen(a, b),
        _ => PrintStmt::MemDs(a),
    }
}

/// the expectation in a form the replay can re-check: the flattened AST
fn expectation_json(prog: &Program) -> Value {
    let flat = flatten(prog);
    let ops: Vec<Value> = flat
        .ops
        .iter()
        .filter_map(|o| match o {
            FlatOp::Ins(i) => Some(json!({"ins": insn_to_json(i)})),
            FlatOp::Print(p) => Some(json!({"print": print_to_json(p)})),
            FlatOp::ImpliedRet => Some(json!({"ret": true})),
            FlatOp::FinalHlt => None,
        })
        .collect();
    json!({"code": ops, "data": prog.data.iter().map(crate::c12::decl_to_json).collect::<Vec<_>>()})
}

thread_local! {
    static CUR: std::cell::RefCell<Option<Value>> = std::cell::RefCell::new(None);
}

fn fail(key: &str, what: String, c: &Case11, src: &str) -> CaseOutcome {
    let _ = c;
    let exp = CUR.with(|c| c.borrow().clone()).unwrap_or(Value::Null);
    CaseOutcome::Fail { key: key.to_string(), what, replay: json!({"kind":"c11","source":src, "expected": exp}) }
}

/// compare one assembled program with its AST
fn check_against_ast(prog: &Program, src: &str, asm: &Assembled, c: &Case11) -> Option<CaseOutcome> {
    CUR.with(|c| *c.borrow_mut() = Some(expectation_json(prog)));
    let flat = flatten(prog);
    if asm.data.len() != prog.data.len() {
        return Some(fail("c11|data-line-count", format!("{} data lines emitted for {} definitions", asm.data.len(), prog.data.len()), c, src));
    }
    for (d, line) in prog.data.iter().zip(asm.data.iter()) {
        match read_data(line) {
            Err(e) => return Some(fail("c11|data-line-unreadable", format!("emitted data line {:?}: {}", line, e), c, src)),
            Ok(n) => {
                if let Err(e) = data_matches(d, &n) {
                    return Some(fail("c11|data-line-meaning", format!("emitted data line {:?}: {}", line, e), c, src));
                }
            }
        }
    }
    let n_expected = flat.ops.len() - 1;
    if asm.code.len() != n_expected {
        return Some(fail("c11|instruction-count", format!("{} instructions emitted for {} source instructions (one per source instruction, plus the implied ret of each procedure)", asm.code.len(), n_expected), c, src));
    }
    for (k, (op, line)) in flat.ops.iter().zip(asm.code.iter()).enumerate() {
        let n = match read_code(line) {
            Ok(n) => n,
            Err(e) => return Some(fail("c11|code-line-unreadable", format!("emitted line {} {:?}: {}", k, line, e), c, src)),
        };
        let r = match op {
            FlatOp::Ins(i) => insn_matches(i, &n).map_err(|e| (format!("c11|meaning|{}|{}", i.mn, e.split(':').next().unwrap_or("").split(' ').next().unwrap_or("")), format!("source instruction '{}' emitted as {:?}: {}", canonical(i), line, e))),
            FlatOp::Print(p) => print_matches(p, &n).map_err(|e| ("c11|meaning|print".to_string(), format!("emitted {:?}: {}", line, e))),
            FlatOp::ImpliedRet => match &n {
                NLine::Ins { mn, ops, prefix: None } if mn == "ret" && ops.is_empty() => Ok(()),
                _ => Err(("c11|meaning|implied-ret".to_string(), format!("the closing brace of a procedure must emit ret, emitted {:?}", line))),
            },
            FlatOp::FinalHlt => Ok(()),
        };
        if let Err((key, what)) = r {
            return Some(fail(&key, format!("instruction {}: {}", k, what), c, src));
        }
    }
    for (name, idx) in &flat.labels {
        match asm.ictx.label_map.get(name) {
            Some(l) if matches!(l.get_type(), LabelType::CODE) && l.map == *idx => {}
            Some(l) => return Some(fail("c11|code-label-target", format!("code label {} denotes instruction {} but maps to {} ({:?})", name, idx, l.map, l.get_type()), c, src)),
            None => return Some(fail("c11|code-label-missing", format!("code label {} is not in the label map", name), c, src)),
        }
    }
    for (name, off) in &flat.data_labels {
        match asm.ictx.label_map.get(name) {
            Some(l) if matches!(l.get_type(), LabelType::DATA) && l.map == *off as usize => {}
            _ => return Some(fail("c11|data-label", format!("data label {} does not map to offset {}", name, off), c, src)),
        }
    }
    for (name, idx) in &flat.procs {
        if asm.ictx.fn_map.get(name) != Some(idx) {
            return Some(fail("c11|procedure-entry", format!("procedure {} begins at instruction {} but maps to {:?}", name, idx, asm.ictx.fn_map.get(name)), c, src));
        }
    }
    if asm.ictx.label_map.len() != flat.labels.len() + flat.data_labels.len() || asm.ictx.fn_map.len() != flat.procs.len() {
        return Some(fail("c11|extra-names", format!("label map has {} entries for {} labels, procedure map {} for {}", asm.ictx.label_map.len(), flat.labels.len() + flat.data_labels.len(), asm.ictx.fn_map.len(), flat.procs.len()), c, src));
    }
    None
}

fn maps_of(a: &Assembled) -> (Vec<(String, bool, usize)>, Vec<(String, usize)>) {
    let mut l: Vec<(String, bool, usize)> = a.ictx.label_map.iter().map(|(k, v)| (k.clone(), matches!(v.get_type(), LabelType::DATA), v.map)).collect();
    l.sort();
    let mut f: Vec<(String, usize)> = a.ictx.fn_map.iter().map(|(k, v)| (k.clone(), *v)).collect();
    f.sort();
    (l, f)
}

pub fn eval(c: &Case11) -> CaseOutcome {
    let mut macro_classes: Vec<String> = Vec::new();
    let id = |s: &str| s.to_string();
    let prog = build(c, &id);
    let lay1 = crate::progs::Layout { choices: c.ch1.clone(), comments: false, trailing_newline: true, pack_lines: c.pack };
    let lay2 = crate::progs::Layout { choices: c.ch2.clone(), comments: false, trailing_newline: c.ch2[0] & 1 == 0, pack_lines: !c.pack };
    let r1 = render_program(&prog, &lay1);
    let r2 = render_program(&prog, &lay2);
    let a1 = match assemble(&r1.text) {
        Ok(a) => a,
        Err(e) => return fail("c11|valid-program-rejected", format!("generated program rejected: {}", e.chars().take(200).collect::<String>()), c, &r1.text),
    };
    if let Some(f) = check_against_ast(&prog, &r1.text, &a1, c) {
        return f;
    }
    // second spelling of the same tree
    let a2 = match assemble(&r2.text) {
        Ok(a) => a,
        Err(e) => {
            return CaseOutcome::Fail {
                key: "c11|spelling|rejected".into(),
                what: format!("one spelling of a program is accepted, another is rejected: {}", e.chars().take(200).collect::<String>()),
                replay: json!({"kind":"c11","source":r2.text,"other_spelling":r1.text}),
            }
        }
    };
    if a1.code != a2.code || a1.data != a2.data || maps_of(&a1) != maps_of(&a2) {
        let k = (0..a1.code.len().max(a2.code.len())).find(|k| a1.code.get(*k) != a2.code.get(*k));
        let what = match k {
            Some(k) => format!("two spellings of the same program emit different instruction {}: {:?} vs {:?}", k, a1.code.get(k), a2.code.get(k)),
            None => "two spellings of the same program emit different data lines or label/procedure maps".to_string(),
        };
        return CaseOutcome::Fail { key: "c11|spelling|different-output".into(), what, replay: json!({"kind":"c11","source":r2.text,"other_spelling":r1.text}) };
    }
    // third form: immediate constants reach their instruction as the argument of a macro (spelled in any radix); the
    // instruction list is the one of the macro-free program
    {
        let mut ch = Choices::new(c.ch2.iter().rev().cloned().collect());
        let mut defs: Vec<Item> = Vec::new();
        let mut code_m: Vec<Item> = Vec::new();
        let mut wrapped = 0usize;
        for it in &prog.code {
            match it {
                Item::Ins(i) if i.mn != "int" && i.prefix.is_none() && ch.next() % 3 != 0 => {
                    if let Some(k) = i.ops.iter().position(|o| matches!(o, Opd::Imm(..))) {
                        if let Opd::Imm(v, kind) = &i.ops[k] {
                            let v = match kind {
                                ImmKind::UB | ImmKind::SB => *v & 0xFF,
                                _ => *v,
                            };
                            let mut body = i.clone();
                            body.ops[k] = Opd::Name("q".into());
                            let name = format!("k_{}", defs.len());
                            let mut fixed = Choices::fixed();
                            let body_text = render_insn(&body, &mut fixed, &[]);
                            // the text of a macro body ends at the first '<-' and cannot hold a '-' (negative displacement)
                            if body_text.contains('-') || body_text.contains('<') {
                                code_m.push(it.clone());
                                continue;
                            }
                            let arg = render_unsigned(v as u32, &mut ch, &[]);
                            let (params, args): (Vec<String>, Vec<String>) = match ch.next() % 4 {
                                // twelve parameters, the constant in a two-digit position
                                1 => {
                                    let at = 10 + (ch.next() as usize & 1);
                                    let params: Vec<String> = (0..12).map(|k| if k == at { "q".to_string() } else { format!("p{}", k) }).collect();
                                    let args: Vec<String> = (0..12).map(|k| if k == at { arg.clone() } else { format!("{}", 20 + k) }).collect();
                                    (params, args)
                                }
                                // a second, unused parameter that differs from the mnemonic only in case (names are case sensitive)
                                2 => {
                                    let mut cap = i.mn.to_string();
                                    cap[..1].make_ascii_uppercase();
                                    (vec![cap, "q".to_string()], vec!["7".to_string(), arg.clone()])
                                }
                                _ => (vec!["q".to_string()], vec![arg.clone()]),
                            };
                            defs.push(Item::MacroDef { name: name.clone(), params, body_src: format!(" {} ", body_text) });
                            code_m.push(Item::MacroUse { name, args, expands_to: vec![i.clone()] });
                            wrapped += 1;
                            continue;
                        }
                    }
                    code_m.push(it.clone());
                }
                _ => code_m.push(it.clone()),
            }
        }
        if wrapped > 0 {
            let mut code = defs;
            code.extend(code_m);
            let prog_m = Program { data: prog.data.clone(), code };
            let rm = render_program(&prog_m, &lay1);
            match assemble(&rm.text) {
                Err(e) => {
                    return CaseOutcome::Fail {
                        key: "c11|constant-as-macro-argument|rejected".into(),
                        what: format!("a program is accepted with its constants written in place and rejected when the same constants are macro arguments: {}", e.chars().take(200).collect::<String>()),
                        replay: json!({"kind":"c11","source":rm.text,"other_spelling":r1.text}),
                    }
                }
                Ok(am) => {
                    if am.code != a1.code || am.data != a1.data {
                        let k = (0..a1.code.len().max(am.code.len())).find(|k| a1.code.get(*k) != am.code.get(*k));
                        return CaseOutcome::Fail {
                            key: "c11|constant-as-macro-argument|different-output".into(),
                            what: format!("constants passed as macro arguments change instruction {:?}: {:?} vs {:?} written in place", k, k.and_then(|k| am.code.get(k)), k.and_then(|k| a1.code.get(k))),
                            replay: json!({"kind":"c11","source":rm.text,"other_spelling":r1.text}),
                        };
                    }
                }
            }
        }
        if wrapped > 0 {
            macro_classes.push("c11/constants-as-macro-arguments".to_string());
        }
    }
    // renaming: every code label gets a different name; nothing but the names may change
    let ren = |s: &str| if s == "start" { s.to_string() } else { format!("{}_R9", s) };
    let prog3 = build(c, &ren);
    let r3 = render_program(&prog3, &lay1);
    match assemble(&r3.text) {
        Err(e) => return fail("c11|rename|rejected", format!("program rejected after renaming its labels: {}", e.chars().take(200).collect::<String>()), c, &r3.text),
        Ok(a3) => {
            if let Some(f) = check_against_ast(&prog3, &r3.text, &a3, c) {
                return f;
            }
            if a3.data != a1.data || a3.code.len() != a1.code.len() {
                return fail("c11|rename|changed-output", "renaming labels changed the data lines or the number of instructions".into(), c, &r3.text);
            }
        }
    }
    let has_mem = r1.text.contains('[');
    let has_imm = prog.code.iter().any(|it| matches!(it, Item::Ins(i) if i.ops.iter().any(|o| matches!(o, Opd::Imm(..)))));
    let (u1, x1, s1) = r1.spelling;
    let (u2, x2, s2) = r2.spelling;
    let nt = r1.text != r2.text && u1 + u2 >= 1 && x1 + x2 >= 1 && s1 + s2 >= 1 && has_mem && has_imm;
    let mut classes = macro_classes;
    if used_case_variants(&prog) {
        classes.push("c11/labels-differing-only-in-case".to_string());
    }
    if x1 + x2 > 0 {
        classes.push("c11/non-decimal-constants".into());
    }
    if r1.text.contains("offset") || r1.text.contains("OFFSET") || r2.text.contains("offset") || r2.text.contains("OFFSET") {
        classes.push("c11/offset-spelling".into());
    }
    if r1.text.contains("-") {
        classes.push("c11/negative-decimal".into());
    }
    if !r2.text.ends_with('\n') {
        classes.push("c11/no-trailing-newline".into());
    }
    CaseOutcome::Pass { nontrivial: nt, classes, digest: fnv_str(&r1.text) ^ fnv_str(&r2.text).rotate_left(17) }
}

fn used_case_variants(p: &Program) -> bool {
    let mut names: Vec<String> = Vec::new();
    for it in &p.code {
        if let Item::Label(n) = it {
            names.push(n.to_lowercase());
        }
    }
    let n = names.len();
    names.sort();
    names.dedup();
    names.len() < n
}

// ------------------------------------------------------------------ comments (L3)

#[derive(Clone, Debug)]
pub struct CommentCase {
    pub g: crate::gen::GenCfg,
    pub choices: Vec<u8>,
    pub marks: Vec<u8>,
    pub own_lines: bool,
}

const COMMENT_TEXTS: [&str; 14] = ["; plain comment", ";mov ax, 5", ";;; jmp nowhere ; nested", ";", "; \"quoted\" text", "; start: hlt", ";print reg", "; def p { }",
    // unbalanced quotes and brackets, macro arrows, a string with a semicolon: a comment runs to the end of its line whatever it contains
    "; 5\" floppy", "; say \"hi", ";\"", "; it's ( [ {", "; db \"a;b\" ; \"c", "; -> <- macro x(a) ->"];

/// insert ';' comments before line ends (and, optionally, as lines of their own)
pub fn add_comments(text: &str, marks: &[u8], own_lines: bool) -> String {
    let mut out = String::new();
    let mut k = 0usize;
    if own_lines && marks.first().map(|m| m % 2 == 0).unwrap_or(false) {
        out.push_str("; leading comment line\n");
    }
    for ch in text.chars() {
        if ch == '\n' {
            let m = marks[k % marks.len()];
            k += 1;
            if m % 3 == 0 {
                out.push(' ');
                out.push_str(COMMENT_TEXTS[(m / 3) as usize % COMMENT_TEXTS.len()]);
            } else if m % 3 == 1 && m % 5 == 0 {
                out.push_str(COMMENT_TEXTS[(m / 5) as usize % COMMENT_TEXTS.len()]);
            }
            out.push('\n');
            if own_lines && m % 7 == 0 {
                out.push_str(COMMENT_TEXTS[(m / 7) as usize % COMMENT_TEXTS.len()]);
                out.push('\n');
            }
        } else {
            out.push(ch);
        }
    }
    if marks.last().map(|m| m % 2 == 0).unwrap_or(false) {
        // a comment after the last line, without a newline of its own
        out.push_str("; trailing comment without newline");
    }
    out
}

fn eval_comments(c: &CommentCase) -> CaseOutcome {
    let prog = crate::gen::build_program(&c.g);
    let r = render_program(&prog, &crate::progs::Layout { choices: c.choices.clone(), comments: false, trailing_newline: true, pack_lines: false });
    let plain = r.text.clone();
    let commented = add_comments(&plain, &c.marks, c.own_lines);
    let a = run_cli(plain.as_bytes(), Stdin::Closed, false, 4 << 20, 20_000);
    let b = run_cli(commented.as_bytes(), Stdin::Closed, false, 4 << 20, 20_000);
    if matches!(a.status, Status::Timeout | Status::SpawnError(_)) || matches!(b.status, Status::Timeout | Status::SpawnError(_)) {
        return CaseOutcome::Inconclusive("watchdog".into());
    }
    let replay = json!({"kind":"c11-comments","source":commented,"plain":plain,"own_lines":c.own_lines});
    let (ta, tb) = match (tokenize(&a.stdout), tokenize(&b.stdout)) {
        (Ok(x), Ok(y)) => (x, y),
        (Ok(_), Err(e)) => return CaseOutcome::Fail { key: "c11|comments|output".into(), what: format!("with comments the output is not that of the program: {}", e), replay },
        (Err(e), _) => return CaseOutcome::Fail { key: "c11|comments|parent".into(), what: format!("generated program without comments produced unexpected output: {}", e), replay },
    };
    if ta.iter().any(|e| matches!(e, Ev::InternalError)) {
        // ret without call programs (known finding of C10) are not the subject here
        return CaseOutcome::Pass { nontrivial: false, classes: vec!["c11/comments-skipped-internal-error".into()], digest: 0 };
    }
    let (xa, xb) = if c.own_lines { (crate::c17::blank_lines(&ta), crate::c17::blank_lines(&tb)) } else { (ta.clone(), tb.clone()) };
    if xa != xb || a.status != b.status {
        return CaseOutcome::Fail { key: "c11|comments|different-behaviour".into(), what: format!("adding ';' comments changed the run: {} (status {:?} vs {:?})", crate::c17::first_diff(&xa, &xb), a.status, b.status), replay };
    }
    let n_comments = commented.matches(';').count();
    CaseOutcome::Pass { nontrivial: n_comments >= 2 && ta.len() >= 2, classes: vec![if c.own_lines { "c11/comments-own-lines".to_string() } else { "c11/comments-line-ends".to_string() }], digest: fnv_str(&commented) }
}

pub fn run(ctx: &Ctx) {
    ctx.set_rule("proptest-generated programs over all instruction classes of syntax.md (binary/unary arithmetic and logic, shifts, MOV/XCHG/PUSH/POP/LEA forms, string instructions with prefixes, flag control, singletons, INT, every jump/loop spelling to labels defined before or after, CALL, procedures, prints, data definitions), each rendered under two independent spellings (case per token, decimal / 0x / 0X / 0b / 0B / leading zeros / negative decimal / OFFSET label per constant, blanks, tabs, CR, LF between tokens, statements packed on one line, with and without trailing newline). Oracle: (1) every emitted data and code line is read by an independent reader and compared structurally with the AST item it came from (one instruction per source instruction in order, same operation up to Intel synonyms, same operands in the same roles, same width keyword, constants equal modulo operand width), label/procedure maps point at the right instruction; (2) both spellings emit identical lists and maps; (3) renaming every label changes only names; labels differing only in case stay distinct; (4) through the CLI, adding ';' comments (at line ends, on their own lines, after the last line, containing keywords and quotes) does not change the run. Non-trivial = the two spellings differ and between them use an upper-case token, a non-decimal constant and a non-trivial separator, over a program with a memory operand and an immediate.");
    ctx.assume("mixed-case keywords (Mov) are names in this grammar and are not generated; a ';' inside a string literal is not generated (syntax.md does not define comments)");
    ctx.assume("synonymous mnemonics (JZ/JE, SHL/SAL, REPE/REPZ ...) may be emitted under either spelling; XCHG operands may be emitted in either order");
    ctx.set_exhaustive(false);
    let n = ctx.tier.pick(24_000u32, 800_000u32);
    run_inproc(ctx, "c11", n, case_s, eval, |c| {
        let id = |s: &str| s.to_string();
        let p = build(c, &id);
        json!({"spelling_1": render_program(&p, &crate::progs::Layout { choices: c.ch1.clone(), comments: false, trailing_newline: true, pack_lines: c.pack }).text,
               "spelling_2": render_program(&p, &crate::progs::Layout { choices: c.ch2.clone(), comments: false, trailing_newline: true, pack_lines: !c.pack }).text})
    });
    ctx.require_class("c11/labels-differing-only-in-case", 50);
    ctx.require_class("c11/offset-spelling", 50);
    ctx.require_class("c11/negative-decimal", 200);
    ctx.require_class("c11/no-trailing-newline", 200);
    ctx.require_class("c11/constants-as-macro-arguments", 500);
    if !cli_available() {
        ctx.harness_error("CLI binary not built");
        return;
    }
    let mk = || {
        (crate::gen::gencfg_s(20, 3), proptest::collection::vec(any::<u8>(), 24), proptest::collection::vec(any::<u8>(), 16), any::<bool>()).prop_map(|(mut g, choices, marks, own_lines)| {
            g.with_prints = true;
            g.with_data = true;
            CommentCase { g, choices, marks, own_lines }
        })
    };
    let ncli = ctx.tier.pick(300usize, 4_000usize);
    run_cases(ctx, "c11-comments", ncli, mk, eval_comments, |c| {
        let r = render_program(&crate::gen::build_program(&c.g), &crate::progs::Layout { choices: c.choices.clone(), comments: false, trailing_newline: true, pack_lines: false });
        json!({"commented_source": add_comments(&r.text, &c.marks, c.own_lines)})
    });
    ctx.require_class("c11/comments-own-lines", 40);
    ctx.require_class("c11/comments-line-ends", 40);
    offset_family(ctx);
}

/// "OFFSET of a label with that offset" through the real driver: a label that follows data whose source text holds
/// runs of blanks, quotes and backslashes (inside string literals such characters are data, not separators); the
/// program that writes `offset val` and the one that writes the number must print the same registers and memory, and
/// both must print what the reference machine computes
fn offset_family(ctx: &Ctx) {
    use crate::asm::*;
    use crate::progs::*;
    let strings = ["a  b", "  x", "x  ", "a   b    c", " ", "    ", "say \"hi\"  now", "C:\\dir  \\n", "tab? no: two  blanks , comma", "0x10  0b1  -1"];
    let jobs: Vec<(usize, bool, bool)> = (0..strings.len()).flat_map(|i| [(i, false, false), (i, true, false), (i, false, true), (i, true, true)]).collect();
    use rayon::prelude::*;
    let outs: Vec<(usize, bool, bool, Result<Vec<Ev>, String>, Vec<Ev>, String)> = jobs
        .par_iter()
        .map(|(i, word, numeric)| {
            let st = strings[*i];
            let data = vec![
                DataDecl::Item { label: Some("s_1".into()), word: *word, kind: DataKind::Str(st.to_string()) },
                DataDecl::Item { label: Some("val".into()), word: false, kind: DataKind::Val(7) },
            ];
            let off = (st.len() * if *word { 2 } else { 1 }) as u16;
            let mut code: Vec<Item> = vec![Item::Label("start".into())];
            code.push(Item::Ins(Insn::new("mov", vec![Opd::R16(R16::AX), Opd::Imm(off, ImmKind::SW)])));
            code.push(Item::Ins(Insn::new("mov", vec![Opd::R8(R8::BL), Opd::Lab(W::B, "val".into())])));
            code.push(Item::Print(PrintStmt::Reg));
            code.push(Item::Print(PrintStmt::MemRange(0, off as u32 + 2)));
            let prog = Program { data, code };
            // spelling: choices byte 6 of render_unsigned's cases selects `offset label`; the numeric program uses plain decimal
            let mut text = render_program(&prog, &Layout::plain()).text;
            if !*numeric {
                text = text.replacen(&format!("mov ax,{}", off), "mov ax, offset val", 1).replacen(&format!("mov ax, {}", off), "mov ax, offset val", 1);
            }
            let flat = flatten(&prog);
            let image = data_image(&prog.data);
            let lines: Vec<usize> = vec![0; flat.ops.len()];
            let cfg = RunCfg { interpreted: false, script: &[], lines: &lines, max_steps: 100, input_lines: None, buf_fill: None };
            let rr = ref_run(&flat, &image, &cfg, &crate::refmodel::Quirks::none());
            let exp = crate::c17::blank_lines(&normalise(&rr.events));
            let out = run_cli(text.as_bytes(), Stdin::Closed, false, 1 << 20, 20_000);
            let obs = if !out.clean() { Err(format!("status {:?} {}", out.status, out.err_str().lines().next().unwrap_or(""))) } else { tokenize(&out.stdout).map(|t| crate::c17::blank_lines(&t)) };
            (*i, *word, *numeric, obs, exp, text)
        })
        .collect();
    for (i, word, numeric, obs, exp, text) in outs {
        ctx.add_evals(1);
        if !numeric && !text.contains("offset val") {
            ctx.harness_error("offset family: the OFFSET spelling was not rendered");
        }
        let replay = json!({"kind":"cli","source":text,"stdin":"","interpreted":false,"blank_line_numbers":true,"expected_events": exp.iter().map(|e| format!("{:?}", e)).collect::<Vec<_>>()});
        match obs {
            Ok(o) if o == exp => {
                ctx.add_nontrivial(1);
                ctx.class("c11/offset-vs-number-through-the-cli", 1);
            }
            Ok(o) => ctx.fail(Failure {
                key: format!("c11|cli|offset-family|{}", if numeric { "number" } else { "offset" }),
                what: format!("label behind the {} string {:?}, constant written as {}: {}", if word { "DW" } else { "DB" }, strings[i], if numeric { "a number" } else { "OFFSET val" }, crate::c17::first_diff(&exp, &o)),
                replay,
            }),
            Err(e) => ctx.fail(Failure { key: "c11|cli|offset-family|abnormal".into(), what: format!("string {:?}: {}", strings[i], e.chars().take(200).collect::<String>()), replay }),
        }
    }
}

pub fn replay(v: &Value) -> Result<String, String> {
    let src = v["source"].as_str().ok_or("no source")?;
    if v["kind"] == "c11-comments" {
        let plain = v["plain"].as_str().unwrap_or("");
        let a = run_cli(plain.as_bytes(), Stdin::Closed, false, 4 << 20, 20_000);
        let b = run_cli(src.as_bytes(), Stdin::Closed, false, 4 << 20, 20_000);
        let rep = format!("--- plain source:\n{}\n--- stdout:\n{}\n--- commented source:\n{}\n--- stdout:\n{}\n", plain, a.out_str(), src, b.out_str());
        let own = v["own_lines"].as_bool().unwrap_or(true);
        return match (tokenize(&a.stdout), tokenize(&b.stdout)) {
            (Ok(x), Ok(y)) => {
                let (x, y) = if own { (crate::c17::blank_lines(&x), crate::c17::blank_lines(&y)) } else { (x, y) };
                if x == y && a.status == b.status {
                    Ok(rep)
                } else {
                    Err(format!("{}{}", rep, crate::c17::first_diff(&x, &y)))
                }
            }
            _ => Err(rep),
        };
    }
    let mut rep = format!("source:\n{}\n", src);
    let a = assemble(src).map_err(|e| format!("{}rejected: {}", rep, e))?;
    let mut bad = false;
    let exp = &v["expected"];
    let edata: Vec<DataDecl> = exp["data"].as_array().map(|x| x.iter().map(crate::c12::decl_from_json).collect()).unwrap_or_default();
    for (k, l) in a.data.iter().enumerate() {
        let r = read_data(l);
        let verdict = match (&r, edata.get(k)) {
            (Ok(n), Some(d)) => data_matches(d, n).err().unwrap_or_else(|| "ok".into()),
            (Err(e), _) => e.clone(),
            (_, None) => if exp.is_null() { "ok".into() } else { "no such definition in the source".into() },
        };
        bad |= verdict != "ok";
        rep.push_str(&format!("data  {:<40} {}\n", l, verdict));
    }
    let ecode = exp["code"].as_array().cloned().unwrap_or_default();
    if !exp.is_null() && (ecode.len() != a.code.len() || edata.len() != a.data.len()) {
        bad = true;
        rep.push_str(&format!("{} code / {} data lines emitted, the source has {} / {}\n", a.code.len(), a.data.len(), ecode.len(), edata.len()));
    }
    for (k, l) in a.code.iter().enumerate() {
        let r = read_code(l);
        let verdict = match (&r, ecode.get(k)) {
            (Err(e), _) => e.clone(),
            (Ok(n), Some(e)) => {
                if e.get("ins").is_some() {
                    insn_matches(&insn_from_json(&e["ins"]), n).err().unwrap_or_else(|| "ok".into())
                } else if e.get("print").is_some() {
                    print_matches(&print_from_json(&e["print"]), n).err().unwrap_or_else(|| "ok".into())
                } else if matches!(n, NLine::Ins { mn, ops, .. } if mn == "ret" && ops.is_empty()) {
                    "ok".into()
                } else {
                    "ret expected".into()
                }
            }
            (Ok(_), None) => if exp.is_null() { "ok".into() } else { "no such instruction in the source".into() },
        };
        bad |= verdict != "ok";
        rep.push_str(&format!("code  {:<40} {}\n", l, verdict));
    }
    if let Some(o) = v["other_spelling"].as_str() {
        let b = assemble(o).map_err(|e| format!("{}other spelling rejected: {}", rep, e))?;
        if a.code != b.code || a.data != b.data || maps_of(&a) != maps_of(&b) {
            return Err(format!("{}other spelling:\n{}\nemits different output: {:?}", rep, o, b.code));
        }
    }
    if bad {
        Err(rep)
    } else {
        Ok(rep)
    }
}
