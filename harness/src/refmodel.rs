//! Independent reference model of the 8086 subset, written from the Intel 8086 Family
//! User's Manual instruction descriptions.  Value level (ALU, shifts, multiply/divide,
//! adjusts).  The machine-level model (operands, effective addresses, stack, strings,
//! jumps) lives in machine.rs and uses these functions.
#![allow(dead_code)]

pub const CF: u16 = 1 << 0;
pub const PF: u16 = 1 << 2;
pub const AF: u16 = 1 << 4;
pub const ZF: u16 = 1 << 6;
pub const SF: u16 = 1 << 7;
pub const TF: u16 = 1 << 8;
pub const IF: u16 = 1 << 9;
pub const DF: u16 = 1 << 10;
pub const OF: u16 = 1 << 11;
pub const STATUS: u16 = CF | PF | AF | ZF | SF | OF;

/// Known-defect models ("quirks"): each reproduces one *listed* known finding exactly, so a
/// mismatch against the reference can be attributed to that finding only when the
/// implementation's complete output equals the quirk model's output.
#[derive(Clone, Copy, Default, Debug, PartialEq, Eq)]
pub struct Quirks {
    /// INC/DEC set CF as ADD/SUB 1 would (manual: CF untouched)
    pub incdec_cf: bool,
    /// NEG of 0 leaves SF as it was (manual: SF from result => 0)
    pub neg0_sf: bool,
    /// byte IMUL: CF=OF=(old AH != FFh) (manual: upper half significant)
    pub bimul_flags: bool,
    /// JLE/JNG taken iff ZF=1 and SF!=OF (manual: ZF=1 or SF!=OF)
    pub jle_and: bool,
    /// LEA reg, memory yields (physical address - DS*16) mod 2^16 (manual: the 16-bit offset)
    pub lea_phys: bool,
}

pub const QUIRK_KEYS: [&str; 5] = [
    "quirk:incdec-cf",
    "quirk:neg0-sf",
    "quirk:byte-imul-flags",
    "quirk:jle-and",
    "quirk:lea-phys-minus-ds",
];

impl Quirks {
    pub fn none() -> Quirks {
        Quirks::default()
    }
    pub fn any(&self) -> bool {
        self.incdec_cf || self.neg0_sf || self.bimul_flags || self.jle_and || self.lea_phys
    }
    pub fn from_keys<F: Fn(&str) -> bool>(open: F) -> Quirks {
        Quirks {
            incdec_cf: open(QUIRK_KEYS[0]),
            neg0_sf: open(QUIRK_KEYS[1]),
            bimul_flags: open(QUIRK_KEYS[2]),
            jle_and: open(QUIRK_KEYS[3]),
            lea_phys: open(QUIRK_KEYS[4]),
        }
    }
    pub fn keys(&self) -> Vec<&'static str> {
        let mut v = Vec::new();
        if self.incdec_cf {
            v.push(QUIRK_KEYS[0]);
        }
        if self.neg0_sf {
            v.push(QUIRK_KEYS[1]);
        }
        if self.bimul_flags {
            v.push(QUIRK_KEYS[2]);
        }
        if self.jle_and {
            v.push(QUIRK_KEYS[3]);
        }
        if self.lea_phys {
            v.push(QUIRK_KEYS[4]);
        }
        v
    }
}

#[inline]
pub fn parity_even(b: u8) -> bool {
    // count bits the slow obvious way
    let mut n = 0;
    for i in 0..8 {
        if (b >> i) & 1 == 1 {
            n += 1;
        }
    }
    n % 2 == 0
}

#[inline]
pub fn mask_w(w: u32) -> u32 {
    if w == 8 {
        0xFF
    } else {
        0xFFFF
    }
}
#[inline]
pub fn msb_w(w: u32) -> u32 {
    1 << (w - 1)
}

/// SF ZF PF of a result
#[inline]
pub fn szp(res: u32, w: u32) -> u16 {
    let mut f = 0;
    if res & msb_w(w) != 0 {
        f |= SF;
    }
    if res & mask_w(w) == 0 {
        f |= ZF;
    }
    if parity_even(res as u8) {
        f |= PF;
    }
    f
}

/// Result of an ALU operation: value, the status flags it defines, and which status bits
/// are defined (the others are "undefined" in the manual and are not compared).
#[derive(Clone, Copy, Debug, PartialEq, Eq)]
pub struct Alu {
    pub res: u32,
    pub flags: u16,
    pub defined: u16,
}

/// bit-serial ripple adder: a + b + cin over w bits
/// returns (sum, carry out of bit 3, carry into msb, carry out of msb)
fn ripple_add(a: u32, b: u32, cin: bool, w: u32) -> (u32, bool, bool, bool) {
    let mut c = cin;
    let mut sum = 0u32;
    let mut c3 = false;
    let mut c_into_msb = false;
    for i in 0..w {
        if i == w - 1 {
            c_into_msb = c;
        }
        let x = (a >> i) & 1 == 1;
        let y = (b >> i) & 1 == 1;
        let s = x ^ y ^ c;
        c = (x & y) | (x & c) | (y & c);
        if s {
            sum |= 1 << i;
        }
        if i == 3 {
            c3 = c;
        }
    }
    (sum, c3, c_into_msb, c)
}

/// bit-serial ripple subtractor: a - b - bin over w bits
/// returns (difference, borrow out of bit 3, borrow into msb, borrow out of msb)
fn ripple_sub(a: u32, b: u32, bin: bool, w: u32) -> (u32, bool, bool, bool) {
    let mut br = bin;
    let mut d = 0u32;
    let mut b3 = false;
    let mut b_into_msb = false;
    for i in 0..w {
        if i == w - 1 {
            b_into_msb = br;
        }
        let x = (a >> i) & 1 == 1;
        let y = (b >> i) & 1 == 1;
        let s = x ^ y ^ br;
        br = (!x & y) | (!x & br) | (y & br);
        if s {
            d |= 1 << i;
        }
        if i == 3 {
            b3 = br;
        }
    }
    (d, b3, b_into_msb, br)
}

pub fn add(a: u32, b: u32, cin: bool, w: u32) -> Alu {
    let (res, c3, cm, co) = ripple_add(a, b, cin, w);
    let mut f = szp(res, w);
    if c3 {
        f |= AF;
    }
    if co {
        f |= CF;
    }
    if cm ^ co {
        f |= OF;
    }
    Alu {
        res,
        flags: f,
        defined: STATUS,
    }
}

pub fn sub(a: u32, b: u32, bin: bool, w: u32) -> Alu {
    let (res, b3, bm, bo) = ripple_sub(a, b, bin, w);
    let mut f = szp(res, w);
    if b3 {
        f |= AF;
    }
    if bo {
        f |= CF;
    }
    if bm ^ bo {
        f |= OF;
    }
    Alu {
        res,
        flags: f,
        defined: STATUS,
    }
}

/// Second, independent formulation used only for the start-up self-check of the model.
pub fn add_alt(a: u32, b: u32, cin: bool, w: u32) -> Alu {
    let m = mask_w(w) as u64;
    let wide = (a as u64 & m) + (b as u64 & m) + cin as u64;
    let res = (wide & m) as u32;
    let mut f = szp(res, w);
    if wide > m {
        f |= CF;
    }
    if ((a & 0xF) + (b & 0xF) + cin as u32) > 0xF {
        f |= AF;
    }
    if (a ^ res) & (b ^ res) & msb_w(w) != 0 {
        f |= OF;
    }
    Alu {
        res,
        flags: f,
        defined: STATUS,
    }
}

pub fn sub_alt(a: u32, b: u32, bin: bool, w: u32) -> Alu {
    let m = mask_w(w) as i64;
    let wide = (a as i64 & m) - (b as i64 & m) - bin as i64;
    let res = (wide & m) as u32;
    let mut f = szp(res, w);
    if wide < 0 {
        f |= CF;
    }
    if ((a & 0xF) as i32 - (b & 0xF) as i32 - bin as i32) < 0 {
        f |= AF;
    }
    if (a ^ b) & (a ^ res) & msb_w(w) != 0 {
        f |= OF;
    }
    Alu {
        res,
        flags: f,
        defined: STATUS,
    }
}

#[derive(Clone, Copy, Debug, PartialEq, Eq, Hash, PartialOrd, Ord)]
pub enum Bin {
    Add,
    Adc,
    Sub,
    Sbb,
    Cmp,
}
pub const BINS: [Bin; 5] = [Bin::Add, Bin::Adc, Bin::Sub, Bin::Sbb, Bin::Cmp];
impl Bin {
    pub fn name(self) -> &'static str {
        match self {
            Bin::Add => "add",
            Bin::Adc => "adc",
            Bin::Sub => "sub",
            Bin::Sbb => "sbb",
            Bin::Cmp => "cmp",
        }
    }
    pub fn from_name(s: &str) -> Option<Bin> {
        BINS.iter().copied().find(|b| b.name() == s)
    }
}

/// two-operand arithmetic: returns the ALU result (for CMP `res` is still the difference;
/// the caller does not write it back)
pub fn bin(op: Bin, a: u32, b: u32, cf_in: bool, w: u32) -> Alu {
    match op {
        Bin::Add => add(a, b, false, w),
        Bin::Adc => add(a, b, cf_in, w),
        Bin::Sub | Bin::Cmp => sub(a, b, false, w),
        Bin::Sbb => sub(a, b, cf_in, w),
    }
}

#[derive(Clone, Copy, Debug, PartialEq, Eq, Hash, PartialOrd, Ord)]
pub enum Un {
    Inc,
    Dec,
    Neg,
}
pub const UNS: [Un; 3] = [Un::Inc, Un::Dec, Un::Neg];
impl Un {
    pub fn name(self) -> &'static str {
        match self {
            Un::Inc => "inc",
            Un::Dec => "dec",
            Un::Neg => "neg",
        }
    }
}

/// INC/DEC/NEG.  `defined` excludes CF for INC/DEC (must stay untouched).
pub fn un(op: Un, a: u32, old_flags: u16, w: u32, q: &Quirks) -> Alu {
    match op {
        Un::Inc => {
            let mut r = add(a, 1, false, w);
            if q.incdec_cf {
                return r;
            }
            r.flags &= !CF;
            r.defined &= !CF;
            r
        }
        Un::Dec => {
            let mut r = sub(a, 1, false, w);
            if q.incdec_cf {
                return r;
            }
            r.flags &= !CF;
            r.defined &= !CF;
            r
        }
        Un::Neg => {
            let mut r = sub(0, a, false, w);
            if q.neg0_sf && (a & mask_w(w)) == 0 {
                r.flags = (r.flags & !SF) | (old_flags & SF);
            }
            r
        }
    }
}

#[derive(Clone, Copy, Debug, PartialEq, Eq, Hash, PartialOrd, Ord)]
pub enum Logic {
    And,
    Or,
    Xor,
    Test,
}
pub const LOGICS: [Logic; 4] = [Logic::And, Logic::Or, Logic::Xor, Logic::Test];
impl Logic {
    pub fn name(self) -> &'static str {
        match self {
            Logic::And => "and",
            Logic::Or => "or",
            Logic::Xor => "xor",
            Logic::Test => "test",
        }
    }
}

/// AND/OR/XOR/TEST: CF=OF=0, SF/ZF/PF from result, AF undefined
pub fn logic(op: Logic, a: u32, b: u32, w: u32) -> Alu {
    let m = mask_w(w);
    let res = match op {
        Logic::And | Logic::Test => a & b,
        Logic::Or => a | b,
        Logic::Xor => a ^ b,
    } & m;
    Alu {
        res,
        flags: szp(res, w),
        defined: STATUS & !AF,
    }
}

#[derive(Clone, Copy, Debug, PartialEq, Eq, Hash, PartialOrd, Ord)]
pub enum Sh {
    Shl,
    Shr,
    Sar,
    Rol,
    Ror,
    Rcl,
    Rcr,
}
pub const SHS: [Sh; 7] = [Sh::Shl, Sh::Shr, Sh::Sar, Sh::Rol, Sh::Ror, Sh::Rcl, Sh::Rcr];
impl Sh {
    /// canonical (emitted) mnemonic
    pub fn name(self) -> &'static str {
        match self {
            Sh::Shl => "sal",
            Sh::Shr => "shr",
            Sh::Sar => "sar",
            Sh::Rol => "rol",
            Sh::Ror => "ror",
            Sh::Rcl => "rcl",
            Sh::Rcr => "rcr",
        }
    }
    pub fn is_shift(self) -> bool {
        matches!(self, Sh::Shl | Sh::Shr | Sh::Sar)
    }
}

/// one single-bit step; returns (new value, new CF)
fn sh_step(op: Sh, v: u32, cf: bool, w: u32) -> (u32, bool) {
    let m = mask_w(w);
    let msb = msb_w(w);
    let top = v & msb != 0;
    let low = v & 1 != 0;
    match op {
        Sh::Shl => ((v << 1) & m, top),
        Sh::Shr => ((v & m) >> 1, low),
        Sh::Sar => ((((v & m) >> 1) | if top { msb } else { 0 }), low),
        Sh::Rol => ((((v << 1) & m) | top as u32), top),
        Sh::Ror => ((((v & m) >> 1) | if low { msb } else { 0 }), low),
        Sh::Rcl => ((((v << 1) & m) | cf as u32), top),
        Sh::Rcr => ((((v & m) >> 1) | if cf { msb } else { 0 }), low),
    }
}

/// shift/rotate by `count` single-bit steps (no count masking on the 8086).
/// Returns value, flags (full new status bits) and the mask of bits that are defined.
/// Bits outside `defined` that the manual calls *unchanged* are handled by the caller:
/// defined bits are written, "undefined" bits (listed in `undef`) are not compared, all
/// other bits must keep their old value.
pub struct ShOut {
    pub res: u32,
    pub flags: u16,
    /// bits written by the instruction with a defined value
    pub defined: u16,
    /// bits whose value after the instruction is undefined
    pub undef: u16,
}

pub fn shift(op: Sh, v: u32, count: u32, cf_in: bool, w: u32) -> ShOut {
    let m = mask_w(w);
    let v = v & m;
    if count == 0 {
        return ShOut {
            res: v,
            flags: 0,
            defined: 0,
            undef: 0,
        };
    }
    let mut cur = v;
    let mut cf = cf_in;
    for _ in 0..count {
        let (n, c) = sh_step(op, cur, cf, w);
        cur = n;
        cf = c;
    }
    let mut flags = 0u16;
    if cf {
        flags |= CF;
    }
    let msb = msb_w(w);
    let mut defined = CF;
    let mut undef = 0;
    if op.is_shift() {
        flags |= szp(cur, w);
        defined |= SF | ZF | PF;
        undef |= AF;
    }
    if count == 1 {
        let of = match op {
            Sh::Shl | Sh::Rol | Sh::Rcl => (cur & msb != 0) ^ cf,
            Sh::Shr => v & msb != 0,
            Sh::Sar => false,
            Sh::Ror | Sh::Rcr => (cur & msb != 0) ^ (cur & (msb >> 1) != 0),
        };
        if of {
            flags |= OF;
        }
        defined |= OF;
    } else {
        undef |= OF;
    }
    ShOut {
        res: cur,
        flags,
        defined,
        undef,
    }
}

/// closed-form second formulation of shifts/rotates for the model self-check
pub fn shift_alt(op: Sh, v: u32, count: u32, cf_in: bool, w: u32) -> (u32, bool) {
    let m = mask_w(w) as u64;
    let v64 = v as u64 & m;
    if count == 0 {
        return (v & m as u32, cf_in);
    }
    match op {
        Sh::Shl => {
            if count > w {
                (0, false)
            } else {
                let t = v64 << count;
                ((t & m) as u32, (t >> w) & 1 == 1)
            }
        }
        Sh::Shr => {
            if count > w {
                (0, false)
            } else {
                (((v64 >> count) & m) as u32, (v64 >> (count - 1)) & 1 == 1)
            }
        }
        Sh::Sar => {
            let sv: i64 = if w == 8 {
                v as u8 as i8 as i64
            } else {
                v as u16 as i16 as i64
            };
            let c = count.min(40);
            (((sv >> c) as u64 & m) as u32, (sv >> (c - 1)) & 1 == 1)
        }
        Sh::Rol => {
            let c = count % w;
            let r = ((v64 << c) | (v64 >> ((w - c) % w))) & m;
            let r = if c == 0 { v64 } else { r };
            (r as u32, r & 1 == 1)
        }
        Sh::Ror => {
            let c = count % w;
            let r = if c == 0 {
                v64
            } else {
                ((v64 >> c) | (v64 << (w - c))) & m
            };
            (r as u32, (r >> (w - 1)) & 1 == 1)
        }
        Sh::Rcl => {
            let ww = w + 1;
            let c = count % ww;
            let x = v64 | ((cf_in as u64) << w);
            let mm = (1u64 << ww) - 1;
            let r = if c == 0 {
                x
            } else {
                ((x << c) | (x >> (ww - c))) & mm
            };
            ((r & m) as u32, (r >> w) & 1 == 1)
        }
        Sh::Rcr => {
            let ww = w + 1;
            let c = count % ww;
            let x = v64 | ((cf_in as u64) << w);
            let mm = (1u64 << ww) - 1;
            let r = if c == 0 {
                x
            } else {
                ((x >> c) | (x << (ww - c))) & mm
            };
            ((r & m) as u32, (r >> w) & 1 == 1)
        }
    }
}

#[derive(Clone, Copy, Debug, PartialEq, Eq, Hash, PartialOrd, Ord)]
pub enum MulDiv {
    Mul,
    Imul,
    Div,
    Idiv,
}
pub const MULDIVS: [MulDiv; 4] = [MulDiv::Mul, MulDiv::Imul, MulDiv::Div, MulDiv::Idiv];
impl MulDiv {
    pub fn name(self) -> &'static str {
        match self {
            MulDiv::Mul => "mul",
            MulDiv::Imul => "imul",
            MulDiv::Div => "div",
            MulDiv::Idiv => "idiv",
        }
    }
}

/// outcome of MUL/IMUL/DIV/IDIV on the accumulator pair
#[derive(Clone, Debug, PartialEq, Eq)]
pub enum MdOut {
    /// new (ax, dx) ; flags written ; defined mask
    Ok {
        ax: u16,
        dx: u16,
        flags: u16,
        defined: u16,
    },
    /// divide error: INT 0
    DivideError,
    /// either of the two is acceptable (IDIV quotient exactly MIN: error on the 8086,
    /// legal on later processors)
    Either { ax: u16, dx: u16 },
}

pub fn muldiv(op: MulDiv, w: u32, ax: u16, dx: u16, operand: u32, q: &Quirks) -> MdOut {
    let operand = operand & mask_w(w);
    match (op, w) {
        (MulDiv::Mul, 8) => {
            let p = (ax as u64 & 0xFF) * operand as u64;
            let hi = (p >> 8) & 0xFF != 0;
            MdOut::Ok {
                ax: p as u16,
                dx,
                flags: if hi { CF | OF } else { 0 },
                defined: CF | OF,
            }
        }
        (MulDiv::Mul, _) => {
            let p = ax as u64 * operand as u64;
            let hi = (p >> 16) & 0xFFFF != 0;
            MdOut::Ok {
                ax: p as u16,
                dx: (p >> 16) as u16,
                flags: if hi { CF | OF } else { 0 },
                defined: CF | OF,
            }
        }
        (MulDiv::Imul, 8) => {
            let p = (ax as u8 as i8 as i64) * (operand as u8 as i8 as i64);
            let lo = p as i8 as i64;
            let mut sig = lo != p;
            if q.bimul_flags {
                sig = (ax >> 8) as u8 != 0xFF;
            }
            MdOut::Ok {
                ax: p as i16 as u16,
                dx,
                flags: if sig { CF | OF } else { 0 },
                defined: CF | OF,
            }
        }
        (MulDiv::Imul, _) => {
            let p = (ax as i16 as i64) * (operand as u16 as i16 as i64);
            let lo = p as i16 as i64;
            let sig = lo != p;
            MdOut::Ok {
                ax: p as u16,
                dx: ((p >> 16) & 0xFFFF) as u16,
                flags: if sig { CF | OF } else { 0 },
                defined: CF | OF,
            }
        }
        (MulDiv::Div, 8) => {
            if operand == 0 {
                return MdOut::DivideError;
            }
            let n = ax as u64;
            let qv = n / operand as u64;
            let r = n % operand as u64;
            if qv > 0xFF {
                return MdOut::DivideError;
            }
            MdOut::Ok {
                ax: ((r as u16) << 8) | qv as u16,
                dx,
                flags: 0,
                defined: 0,
            }
        }
        (MulDiv::Div, _) => {
            if operand == 0 {
                return MdOut::DivideError;
            }
            let n = ((dx as u64) << 16) | ax as u64;
            let qv = n / operand as u64;
            let r = n % operand as u64;
            if qv > 0xFFFF {
                return MdOut::DivideError;
            }
            MdOut::Ok {
                ax: qv as u16,
                dx: r as u16,
                flags: 0,
                defined: 0,
            }
        }
        (MulDiv::Idiv, 8) => {
            let d = operand as u8 as i8 as i64;
            if d == 0 {
                return MdOut::DivideError;
            }
            let n = ax as i16 as i64;
            let qv = n / d; // Rust: truncates toward zero
            let r = n % d; // sign of the dividend
            if qv > 127 || qv < -128 {
                return MdOut::DivideError;
            }
            let nax = (((r as u8) as u16) << 8) | (qv as u8) as u16;
            if qv == -128 {
                return MdOut::Either { ax: nax, dx };
            }
            MdOut::Ok {
                ax: nax,
                dx,
                flags: 0,
                defined: 0,
            }
        }
        (MulDiv::Idiv, _) => {
            let d = operand as u16 as i16 as i64;
            if d == 0 {
                return MdOut::DivideError;
            }
            let n = (((dx as u32) << 16) | ax as u32) as i32 as i64;
            let qv = n / d;
            let r = n % d;
            if qv > 32767 || qv < -32768 {
                return MdOut::DivideError;
            }
            if qv == -32768 {
                return MdOut::Either {
                    ax: qv as u16,
                    dx: r as u16,
                };
            }
            MdOut::Ok {
                ax: qv as u16,
                dx: r as u16,
                flags: 0,
                defined: 0,
            }
        }
    }
}

#[derive(Clone, Copy, Debug, PartialEq, Eq, Hash, PartialOrd, Ord)]
pub enum Adj {
    Aaa,
    Aas,
    Daa,
    Das,
    Aam,
    Aad,
    Cbw,
    Cwd,
}
pub const ADJS: [Adj; 8] = [
    Adj::Aaa,
    Adj::Aas,
    Adj::Daa,
    Adj::Das,
    Adj::Aam,
    Adj::Aad,
    Adj::Cbw,
    Adj::Cwd,
];
impl Adj {
    pub fn name(self) -> &'static str {
        match self {
            Adj::Aaa => "aaa",
            Adj::Aas => "aas",
            Adj::Daa => "daa",
            Adj::Das => "das",
            Adj::Aam => "aam",
            Adj::Aad => "aad",
            Adj::Cbw => "cbw",
            Adj::Cwd => "cwd",
        }
    }
}

/// One acceptable outcome of an adjust instruction
#[derive(Clone, Copy, Debug, PartialEq, Eq)]
pub struct AdjOut {
    pub ax: u16,
    pub dx: u16,
    pub flags: u16,
    pub defined: u16,
}

/// The accept set of an adjust instruction (one element where the documentation has one
/// reading, two where the Family manual's pseudo-code and the later formulation differ).
pub fn adjust(op: Adj, ax: u16, dx: u16, flags_in: u16) -> Vec<AdjOut> {
    let al = ax as u8;
    let ah = (ax >> 8) as u8;
    let af = flags_in & AF != 0;
    let cf = flags_in & CF != 0;
    let mk = |al: u8, ah: u8| ((ah as u16) << 8) | al as u16;
    match op {
        Adj::Aaa => {
            if (al & 0x0F) > 9 || af {
                // Family manual: AL<-AL+6; AH<-AH+1; AF<-1; CF<-1; AL<-AL&0F
                let a = AdjOut {
                    ax: mk(al.wrapping_add(6) & 0x0F, ah.wrapping_add(1)),
                    dx,
                    flags: AF | CF,
                    defined: AF | CF,
                };
                // (the 80286 and later add 106h to AX as one 16-bit quantity, letting the carry out of AL reach AH;
                // the property names the 8086 manual, so only its formulation is accepted)
                vec![a]
            } else {
                vec![AdjOut {
                    ax: mk(al & 0x0F, ah),
                    dx,
                    flags: 0,
                    defined: AF | CF,
                }]
            }
        }
        Adj::Aas => {
            if (al & 0x0F) > 9 || af {
                let a = AdjOut {
                    ax: mk(al.wrapping_sub(6) & 0x0F, ah.wrapping_sub(1)),
                    dx,
                    flags: AF | CF,
                    defined: AF | CF,
                };
                vec![a]
            } else {
                vec![AdjOut {
                    ax: mk(al & 0x0F, ah),
                    dx,
                    flags: 0,
                    defined: AF | CF,
                }]
            }
        }
        Adj::Daa => {
            let def = STATUS & !OF;
            // (a) Family manual: second test on the *updated* AL
            let mut a_al = al;
            let mut a_f = 0u16;
            if (a_al & 0x0F) > 9 || af {
                a_al = a_al.wrapping_add(6);
                a_f |= AF;
            }
            if a_al > 0x9F || cf {
                a_al = a_al.wrapping_add(0x60);
                a_f |= CF;
            }
            a_f |= szp(a_al as u32, 8);
            let a = AdjOut {
                ax: mk(a_al, ah),
                dx,
                flags: a_f,
                defined: def,
            };
            // (b) later formulation: second test on old AL > 99h or CF; CF also from the +6 carry
            let mut b_al = al;
            let mut b_f = 0u16;
            let mut b_cf = false;
            if (al & 0x0F) > 9 || af {
                let (n, carry) = b_al.overflowing_add(6);
                b_al = n;
                b_cf = cf || carry;
                b_f |= AF;
            }
            if al > 0x99 || cf {
                b_al = b_al.wrapping_add(0x60);
                b_cf = true;
            }
            if b_cf {
                b_f |= CF;
            }
            b_f |= szp(b_al as u32, 8);
            let b = AdjOut {
                ax: mk(b_al, ah),
                dx,
                flags: b_f,
                defined: def,
            };
            // (c) later formulation without the carry-from-+6 clause
            let mut c_al = al;
            let mut c_f = 0u16;
            if (al & 0x0F) > 9 || af {
                c_al = c_al.wrapping_add(6);
                c_f |= AF;
            }
            if al > 0x99 || cf {
                c_al = c_al.wrapping_add(0x60);
                c_f |= CF;
            }
            c_f |= szp(c_al as u32, 8);
            let c = AdjOut {
                ax: mk(c_al, ah),
                dx,
                flags: c_f,
                defined: def,
            };
            dedup(vec![a, b, c])
        }
        Adj::Das => {
            let def = STATUS & !OF;
            let mut a_al = al;
            let mut a_f = 0u16;
            if (a_al & 0x0F) > 9 || af {
                a_al = a_al.wrapping_sub(6);
                a_f |= AF;
            }
            if a_al > 0x9F || cf {
                a_al = a_al.wrapping_sub(0x60);
                a_f |= CF;
            }
            a_f |= szp(a_al as u32, 8);
            let a = AdjOut {
                ax: mk(a_al, ah),
                dx,
                flags: a_f,
                defined: def,
            };
            let mut b_al = al;
            let mut b_f = 0u16;
            let mut b_cf = false;
            if (al & 0x0F) > 9 || af {
                let (n, borrow) = b_al.overflowing_sub(6);
                b_al = n;
                b_cf = cf || borrow;
                b_f |= AF;
            }
            if al > 0x99 || cf {
                b_al = b_al.wrapping_sub(0x60);
                b_cf = true;
            }
            if b_cf {
                b_f |= CF;
            }
            b_f |= szp(b_al as u32, 8);
            let b = AdjOut {
                ax: mk(b_al, ah),
                dx,
                flags: b_f,
                defined: def,
            };
            let mut c_al = al;
            let mut c_f = 0u16;
            if (al & 0x0F) > 9 || af {
                c_al = c_al.wrapping_sub(6);
                c_f |= AF;
            }
            if al > 0x99 || cf {
                c_al = c_al.wrapping_sub(0x60);
                c_f |= CF;
            }
            c_f |= szp(c_al as u32, 8);
            let c = AdjOut {
                ax: mk(c_al, ah),
                dx,
                flags: c_f,
                defined: def,
            };
            dedup(vec![a, b, c])
        }
        Adj::Aam => {
            let nah = al / 10;
            let nal = al % 10;
            let nax = mk(nal, nah);
            let a = AdjOut {
                ax: nax,
                dx,
                flags: szp(nal as u32, 8),
                defined: SF | ZF | PF,
            };
            // reading "from AX": SF/ZF of the word, PF of the low byte
            let mut fb = 0;
            if nax & 0x8000 != 0 {
                fb |= SF;
            }
            if nax == 0 {
                fb |= ZF;
            }
            if parity_even(nal) {
                fb |= PF;
            }
            let b = AdjOut {
                ax: nax,
                dx,
                flags: fb,
                defined: SF | ZF | PF,
            };
            dedup(vec![a, b])
        }
        Adj::Aad => {
            let nal = (ah as u32 * 10 + al as u32) as u8;
            vec![AdjOut {
                ax: nal as u16,
                dx,
                flags: szp(nal as u32, 8),
                defined: SF | ZF | PF,
            }]
        }
        Adj::Cbw => vec![AdjOut {
            ax: al as i8 as i16 as u16,
            dx,
            flags: 0,
            defined: 0,
        }],
        Adj::Cwd => vec![AdjOut {
            ax,
            dx: if ax & 0x8000 != 0 { 0xFFFF } else { 0 },
            flags: 0,
            defined: 0,
        }],
    }
}

fn dedup(v: Vec<AdjOut>) -> Vec<AdjOut> {
    let mut out: Vec<AdjOut> = Vec::new();
    for x in v {
        if !out.contains(&x) {
            out.push(x);
        }
    }
    out
}

/// the 16 condition predicates + jcxz/loop family, keyed by the canonical lower-case
/// Intel mnemonic (all synonyms listed separately)
pub fn jcc_predicate(mn: &str, flags: u16, q: &Quirks) -> Option<bool> {
    let cf = flags & CF != 0;
    let zf = flags & ZF != 0;
    let sf = flags & SF != 0;
    let of = flags & OF != 0;
    let pf = flags & PF != 0;
    Some(match mn {
        "jmp" => true,
        "ja" | "jnbe" => !cf && !zf,
        "jae" | "jnb" | "jnc" => !cf,
        "jb" | "jnae" | "jc" => cf,
        "jbe" | "jna" => cf || zf,
        "je" | "jz" => zf,
        "jne" | "jnz" => !zf,
        "jg" | "jnle" => !zf && sf == of,
        "jge" | "jnl" => sf == of,
        "jl" | "jnge" => sf != of,
        "jle" | "jng" => {
            if q.jle_and {
                zf && sf != of
            } else {
                zf || sf != of
            }
        }
        "jo" => of,
        "jno" => !of,
        "jp" | "jpe" => pf,
        "jnp" | "jpo" => !pf,
        "js" => sf,
        "jns" => !sf,
        _ => return None,
    })
}

pub const JCC_SPELLINGS: [&str; 31] = [
    "jmp", "ja", "jnbe", "jae", "jnb", "jb", "jnae", "jbe", "jna", "jc", "je", "jz", "jg", "jnle",
    "jge", "jnl", "jl", "jnge", "jle", "jng", "jnc", "jne", "jnz", "jno", "jnp", "jpo", "jns", "jo",
    "jp", "jpe", "js",
];
pub const LOOP_SPELLINGS: [&str; 6] = ["jcxz", "loop", "loope", "loopz", "loopne", "loopnz"];

/// Start-up self check of the model: ripple formulation against the wide-integer
/// formulation over all byte cases and a word lattice; step-wise shifts against closed
/// forms.  Returns an error string on disagreement (harness error, never a violation).
pub fn self_check() -> Result<(), String> {
    for a in 0..256u32 {
        for b in 0..256u32 {
            for c in [false, true] {
                if add(a, b, c, 8) != add_alt(a, b, c, 8) {
                    return Err(format!("add8 {} {} {}", a, b, c));
                }
                if sub(a, b, c, 8) != sub_alt(a, b, c, 8) {
                    return Err(format!("sub8 {} {} {}", a, b, c));
                }
            }
        }
    }
    let lat = lattice16();
    for &a in &lat {
        for &b in &lat {
            for c in [false, true] {
                if add(a as u32, b as u32, c, 16) != add_alt(a as u32, b as u32, c, 16) {
                    return Err(format!("add16 {} {} {}", a, b, c));
                }
                if sub(a as u32, b as u32, c, 16) != sub_alt(a as u32, b as u32, c, 16) {
                    return Err(format!("sub16 {} {} {}", a, b, c));
                }
            }
        }
    }
    for op in SHS {
        for v in 0..256u32 {
            for n in 0..256u32 {
                for c in [false, true] {
                    let s = shift(op, v, n, c, 8);
                    let (r, cf) = shift_alt(op, v, n, c, 8);
                    let scf = if n == 0 { c } else { s.flags & CF != 0 };
                    if s.res != r || scf != cf {
                        return Err(format!("shift8 {:?} v={} n={} c={}", op, v, n, c));
                    }
                }
            }
        }
        for &v in &lat {
            for n in 0..64u32 {
                for c in [false, true] {
                    let s = shift(op, v as u32, n, c, 16);
                    let (r, cf) = shift_alt(op, v as u32, n, c, 16);
                    let scf = if n == 0 { c } else { s.flags & CF != 0 };
                    if s.res != r || scf != cf {
                        return Err(format!("shift16 {:?} v={} n={} c={}", op, v, n, c));
                    }
                }
            }
        }
    }
    // spot values straight from the manual's examples / well known facts
    let r = add(0x7F, 1, false, 8);
    if r.res != 0x80 || r.flags & OF == 0 || r.flags & CF != 0 || r.flags & AF == 0 {
        return Err("add 7F+1".into());
    }
    let r = sub(0, 1, false, 8);
    if r.res != 0xFF || r.flags & CF == 0 || r.flags & OF != 0 || r.flags & AF == 0 {
        return Err("sub 0-1".into());
    }
    let r = sub(0x80, 1, false, 8);
    if r.res != 0x7F || r.flags & OF == 0 {
        return Err("sub 80-1".into());
    }
    Ok(())
}

/// The fixed, seed-independent 16-bit boundary lattice L16 of the design
pub fn lattice16() -> Vec<u16> {
    let mut v: Vec<u16> = vec![
        0, 1, 2, 7, 8, 0xF, 0x10, 0x7F, 0x80, 0xFF, 0x100, 0x7FFF, 0x8000, 0xFFFE, 0xFFFF,
    ];
    for k in 0..16 {
        let p = 1u16 << k;
        v.push(p);
        v.push(p.wrapping_sub(1));
        v.push(p.wrapping_add(1));
        v.push(!p);
    }
    for b in [0x7Fu16, 0x80, 0xFF, 0x100, 0x7FFF, 0x8000, 0xF, 0x10, 0xFF0, 0xFFF, 0x1000, 0xF000, 0x0FFF, 0x9999, 0x5555, 0xAAAA] {
        v.push(b);
        v.push(b.wrapping_sub(1));
        v.push(b.wrapping_add(1));
    }
    v.sort();
    v.dedup();
    v
}
