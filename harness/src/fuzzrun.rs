//! libFuzzer campaigns (thorough tier only): targets in /verif/fuzz are built with cargo-fuzz and run
//! with a fixed number of runs from a freshly seeded corpus; crash artifacts are re-executed through
//! the plain in-process path (no allow-list) before anything is reported.
use crate::common::*;
use proptest::strategy::Strategy;
use serde_json::json;
use std::process::{Command, Stdio};

const FUZZ_DIR: &str = "/verif/fuzz";
const RUN_ROOT: &str = "/verif/.build/fuzz-run";

fn seeds_for(ctx: &Ctx, target: &str) -> Vec<Vec<u8>> {
    let mut v: Vec<Vec<u8>> = Vec::new();
    let texts: Vec<String> = {
        let mut t: Vec<String> = Vec::new();
        if let Ok(rd) = std::fs::read_dir("/repo/examples") {
            let mut paths: Vec<_> = rd.filter_map(|e| e.ok()).map(|e| e.path()).collect();
            paths.sort();
            for p in paths {
                if let Ok(s) = std::fs::read_to_string(&p) {
                    t.push(s);
                }
            }
        }
        let gen = crate::pt::generate(ctx.sub_seed("fuzz-seeds", 0), 120, &crate::c15::base_s().prop_map(|(s, _)| s));
        t.extend(gen);
        t
    };
    match target {
        "pre" | "compose" => {
            // only a few seeds with macro uses (each use costs a parser construction per execution)
            let mut with_macros = 0;
            for t in texts {
                if t.len() <= 3000 {
                    if t.contains("macro") || t.contains("MACRO") {
                        with_macros += 1;
                        if with_macros > 8 {
                            continue;
                        }
                    }
                    v.push(t.into_bytes());
                }
            }
        }
        _ => {
            // line oriented targets: the lines the assembler emits for the sample programs
            let mut lines: Vec<String> = Vec::new();
            for t in &texts {
                if let Ok(a) = crate::pipeline::assemble(&crate::pipeline::strip_comments(t)) {
                    match target {
                        "data" => lines.extend(a.data),
                        "print" => lines.extend(a.code.into_iter().filter(|l| l.starts_with("print"))),
                        _ => lines.extend(a.code),
                    }
                }
            }
            lines.sort();
            lines.dedup();
            lines.truncate(400);
            for l in lines {
                if target == "interp" {
                    let mut b = vec![0u8; 28];
                    for k in 0..28 {
                        b[k] = (splitmix(fnv_str(&l) ^ k as u64) & 0xFF) as u8;
                    }
                    b.extend_from_slice(l.as_bytes());
                    v.push(b);
                } else {
                    v.push(l.into_bytes());
                }
            }
            if target == "print" {
                for l in ["print reg", "print flags", "print mem 0 -> 15", "print mem 1048575:0", "print mem :16", "PRINT MEM 0x10 -> 0x1f"] {
                    v.push(l.as_bytes().to_vec());
                }
            }
        }
    }
    v
}

fn write_dict(path: &str) {
    let mut s = String::new();
    for t in crate::grammar::all_terminals() {
        if t.chars().all(|c| c.is_ascii_graphic()) && !t.contains('"') && !t.contains('\\') {
            s.push_str(&format!("\"{}\"\n", t));
        }
    }
    for t in ["0x", "0b", "65535", "65536", "-1", "1048575", "1048576", "offset ", "start:", "<-", "->", "\\x22"] {
        s.push_str(&format!("\"{}\"\n", t));
    }
    let _ = std::fs::write(path, s);
}

pub fn campaigns(ctx: &Ctx, targets: &[&str]) {
    let nightly_ok = Command::new("cargo").args(["+nightly", "fuzz", "--version"]).stdout(Stdio::null()).stderr(Stdio::null()).status().map(|s| s.success()).unwrap_or(false);
    if !nightly_ok {
        ctx.note("libFuzzer campaigns skipped: cargo +nightly fuzz is not available");
        ctx.extra("fuzz", json!({"skipped": "cargo-fuzz unavailable"}));
        return;
    }
    // build (serialised with the other builds: lalrpop regenerates the parsers inside /repo/src)
    let build = Command::new("bash")
        .arg("-c")
        .arg(format!("flock /verif/.build/lock cargo +nightly fuzz build --fuzz-dir {} >/verif/.build/fuzz-build.log 2>&1", FUZZ_DIR))
        .env("CARGO_NET_OFFLINE", "true")
        .status();
    if !build.map(|s| s.success()).unwrap_or(false) {
        ctx.note("libFuzzer campaigns skipped: fuzz build failed (see /verif/.build/fuzz-build.log)");
        ctx.extra("fuzz", json!({"skipped": "build failed"}));
        return;
    }
    let jobs = (16 / targets.len().max(1)).max(1);
    // runs per job: a macro use inside an input builds a parser inside the code under test (7 ms), so the two
    // whole-program targets run at 50-2000 exec/s and get fewer runs than the line-oriented ones (10^4 exec/s)
    let runs_env: Option<u64> = std::env::var("VERIF_FUZZ_RUNS").ok().and_then(|s| s.parse().ok());
    let runs_for = |t: &str| -> u64 { runs_env.unwrap_or(if t == "pre" { 120_000 } else if t == "compose" { 60_000 } else { 1_000_000 }) };
    let allow: Vec<String> = ctx.open_keys().iter().filter_map(|k| k.split("|panic|").nth(1).map(|s| s.replace('#', ""))).collect();
    let mut children = Vec::new();
    for t in targets {
        let run_dir = format!("{}/{}", RUN_ROOT, t);
        let _ = std::fs::remove_dir_all(&run_dir);
        let corpus = format!("{}/corpus", run_dir);
        let _ = std::fs::create_dir_all(&corpus);
        for (k, s) in seeds_for(ctx, t).iter().enumerate() {
            let _ = std::fs::write(format!("{}/seed-{:04}", corpus, k), s);
        }
        let dict = format!("{}/dict.txt", run_dir);
        write_dict(&dict);
        let mut cmd = Command::new("cargo");
        cmd.args(["+nightly", "fuzz", "run", "--fuzz-dir", FUZZ_DIR, t, &corpus, "--"])
            .arg(format!("-runs={}", runs_for(t)))
            .arg(format!("-seed={}", (ctx.seed % 0x7FFF_FFFF).max(1)))
            .args(["-len_control=0", "-max_len=3000", "-timeout=25", "-rss_limit_mb=3000", "-print_final_stats=1"])
            .arg(format!("-dict={}", dict))
            .arg(format!("-artifact_prefix={}/", run_dir))
            .arg(format!("-jobs={}", jobs))
            .arg(format!("-workers={}", jobs))
            .current_dir(&run_dir)
            .env("CARGO_NET_OFFLINE", "true")
            .env("VFUZZ_ALLOW", allow.join("|"))
            .stdout(Stdio::null())
            .stderr(Stdio::null());
        match cmd.spawn() {
            Ok(c) => children.push((t.to_string(), run_dir, c)),
            Err(e) => ctx.note(&format!("fuzz target {}: cannot start: {}", t, e)),
        }
    }
    let mut stats = serde_json::Map::new();
    for (t, run_dir, mut c) in children {
        let _ = c.wait();
        // per-job logs fuzz-<n>.log
        let mut execs = 0u64;
        let mut cov = 0u64;
        let mut corp = 0u64;
        let mut artifacts: Vec<String> = Vec::new();
        if let Ok(rd) = std::fs::read_dir(&run_dir) {
            for e in rd.filter_map(|e| e.ok()) {
                let name = e.file_name().to_string_lossy().to_string();
                if name.starts_with("fuzz-") && name.ends_with(".log") {
                    if let Ok(txt) = std::fs::read_to_string(e.path()) {
                        for l in txt.lines() {
                            if let Some(n) = l.strip_prefix("stat::number_of_executed_units:") {
                                execs += n.trim().parse::<u64>().unwrap_or(0);
                            }
                            if l.starts_with('#') && l.contains(" cov: ") {
                                let f = |key: &str| l.split(key).nth(1).and_then(|x| x.trim().split(|c: char| !c.is_ascii_digit()).next().map(|s| s.to_string())).and_then(|x| x.parse::<u64>().ok()).unwrap_or(0);
                                cov = cov.max(f(" cov: "));
                                corp = corp.max(f(" corp: "));
                            }
                        }
                    }
                } else if name.starts_with("crash-") || name.starts_with("timeout-") || name.starts_with("oom-") || name.starts_with("leak-") {
                    artifacts.push(name);
                }
            }
        }
        artifacts.sort();
        ctx.add_evals(execs);
        ctx.class(&format!("fuzz/{}/runs", t), execs);
        stats.insert(t.clone(), json!({"executed_units": execs, "coverage_edges": cov, "corpus": corp, "artifacts": artifacts.len(), "jobs": jobs}));
        if execs == 0 {
            ctx.note(&format!("fuzz target {}: no executions recorded (see {}/fuzz-*.log)", t, run_dir));
        }
        for a in artifacts.iter().take(20) {
            let path = format!("{}/{}", run_dir, a);
            let bytes = std::fs::read(&path).unwrap_or_default();
            let text_bytes: &[u8] = if t == "interp" && bytes.len() >= 28 { &bytes[28..] } else { &bytes };
            let text = String::from_utf8_lossy(text_bytes).to_string();
            if a.starts_with("crash-") {
                let q = crate::emu::QuietStdout::new();
                let ps = crate::c15::probe_all(&text, true);
                drop(q);
                if let Some((parser, msg)) = ps.first() {
                    ctx.fail(Failure {
                        key: format!("c15|{}|panic|{}", parser, crate::emu::panic_class(msg).chars().take(70).collect::<String>()),
                        what: format!("[libFuzzer {}] {} aborted (panic) on a {}-byte input: {}", t, parser, text.len(), msg.chars().take(200).collect::<String>()),
                        replay: json!({"kind":"c15","text":text,"parser":parser}),
                    });
                } else {
                    // keep the artifact where it survives the next campaign
                    let keep = format!("{}/replays/{}/fuzz-{}-{}", VERIF_DIR, ctx.prop, t, a);
                    let _ = std::fs::create_dir_all(format!("{}/replays/{}", VERIF_DIR, ctx.prop));
                    let _ = std::fs::copy(&path, &keep);
                    ctx.fail(Failure {
                        key: format!("{}|fuzz|{}|target-only-crash", ctx.prop.to_lowercase(), t),
                        what: format!("[libFuzzer {}] the fuzz target aborted on an input that the plain path handles (state-dependent or target-specific oracle, e.g. compose: emitted line refused downstream); artifact kept at {}", t, keep),
                        replay: json!({"kind":"c15","text":text,"parser":t,"artifact":keep}),
                    });
                }
            } else {
                ctx.inconclusive(&format!("libFuzzer {} produced {} (slow input or memory limit): {}", t, a, path));
            }
        }
    }
    ctx.extra("fuzz", serde_json::Value::Object(stats));
}

/// The `exec` target (thorough tier of C01-C05, C07, C09): coverage-guided differential execution of single
/// instructions.  `mns` restricts the campaign to the property's mnemonics (empty = every shape), `aspects`
/// to the failure aspects the property owns (empty = all).  Seeds: one input per shape of the property.
pub fn exec_campaign(ctx: &Ctx, mns: &[&str], aspects: &[&str]) {
    use crate::l1::{run_case, Verdict, Worker};
    let nightly_ok = Command::new("cargo").args(["+nightly", "fuzz", "--version"]).stdout(Stdio::null()).stderr(Stdio::null()).status().map(|s| s.success()).unwrap_or(false);
    if !nightly_ok {
        ctx.note("libFuzzer campaign skipped: cargo +nightly fuzz is not available");
        ctx.extra("fuzz", json!({"skipped": "cargo-fuzz unavailable"}));
        return;
    }
    let build = Command::new("bash")
        .arg("-c")
        .arg(format!("flock /verif/.build/lock cargo +nightly fuzz build --fuzz-dir {} exec >/verif/.build/fuzz-build.log 2>&1", FUZZ_DIR))
        .env("CARGO_NET_OFFLINE", "true")
        .status();
    if !build.map(|s| s.success()).unwrap_or(false) {
        ctx.note("libFuzzer campaign skipped: fuzz build failed (see /verif/.build/fuzz-build.log)");
        ctx.extra("fuzz", json!({"skipped": "build failed"}));
        return;
    }
    let shapes = crate::asm::enumerate_shapes();
    let run_dir = format!("{}/exec-{}", RUN_ROOT, ctx.prop);
    let _ = std::fs::remove_dir_all(&run_dir);
    let corpus = format!("{}/corpus", run_dir);
    let _ = std::fs::create_dir_all(&corpus);
    let mut nseeds = 0usize;
    let sel_total = shapes.iter().filter(|x| mns.is_empty() || mns.contains(&x.mn)).count();
    let step = (sel_total / 2000).max(1);
    for (i, s) in shapes.iter().enumerate() {
        if !mns.is_empty() && !mns.contains(&s.mn) {
            continue;
        }
        let mut b = vec![(i & 0xFF) as u8, (i >> 8) as u8];
        let mut x = splitmix(ctx.seed ^ (i as u64) << 20 ^ fnv_str(ctx.prop));
        while b.len() < 88 {
            x = splitmix(x);
            b.extend_from_slice(&x.to_le_bytes());
        }
        b.truncate(88);
        // at most ~2000 seed inputs: every step-th shape of the selection
        if nseeds % step == 0 {
            let _ = std::fs::write(format!("{}/seed-{:05}", corpus, i), &b);
        }
        nseeds += 1;
    }
    let jobs = 14usize;
    let runs: u64 = std::env::var("VERIF_FUZZ_RUNS").ok().and_then(|s| s.parse().ok()).unwrap_or(250_000);
    let mut cmd = Command::new("cargo");
    cmd.args(["+nightly", "fuzz", "run", "--fuzz-dir", FUZZ_DIR, "exec", &corpus, "--"])
        .arg(format!("-runs={}", runs))
        .arg(format!("-seed={}", (ctx.seed % 0x7FFF_FFFF).max(1)))
        .args(["-len_control=0", "-max_len=96", "-timeout=25", "-rss_limit_mb=3000", "-print_final_stats=1", "-use_value_profile=1"])
        .arg(format!("-artifact_prefix={}/", run_dir))
        .arg(format!("-jobs={}", jobs))
        .arg(format!("-workers={}", jobs))
        .current_dir(&run_dir)
        .env("CARGO_NET_OFFLINE", "true")
        .env("VFUZZ_MNS", mns.join(","))
        .env("VFUZZ_ASPECTS", aspects.join(","))
        .stdout(Stdio::null())
        .stderr(Stdio::null());
    match cmd.status() {
        Ok(_) => {}
        Err(e) => {
            ctx.note(&format!("fuzz target exec: cannot start: {}", e));
            return;
        }
    }
    let mut execs = 0u64;
    let mut cov = 0u64;
    let mut corp = 0u64;
    let mut artifacts: Vec<String> = Vec::new();
    if let Ok(rd) = std::fs::read_dir(&run_dir) {
        for e in rd.filter_map(|e| e.ok()) {
            let name = e.file_name().to_string_lossy().to_string();
            if name.starts_with("fuzz-") && name.ends_with(".log") {
                if let Ok(txt) = std::fs::read_to_string(e.path()) {
                    for l in txt.lines() {
                        if let Some(n) = l.strip_prefix("stat::number_of_executed_units:") {
                            execs += n.trim().parse::<u64>().unwrap_or(0);
                        }
                        if l.starts_with('#') && l.contains(" cov: ") {
                            let f = |key: &str| l.split(key).nth(1).and_then(|x| x.trim().split(|c: char| !c.is_ascii_digit()).next().map(|s| s.to_string())).and_then(|x| x.parse::<u64>().ok()).unwrap_or(0);
                            cov = cov.max(f(" cov: "));
                            corp = corp.max(f(" corp: "));
                        }
                    }
                }
            } else if name.starts_with("crash-") || name.starts_with("timeout-") || name.starts_with("oom-") {
                artifacts.push(name);
            }
        }
    }
    artifacts.sort();
    ctx.add_evals(execs);
    ctx.class("fuzz/exec/runs", execs);
    ctx.class("fuzz/exec/seeds", nseeds as u64);
    ctx.extra("fuzz", json!({"exec": {"executed_units": execs, "coverage_edges": cov, "corpus": corp, "artifacts": artifacts.len(), "jobs": jobs, "seed_inputs": nseeds, "mnemonics": mns, "aspects": aspects}}));
    if execs == 0 {
        ctx.note(&format!("fuzz target exec: no executions recorded (see {}/fuzz-*.log)", run_dir));
    }
    let openq = crate::refmodel::Quirks::from_keys(|k| ctx.quirk_open(k));
    let mut wk = Worker::new();
    for a in artifacts.iter().take(20) {
        let path = format!("{}/{}", run_dir, a);
        let bytes = std::fs::read(&path).unwrap_or_default();
        if !a.starts_with("crash-") {
            ctx.inconclusive(&format!("libFuzzer exec produced {} (slow input or memory limit): {}", a, path));
            continue;
        }
        let (case, stack) = crate::fuzzdec::decode_case(&bytes, &shapes);
        match run_case(&mut wk, &case, &openq, &stack) {
            Verdict::Fail { aspect, detail, replay } => {
                if !aspects.is_empty() && !aspects.contains(&aspect.as_str()) {
                    continue;
                }
                ctx.fail(Failure {
                    key: format!("l1|{}|{}|{}", case.insn.mn, case.insn.form(), aspect),
                    what: format!("[libFuzzer exec] {} {}: {}", crate::asm::canonical(&case.insn), aspect, detail),
                    replay,
                });
            }
            _ => {
                let keep = format!("{}/replays/{}/fuzz-exec-{}", VERIF_DIR, ctx.prop, a);
                let _ = std::fs::create_dir_all(format!("{}/replays/{}", VERIF_DIR, ctx.prop));
                let _ = std::fs::copy(&path, &keep);
                ctx.inconclusive(&format!("libFuzzer exec aborted on an input that the plain path handles (not reproducible in-process); artifact kept at {}", keep));
            }
        }
    }
}
