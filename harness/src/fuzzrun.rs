//! libFuzzer campaigns (thorough tier only): built and run through cargo-fuzz from /verif/fuzz;
//! crash artifacts are re-executed through the plain in-process path before being reported.
use crate::common::*;

pub fn campaigns(ctx: &Ctx, targets: &[&str]) {
    let _ = targets;
    ctx.note("libFuzzer campaigns: not built in this revision");
}
