//! Access to the code under test: VM state snapshots, panic capture, memory background
//! pattern and whole-memory comparison.
#![allow(dead_code)]
use emulator_8086_lib as lib;
use lib::VM;
use std::cell::RefCell;
use std::panic::{catch_unwind, AssertUnwindSafe};

pub const MB: usize = 1 << 20;

/// register file snapshot; index constants below
#[derive(Clone, Copy, PartialEq, Eq, Debug, Default, Hash)]
pub struct Regs {
    pub r: [u16; 14],
}
pub const AX: usize = 0;
pub const BX: usize = 1;
pub const CX: usize = 2;
pub const DX: usize = 3;
pub const SP: usize = 4;
pub const BP: usize = 5;
pub const SI: usize = 6;
pub const DI: usize = 7;
pub const CS: usize = 8;
pub const DS: usize = 9;
pub const SS: usize = 10;
pub const ES: usize = 11;
pub const FLAGS: usize = 12;
pub const IP: usize = 13;
pub const REG_NAMES: [&str; 14] = [
    "ax", "bx", "cx", "dx", "sp", "bp", "si", "di", "cs", "ds", "ss", "es", "flags", "ip",
];

impl Regs {
    pub fn get(&self, i: usize) -> u16 {
        self.r[i]
    }
    pub fn set(&mut self, i: usize, v: u16) {
        self.r[i] = v;
    }
    pub fn flags(&self) -> u16 {
        self.r[FLAGS]
    }
    pub fn to_json(&self) -> serde_json::Value {
        let mut m = serde_json::Map::new();
        for i in 0..14 {
            m.insert(REG_NAMES[i].to_string(), serde_json::json!(format!("{:04X}", self.r[i])));
        }
        serde_json::Value::Object(m)
    }
    pub fn from_json(v: &serde_json::Value) -> Regs {
        let mut r = Regs::default();
        for i in 0..14 {
            if let Some(s) = v.get(REG_NAMES[i]).and_then(|x| x.as_str()) {
                r.r[i] = u16::from_str_radix(s, 16).unwrap_or(0);
            }
        }
        r
    }
    pub fn diff(&self, other: &Regs) -> Vec<String> {
        let mut v = Vec::new();
        for i in 0..14 {
            if self.r[i] != other.r[i] {
                v.push(format!(
                    "{}: expected {:04X} observed {:04X}",
                    REG_NAMES[i], self.r[i], other.r[i]
                ));
            }
        }
        v
    }
}

pub fn snap(vm: &VM) -> Regs {
    let a = &vm.arch;
    Regs {
        r: [
            a.ax, a.bx, a.cx, a.dx, a.sp, a.bp, a.si, a.di, a.cs, a.ds, a.ss, a.es, a.flag, a.ip,
        ],
    }
}

pub fn load(vm: &mut VM, r: &Regs) {
    let a = &mut vm.arch;
    a.ax = r.r[AX];
    a.bx = r.r[BX];
    a.cx = r.r[CX];
    a.dx = r.r[DX];
    a.sp = r.r[SP];
    a.bp = r.r[BP];
    a.si = r.r[SI];
    a.di = r.r[DI];
    a.cs = r.r[CS];
    a.ds = r.r[DS];
    a.ss = r.r[SS];
    a.es = r.r[ES];
    a.flag = r.r[FLAGS];
    a.ip = r.r[IP];
}

thread_local! {
    static LAST_PANIC: RefCell<Option<String>> = RefCell::new(None);
}

/// Install a panic hook that records the message (function-level location without line
/// numbers is derived by the caller) instead of printing it.
pub fn install_quiet_panic_hook() {
    std::panic::set_hook(Box::new(|info| {
        let msg = if let Some(s) = info.payload().downcast_ref::<&str>() {
            s.to_string()
        } else if let Some(s) = info.payload().downcast_ref::<String>() {
            s.clone()
        } else {
            "panic".to_string()
        };
        let loc = info
            .location()
            .map(|l| {
                // file without line numbers so that unrelated edits do not change keys
                let f = l.file();
                let f = f.rsplit('/').next().unwrap_or(f);
                f.to_string()
            })
            .unwrap_or_default();
        LAST_PANIC.with(|p| *p.borrow_mut() = Some(format!("{} @{}", msg, loc)));
    }));
}

/// run f, turning a panic into Err(message)
pub fn catch<T, F: FnOnce() -> T>(f: F) -> Result<T, String> {
    match catch_unwind(AssertUnwindSafe(f)) {
        Ok(v) => Ok(v),
        Err(_) => Err(LAST_PANIC
            .with(|p| p.borrow_mut().take())
            .unwrap_or_else(|| "panic".to_string())),
    }
}

/// normalise a panic message into a key fragment: drop numbers so that e.g. index values
/// do not split one defect into thousands of keys
pub fn panic_class(msg: &str) -> String {
    let mut out = String::new();
    let mut last_hash = false;
    for c in msg.chars() {
        if c.is_ascii_digit() {
            if !last_hash {
                out.push('#');
                last_hash = true;
            }
        } else {
            out.push(c);
            last_hash = false;
        }
    }
    out
}

/// deterministic position dependent background pattern for memory
#[inline]
pub fn bg(addr: usize) -> u8 {
    let x = (addr as u32).wrapping_mul(0x9E3779B1);
    ((x >> 24) ^ (x >> 11) ^ (addr as u32 >> 3)) as u8 ^ 0x5A
}

pub struct BgMem {
    pub template: Box<[u8; MB]>,
}

impl BgMem {
    pub fn new() -> BgMem {
        let mut t: Box<[u8; MB]> = vec![0u8; MB].into_boxed_slice().try_into().unwrap();
        for i in 0..MB {
            t[i] = bg(i);
        }
        BgMem { template: t }
    }
    pub fn fill(&self, vm: &mut VM) {
        vm.mem.copy_from_slice(&self.template[..]);
    }
    /// Compare whole memory with template + expected writes.  On success the memory is
    /// restored to the template (cheap reuse).  On failure returns the differing addresses
    /// (up to 8) as (addr, expected, observed) and re-fills memory.
    pub fn check_and_restore(
        &self,
        vm: &mut VM,
        pre: &[(u32, u8)],
        expected_writes: &[(u32, u8)],
    ) -> Result<(), Vec<(u32, u8, u8)>> {
        // build the final expected overlay: pre-state overrides then writes (later wins)
        let mut bad: Vec<(u32, u8, u8)> = Vec::new();
        let mut overlay: Vec<(u32, u8)> = Vec::with_capacity(pre.len() + expected_writes.len());
        for &(a, v) in pre.iter().chain(expected_writes.iter()) {
            if let Some(e) = overlay.iter_mut().find(|e| e.0 == a) {
                e.1 = v;
            } else {
                overlay.push((a, v));
            }
        }
        for &(a, v) in &overlay {
            let obs = vm.mem[a as usize];
            if obs != v {
                bad.push((a, v, obs));
            }
            vm.mem[a as usize] = self.template[a as usize];
        }
        if vm.mem[..] != self.template[..] {
            // locate differences
            for i in 0..MB {
                if vm.mem[i] != self.template[i] {
                    if bad.len() < 8 {
                        bad.push((i as u32, self.template[i], vm.mem[i]));
                    }
                }
            }
            self.fill(vm);
        }
        if bad.is_empty() {
            Ok(())
        } else {
            Err(bad)
        }
    }
}

pub fn mem_all_zero(vm: &VM) -> bool {
    vm.mem.iter().all(|b| *b == 0)
}

/// Redirect the process's stdout (fd 1) to /dev/null while the guard lives.  Used while the
/// print parser (which println!s) is exercised in-process.
pub struct QuietStdout {
    saved: i32,
}
impl QuietStdout {
    pub fn new() -> QuietStdout {
        use std::io::Write;
        let _ = std::io::stdout().flush();
        unsafe {
            let saved = libc::dup(1);
            let dn = libc::open(b"/dev/null\0".as_ptr() as *const libc::c_char, libc::O_WRONLY);
            libc::dup2(dn, 1);
            libc::close(dn);
            QuietStdout { saved }
        }
    }
}
impl Drop for QuietStdout {
    fn drop(&mut self) {
        use std::io::Write;
        let _ = std::io::stdout().flush();
        unsafe {
            libc::dup2(self.saved, 1);
            libc::close(self.saved);
        }
    }
}
