//! whole-program generator (filled in with C08)
use crate::common::*;
pub fn c10_random_programs(_ctx: &Ctx) {}
