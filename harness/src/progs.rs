//! Whole programs: AST, renderer with recorded positions, flattening to the expected
//! instruction list, reference data image, and the reference interpreter that models
//! pre-processor + driver loop + interpreter + console services at the level of observable
//! events.
#![allow(dead_code)]
use crate::asm::*;
use crate::common::*;
use crate::emu::*;
use crate::machine::*;
use crate::refmodel::*;
use std::collections::HashMap;

#[derive(Clone, Debug, PartialEq, Eq)]
pub enum DataKind {
    /// single value (bit pattern)
    Val(u16),
    /// n zero elements
    Zeros(u16),
    /// n elements of value v
    Fill(u16, u16),
    /// string
    Str(String),
}

#[derive(Clone, Debug, PartialEq, Eq)]
pub enum DataDecl {
    Set(u16),
    Item { label: Option<String>, word: bool, kind: DataKind },
}

impl DataDecl {
    pub fn size(&self) -> u32 {
        match self {
            DataDecl::Set(_) => 0,
            DataDecl::Item { word, kind, .. } => {
                let el = if *word { 2 } else { 1 };
                match kind {
                    DataKind::Val(_) => el,
                    DataKind::Zeros(n) | DataKind::Fill(_, n) => *n as u32 * el,
                    DataKind::Str(s) => s.len() as u32 * el,
                }
            }
        }
    }
}

#[derive(Clone, Debug, PartialEq, Eq)]
pub enum PrintStmt {
    Flags,
    Reg,
    MemRange(u32, u32),
    MemLen(u32, u32),
    MemDs(u32),
}

#[derive(Clone, Debug)]
pub enum Item {
    Label(String),
    Ins(Insn),
    Print(PrintStmt),
    Proc { name: String, body: Vec<Item> },
    /// a macro definition; `body_src` is the text between -> and <-
    MacroDef { name: String, params: Vec<String>, body_src: String },
    /// a macro use; `expands_to` is the reference expansion (instructions)
    MacroUse { name: String, args: Vec<String>, expands_to: Vec<Insn> },
}

#[derive(Clone, Debug, Default)]
pub struct Program {
    pub data: Vec<DataDecl>,
    pub code: Vec<Item>,
}

/// layout choices for rendering a program
#[derive(Clone, Debug)]
pub struct Layout {
    pub choices: Vec<u8>,
    /// allow ';' comments (only meaningful through the CLI, which strips them)
    pub comments: bool,
    pub trailing_newline: bool,
    /// several statements on one line now and then
    pub pack_lines: bool,
}

impl Layout {
    pub fn plain() -> Layout {
        Layout { choices: vec![0], comments: false, trailing_newline: true, pack_lines: false }
    }
}

/// where a statement starts in the rendered text
#[derive(Clone, Debug)]
pub struct StmtPos {
    /// index into the flattened instruction list (None for labels/definitions)
    pub flat: Option<usize>,
    pub offset: usize,
}

pub struct Rendered {
    pub text: String,
    /// byte offset at which the code part begins (after the data section)
    pub code_start: usize,
    /// spelling choices actually taken: (upper-case tokens, non-decimal constants, non-trivial separators)
    pub spelling: (u32, u32, u32),
    /// byte offset of the first token of every flat instruction (macro-made instructions: the use site;
    /// implied ret: the closing brace)
    pub flat_offsets: Vec<usize>,
}

impl Rendered {
    /// 1-based line number of a byte offset
    pub fn line_of(&self, off: usize) -> usize {
        self.text.as_bytes()[..off.min(self.text.len())].iter().filter(|b| **b == b'\n').count() + 1
    }
    /// text of the (1-based) line, without the newline
    pub fn line_text(&self, line: usize) -> String {
        self.text.split('\n').nth(line - 1).unwrap_or("").to_string()
    }
}

pub fn render_print(p: &PrintStmt, ch: &mut Choices) -> String {
    let k = |s: &str, ch: &mut Choices| {
        if ch.next() & 1 == 1 {
            s.to_uppercase()
        } else {
            s.to_string()
        }
    };
    // every spelling of a constant the assembler accepts in a print statement: decimal, 0x / 0X with digits of either
    // case, 0b / 0B, zero-padded
    let num = |v: u32, ch: &mut Choices| match ch.next() % 10 {
        0 | 1 | 2 => format!("{}", v),
        3 => format!("0x{:X}", v),
        4 => format!("0x{:x}", v),
        5 => format!("0X{:X}", v),
        6 => format!("0X000{:x}", v),
        7 => format!("0b{:b}", v),
        8 => format!("0B{:b}", v),
        _ => format!("0B00{:b}", v),
    };
    match p {
        PrintStmt::Flags => format!("{} {}", k("print", ch), k("flags", ch)),
        PrintStmt::Reg => format!("{} {}", k("print", ch), k("reg", ch)),
        PrintStmt::MemRange(a, b) => format!("{} {} {} -> {}", k("print", ch), k("mem", ch), num(*a, ch), num(*b, ch)),
        PrintStmt::MemLen(a, n) => {
            let sp = if ch.next() & 1 == 1 { " : " } else { ":" };
            format!("{} {} {}{}{}", k("print", ch), k("mem", ch), num(*a, ch), sp, num(*n, ch))
        }
        PrintStmt::MemDs(n) => format!("{} {} :{}", k("print", ch), k("mem", ch), num(*n, ch)),
    }
}

pub fn render_data(d: &DataDecl, ch: &mut Choices) -> String {
    let k = |s: &str, ch: &mut Choices| {
        if ch.next() & 1 == 1 {
            s.to_uppercase()
        } else {
            s.to_string()
        }
    };
    match d {
        DataDecl::Set(n) => format!("{} {}", k("set", ch), render_imm(*n, ImmKind::UW, ch, &[])),
        DataDecl::Item { label, word, kind } => {
            let mut s = String::new();
            if let Some(l) = label {
                s.push_str(l);
                s.push_str(": ");
            }
            s.push_str(&k(if *word { "dw" } else { "db" }, ch));
            s.push(' ');
            let ik = if *word { ImmKind::SW } else { ImmKind::SB };
            match kind {
                DataKind::Val(v) => s.push_str(&render_imm(*v, ik, ch, &[])),
                DataKind::Zeros(n) => s.push_str(&format!("[{}]", render_imm(*n, ImmKind::UW, ch, &[]))),
                DataKind::Fill(v, n) => s.push_str(&format!("[{} , {}]", render_imm(*v, ik, ch, &[]), render_imm(*n, ImmKind::UW, ch, &[]))),
                DataKind::Str(st) => s.push_str(&format!("\"{}\"", st)),
            }
            s
        }
    }
}

// comments are free text: ASCII, quotes, and multi-byte characters (2-, 3- and 4-byte sequences; a character count and a
// byte count of such a line differ)
const COMMENTS: [&str; 17] = ["; comment", ";mov ax, 5", "; start: hlt ; nested", ";", "; \"quoted\" text", ";;; jmp nowhere", "; 5\" long", "; say \"hi", ";\"", "; it's", "; db \"a;b\" ; \"c",
    "; gr\u{f6}\u{df}e \u{2713}", ";\u{2713}", "; \u{65e5}\u{672c}\u{8a9e} comment \u{1f600}", "; na\u{ef}ve \"\u{fc}", "; \u{2192} jmp \u{e9}", "; load the first operand \u{2713}"];

fn stmt_sep(out: &mut String, lay: &Layout, ch: &mut Choices, is_string_literal_line: bool) {
    let c = ch.next();
    if lay.comments && c % 5 == 0 {
        out.push(' ');
        out.push_str(COMMENTS[(c / 5) as usize % COMMENTS.len()]);
        out.push('\n');
        return;
    }
    // one packed layout in four packs nearly everything: lines of several hundred bytes
    let long = lay.pack_lines && lay.choices.len() >= 3 && lay.choices[0] % 2 == 0;
    if lay.pack_lines && (c % 7 == 1 || (long && c % 16 != 0)) && !is_string_literal_line {
        out.push(' ');
        if long {
            out.push_str(&" ".repeat(c as usize % 13));
        }
        return;
    }
    out.push('\n');
    match c % 11 {
        3 => out.push('\n'),
        4 => out.push_str("   \n"),
        5 if lay.comments => {
            out.push_str(COMMENTS[(c as usize) % COMMENTS.len()]);
            out.push('\n');
        }
        6 => out.push('\t'),
        // a statement indented beyond any width a message could be clipped to
        _ => {}
    }
    // in the long-line layouts every other statement that does begin a line is indented beyond any width a message
    // could be clipped to
    if long && (c / 16) % 2 == 0 {
        out.push_str(&" ".repeat(110 + c as usize % 40));
    }
}

/// render a program; records the byte offset of every flattened instruction
pub fn render_program(p: &Program, lay: &Layout) -> Rendered {
    let mut ch = Choices::new(lay.choices.clone());
    let mut out = String::new();
    let mut flat_offsets: Vec<usize> = Vec::new();
    if lay.comments && ch.next() % 3 == 0 {
        out.push_str("; generated program\n");
    }
    // one layout in five begins with blank lines (an empty one and one of blanks); with packed lines also blanks before
    // the first statement
    if lay.choices.len() >= 3 && lay.choices[1] % 5 == 0 {
        out.push_str("\n  \t\n");
        if lay.pack_lines {
            out.push_str("  ");
        }
    }
    for d in &p.data {
        out.push_str(&render_data(d, &mut ch));
        // a string literal is greedy to the last quote of its line: keep it alone on the line
        out.push('\n');
        if ch.next() % 9 == 0 {
            out.push('\n');
        }
    }
    let code_start = out.len();
    let data_labels: Vec<(String, u16)> = data_label_offsets(&p.data);
    fn items(list: &[Item], out: &mut String, offs: &mut Vec<usize>, lay: &Layout, ch: &mut Choices, dl: &[(String, u16)]) {
        for it in list {
            match it {
                Item::Label(n) => {
                    out.push_str(n);
                    out.push(':');
                    // a label may share its line with the next statement
                    if ch.next() % 3 == 0 {
                        out.push('\n');
                    } else {
                        out.push(' ');
                    }
                }
                Item::Ins(i) => {
                    offs.push(out.len());
                    out.push_str(&render_insn(i, ch, dl));
                    stmt_sep(out, lay, ch, false);
                }
                Item::Print(pr) => {
                    offs.push(out.len());
                    out.push_str(&render_print(pr, ch));
                    stmt_sep(out, lay, ch, false);
                }
                Item::Proc { name, body } => {
                    let kw = if ch.next() & 1 == 1 { "DEF" } else { "def" };
                    out.push_str(&format!("{} {} {{", kw, name));
                    out.push_str(if ch.next() % 2 == 0 { "\n" } else { " " });
                    items(body, out, offs, lay, ch, dl);
                    // implied ret is attributed to the closing brace
                    offs.push(out.len());
                    out.push('}');
                    stmt_sep(out, lay, ch, false);
                }
                Item::MacroDef { name, params, body_src } => {
                    let kw = if ch.next() & 1 == 1 { "MACRO" } else { "macro" };
                    out.push_str(&format!("{} {}({}) ->{}<-", kw, name, params.join(","), body_src));
                    out.push('\n');
                }
                Item::MacroUse { name, args, expands_to } => {
                    for _ in expands_to {
                        offs.push(out.len());
                    }
                    out.push_str(&format!("{}({})", name, args.join(",")));
                    stmt_sep(out, lay, ch, false);
                }
            }
        }
    }
    items(&p.code, &mut out, &mut flat_offsets, lay, &mut ch, &data_labels);
    if !lay.trailing_newline {
        while out.ends_with('\n') || out.ends_with(' ') || out.ends_with('\t') {
            out.pop();
        }
    } else if !out.ends_with('\n') {
        out.push('\n');
    }
    Rendered { text: out, flat_offsets, code_start, spelling: (ch.n_upper, ch.n_radix, ch.n_sep) }
}

/// offsets of the data labels inside their segments (reference computation)
pub fn data_label_offsets(data: &[DataDecl]) -> Vec<(String, u16)> {
    let mut v = Vec::new();
    let mut ctr: u32 = 0;
    for d in data {
        match d {
            DataDecl::Set(_) => ctr = 0,
            DataDecl::Item { label, .. } => {
                if let Some(l) = label {
                    v.push((l.clone(), ctr as u16));
                }
                ctr += d.size();
            }
        }
    }
    v
}

/// independently computed memory image after loading the data section
pub fn data_image(data: &[DataDecl]) -> Vec<u8> {
    let mut mem = vec![0u8; MB];
    let mut seg: u32 = 0;
    let mut ctr: u32 = 0;
    let put = |mem: &mut Vec<u8>, seg: u32, ctr: u32, b: u8| {
        let a = (seg * 16 + ctr) as usize % MB;
        mem[a] = b;
    };
    for d in data {
        match d {
            DataDecl::Set(n) => {
                seg = *n as u32;
                ctr = 0;
            }
            DataDecl::Item { word, kind, .. } => match kind {
                DataKind::Val(v) => {
                    put(&mut mem, seg, ctr, *v as u8);
                    ctr += 1;
                    if *word {
                        put(&mut mem, seg, ctr, (*v >> 8) as u8);
                        ctr += 1;
                    }
                }
                DataKind::Zeros(n) => {
                    for _ in 0..(*n as u32 * if *word { 2 } else { 1 }) {
                        put(&mut mem, seg, ctr, 0);
                        ctr += 1;
                    }
                }
                DataKind::Fill(v, n) => {
                    for _ in 0..*n {
                        put(&mut mem, seg, ctr, *v as u8);
                        ctr += 1;
                        if *word {
                            put(&mut mem, seg, ctr, (*v >> 8) as u8);
                            ctr += 1;
                        }
                    }
                }
                DataKind::Str(s) => {
                    for b in s.bytes() {
                        put(&mut mem, seg, ctr, b);
                        ctr += 1;
                        if *word {
                            put(&mut mem, seg, ctr, 0);
                            ctr += 1;
                        }
                    }
                }
            },
        }
    }
    mem
}

#[derive(Clone, Debug)]
pub enum FlatOp {
    Ins(Insn),
    Print(PrintStmt),
    ImpliedRet,
    /// the hlt the driver appends
    FinalHlt,
}

#[derive(Clone, Debug, Default)]
pub struct Flat {
    pub ops: Vec<FlatOp>,
    pub labels: HashMap<String, usize>,
    pub procs: HashMap<String, usize>,
    pub data_labels: Vec<(String, u16)>,
}

pub fn flatten(p: &Program) -> Flat {
    let mut f = Flat::default();
    f.data_labels = data_label_offsets(&p.data);
    fn walk(items: &[Item], f: &mut Flat) {
        for it in items {
            match it {
                Item::Label(n) => {
                    f.labels.insert(n.clone(), f.ops.len());
                }
                Item::Ins(i) => f.ops.push(FlatOp::Ins(i.clone())),
                Item::Print(p) => f.ops.push(FlatOp::Print(p.clone())),
                Item::Proc { name, body } => {
                    f.procs.insert(name.clone(), f.ops.len());
                    walk(body, f);
                    f.ops.push(FlatOp::ImpliedRet);
                }
                Item::MacroDef { .. } => {}
                Item::MacroUse { expands_to, .. } => {
                    for i in expands_to {
                        f.ops.push(FlatOp::Ins(i.clone()));
                    }
                }
            }
        }
    }
    walk(&p.code, &mut f);
    f.ops.push(FlatOp::FinalHlt);
    f
}

/// observable events of a run
#[derive(Clone, Debug, PartialEq, Eq)]
pub enum Ev {
    /// raw characters written by the console services
    Chars(Vec<u8>),
    /// "Output of line N : text :"
    PrintHdr(usize),
    Flags(u16),
    Regs([u16; 12]),
    Mem(Vec<u8>),
    /// a print statement answered with a message instead of a dump
    PrintRefused,
    /// "About to execute line N : text"
    About(usize),
    TrapNote,
    Prompt,
    Int3(usize),
    Invalid,
    Exiting,
    DivErr(usize),
    UnsupInt(usize),
    /// "Internal Error ..." / ret without call
    InternalError,
}

#[derive(Clone, Debug, PartialEq, Eq)]
pub enum Stop {
    Halt,
    Quit,
    DivideError,
    UnsupportedInt,
    /// `ret` with no active call: the run stops with a diagnostic
    RetWithoutCall,
    StepLimit,
    /// stdin exhausted at a prompt (emulator must terminate)
    EofAtPrompt,
}

pub struct RefRun {
    pub events: Vec<Ev>,
    /// executed flat indices in order
    pub trace: Vec<usize>,
    pub stop: Stop,
    pub regs: Regs,
    pub mem: Vec<u8>,
    /// flat indexes of instructions before which a prompt was shown
    pub prompts_before: Vec<usize>,
    pub stdin_used: usize,
    /// order in which stdin lines are consumed: (true, k) = k-th script line at a prompt, (false, k) = k-th input
    /// line of an INT 21h service
    pub stdin_seq: Vec<(bool, usize)>,
}

/// dense-memory machine for whole programs
pub struct DMachine {
    pub m: Machine,
}

pub fn ref_print(p: &PrintStmt, regs: &Regs, mem: &[u8]) -> Ev {
    match p {
        PrintStmt::Flags => Ev::Flags(regs.r[FLAGS] & (OF | DF | IF | TF | SF | ZF | AF | PF | CF)),
        PrintStmt::Reg => {
            let mut a = [0u16; 12];
            for i in 0..12 {
                a[i] = regs.r[i];
            }
            Ev::Regs(a)
        }
        PrintStmt::MemRange(a, b) => {
            if *a as usize >= MB || *b as usize >= MB || a > b {
                Ev::PrintRefused
            } else {
                Ev::Mem(mem[*a as usize..=*b as usize].to_vec())
            }
        }
        PrintStmt::MemLen(a, n) => {
            let e = *a as u64 + *n as u64;
            if *a as usize >= MB || e >= MB as u64 {
                Ev::PrintRefused
            } else {
                Ev::Mem(mem[*a as usize..=e as usize].to_vec())
            }
        }
        PrintStmt::MemDs(n) => {
            let s = regs.r[DS] as u64 * 16;
            let e = s + *n as u64;
            if e >= MB as u64 {
                Ev::PrintRefused
            } else {
                Ev::Mem(mem[s as usize..=e as usize].to_vec())
            }
        }
    }
}

/// a scripted prompt answer
#[derive(Clone, Debug, PartialEq, Eq)]
pub enum PromptCmd {
    Next(String),
    Quit(String),
    Print(PrintStmt, String),
    Garbage(String),
}
impl PromptCmd {
    pub fn text(&self) -> &str {
        match self {
            PromptCmd::Next(s) | PromptCmd::Quit(s) | PromptCmd::Garbage(s) => s,
            PromptCmd::Print(_, s) => s,
        }
    }
}

pub struct RunCfg<'a> {
    pub interpreted: bool,
    /// prompt script (one entry per line of stdin consumed at prompts)
    pub script: &'a [PromptCmd],
    /// line number (1-based) of every flat op, for About/Int3/PrintHdr events
    pub lines: &'a [usize],
    pub max_steps: usize,
    /// raw stdin lines for INT 21h services (None = those services are not used)
    pub input_lines: Option<&'a [Vec<u8>]>,
    /// for INT 21h AH=0Ah, per call: the stored count to assume and the byte found right after the
    /// stored characters (validity-predicate style: the caller has checked them against the
    /// documented bounds); None = count is min(line length, capacity), nothing after it
    pub buf_fill: Option<&'a [(usize, Option<u8>)]>,
}

/// The reference interpreter for whole programs.
pub fn ref_run(flat: &Flat, image: &[u8], cfg: &RunCfg, q: &Quirks) -> RefRun {
    let mut regs = Regs::default();
    regs.r[FLAGS] = 0xF000;
    regs.r[CS] = 0xFFFF;
    let mut mach = Machine::new(regs);
    mach.mem.dense = Some(std::sync::Arc::new(image.to_vec()));
    let mut events: Vec<Ev> = Vec::new();
    let mut trace = Vec::new();
    let mut prompts_before = Vec::new();
    let mut script_pos = 0usize;
    let mut input_pos = 0usize;
    let mut buf_calls = 0usize;
    let start = match flat.labels.get("start") {
        Some(s) => *s,
        None => {
            return RefRun { events, trace, stop: Stop::Halt, regs: mach.regs, mem: mach.mem.dense.take().map(|a| (*a).clone()).unwrap(), prompts_before, stdin_used: 0, stdin_seq: vec![] };
        }
    };
    let mut idx = start;
    let mut steps = 0usize;
    let line_of = |i: usize| cfg.lines.get(i).copied().unwrap_or(0);
    // prompt handling: returns false if the run must stop
    let seq_cell: std::cell::RefCell<Vec<(bool, usize)>> = std::cell::RefCell::new(Vec::new());
    let mut prompt = |events: &mut Vec<Ev>, mach: &Machine, script_pos: &mut usize| -> Option<Stop> {
        loop {
            events.push(Ev::Prompt);
            if *script_pos >= cfg.script.len() {
                return Some(Stop::EofAtPrompt);
            }
            let c = &cfg.script[*script_pos];
            seq_cell.borrow_mut().push((true, *script_pos));
            *script_pos += 1;
            match c {
                PromptCmd::Next(_) => return None,
                PromptCmd::Quit(_) => {
                    events.push(Ev::Exiting);
                    return Some(Stop::Quit);
                }
                PromptCmd::Print(p, _) => {
                    events.push(ref_print(p, &mach.regs, mach.mem.dense.as_ref().unwrap()));
                }
                PromptCmd::Garbage(_) => events.push(Ev::Invalid),
            }
        }
    };
    let stop;
    loop {
        if steps >= cfg.max_steps {
            stop = Stop::StepLimit;
            break;
        }
        steps += 1;
        let tf = mach.regs.r[FLAGS] & TF != 0;
        let is_final = matches!(flat.ops[idx], FlatOp::FinalHlt);
        if (cfg.interpreted || tf) && !is_final {
            events.push(Ev::About(line_of(idx)));
            if tf {
                events.push(Ev::TrapNote);
            }
            prompts_before.push(idx);
            if let Some(s) = prompt(&mut events, &mach, &mut script_pos) {
                stop = s;
                break;
            }
        }
        trace.push(idx);
        match &flat.ops[idx] {
            FlatOp::FinalHlt => {
                stop = Stop::Halt;
                break;
            }
            FlatOp::Print(p) => {
                events.push(Ev::PrintHdr(line_of(idx)));
                events.push(ref_print(p, &mach.regs, mach.mem.dense.as_ref().unwrap()));
                idx += 1;
            }
            FlatOp::ImpliedRet | FlatOp::Ins(_) => {
                let insn = match &flat.ops[idx] {
                    FlatOp::Ins(i) => i.clone(),
                    _ => Insn::new("ret", vec![]),
                };
                let env = Env { data_labels: &flat.data_labels, current: idx, string_straddle_both: false };
                let mut acc = mach.exec(&insn, &env, q);
                let e = acc.remove(0);
                mach.regs = e.regs;
                mach.mem = e.mem;
                mach.call_stack = e.call_stack;
                match e.outcome {
                    Outcome::Next => idx += 1,
                    Outcome::Halt => {
                        stop = Stop::Halt;
                        break;
                    }
                    Outcome::JmpLabel(n) => idx = *flat.labels.get(&n).unwrap_or(&(flat.ops.len() - 1)),
                    Outcome::JmpProc(n) => idx = *flat.procs.get(&n).unwrap_or(&(flat.ops.len() - 1)),
                    Outcome::JmpIdx(i) => idx = i,
                    Outcome::Print => idx += 1,
                    Outcome::Error => {
                        events.push(Ev::InternalError);
                        stop = Stop::RetWithoutCall;
                        break;
                    }
                    Outcome::Int(0) => {
                        events.push(Ev::DivErr(line_of(idx)));
                        events.push(Ev::Exiting);
                        stop = Stop::DivideError;
                        break;
                    }
                    Outcome::Int(3) => {
                        events.push(Ev::Int3(line_of(idx)));
                        if let Some(s) = prompt(&mut events, &mach, &mut script_pos) {
                            stop = s;
                            break;
                        }
                        idx += 1;
                    }
                    Outcome::Int(0x10) => {
                        let ah = (mach.regs.r[AX] >> 8) as u8;
                        match ah {
                            0x0A => {
                                let al = mach.regs.r[AX] as u8;
                                let n = mach.regs.r[CX] as usize;
                                events.push(Ev::Chars(vec![al; n]));
                            }
                            0x13 => {
                                let dl = mach.regs.r[DX] as u8;
                                let mut v = vec![b' '; dl as usize];
                                let base = phys(mach.regs.r[ES], mach.regs.r[BP]);
                                for k in 0..mach.regs.r[CX] as u32 {
                                    v.push(mach.mem.rd(base.wrapping_add(k)));
                                }
                                events.push(Ev::Chars(v));
                            }
                            _ => {
                                events.push(Ev::UnsupInt(line_of(idx)));
                                events.push(Ev::Exiting);
                                stop = Stop::UnsupportedInt;
                                break;
                            }
                        }
                        idx += 1;
                    }
                    Outcome::Int(0x21) => {
                        let ah = (mach.regs.r[AX] >> 8) as u8;
                        match ah {
                            0x02 => {
                                let dl = mach.regs.r[DX] as u8;
                                events.push(Ev::Chars(vec![dl]));
                                mach.regs.r[AX] = (mach.regs.r[AX] & 0xFF00) | dl as u16;
                            }
                            0x01 => {
                                let line: Vec<u8> = cfg.input_lines.and_then(|l| l.get(input_pos).cloned()).unwrap_or_default();
                                seq_cell.borrow_mut().push((false, input_pos));
                                input_pos += 1;
                                let b = line.first().copied().unwrap_or(0);
                                mach.regs.r[AX] = (mach.regs.r[AX] & 0xFF00) | b as u16;
                            }
                            0x0A => {
                                let line: Vec<u8> = cfg.input_lines.and_then(|l| l.get(input_pos).cloned()).unwrap_or_default();
                                seq_cell.borrow_mut().push((false, input_pos));
                                input_pos += 1;
                                let start = phys(mach.regs.r[DS], mach.regs.r[DX]);
                                let cap = mach.mem.rd(start) as usize;
                                let (count, term) = match cfg.buf_fill.and_then(|b| b.get(buf_calls)) {
                                    Some((c, t)) => (*c, *t),
                                    None => (line.len().min(cap), None),
                                };
                                buf_calls += 1;
                                mach.mem.wr(start.wrapping_add(1), count as u8);
                                for k in 0..count.min(line.len()) {
                                    mach.mem.wr(start.wrapping_add(2 + k as u32), line[k]);
                                }
                                if let Some(t) = term {
                                    if count < cap {
                                        mach.mem.wr(start.wrapping_add(2 + count as u32), t);
                                    }
                                }
                            }
                            _ => {
                                events.push(Ev::UnsupInt(line_of(idx)));
                                events.push(Ev::Exiting);
                                stop = Stop::UnsupportedInt;
                                break;
                            }
                        }
                        idx += 1;
                    }
                    Outcome::Int(_) => {
                        events.push(Ev::InternalError);
                        stop = Stop::UnsupportedInt;
                        break;
                    }
                }
            }
        }
        if idx >= flat.ops.len() {
            stop = Stop::Halt;
            break;
        }
    }
    let mem = mach.mem.dense.take().map(|a| std::sync::Arc::try_unwrap(a).unwrap_or_else(|a| (*a).clone())).unwrap();
    let stdin_seq = seq_cell.into_inner();
    RefRun { events, trace, stop, regs: mach.regs, mem, prompts_before, stdin_used: script_pos, stdin_seq }
}

/// merge adjacent Chars events (the tokenizer of real output cannot see the boundaries)
pub fn normalise(evs: &[Ev]) -> Vec<Ev> {
    let mut out: Vec<Ev> = Vec::new();
    for e in evs {
        match (out.last_mut(), e) {
            (Some(Ev::Chars(a)), Ev::Chars(b)) => a.extend_from_slice(b),
            (_, Ev::Chars(b)) if b.is_empty() => {}
            _ => out.push(e.clone()),
        }
    }
    out
}

/// Comparison of an observed event list with the expected one.  The reference writes `InternalError` where a program
/// executes `ret` with no active call.  C08/C09/C20 only say that the run stops there with a report, so every way of
/// reporting it is accepted: the emulator's "Internal Error" text (which is C10's listed finding, decided there) or a
/// run-time error line citing the line (tokenized as UnsupInt), with or without a closing "Exiting".  Everything before
/// that point must be equal.
pub fn events_match(exp: &[Ev], got: &[Ev]) -> bool {
    if exp == got {
        return true;
    }
    if let Some(Ev::InternalError) = exp.last() {
        let k = exp.len() - 1;
        if got.len() > k && got[..k] == exp[..k] {
            return matches!(&got[k..], [Ev::InternalError] | [Ev::InternalError, Ev::Exiting] | [Ev::UnsupInt(_)] | [Ev::UnsupInt(_), Ev::Exiting]);
        }
    }
    false
}

/// characters that generated programs may write through the console services: none of them
/// occurs in any message of the CLI, so program output can be told apart from chatter
pub const MARKERS: &[u8] = b"!#$%&*+=?@^~|";

/// tokenise the CLI's stdout into events.  Unknown text is returned as Err(line).
pub fn tokenize(out: &[u8]) -> Result<Vec<Ev>, String> {
    let s = String::from_utf8_lossy(out).to_string();
    let b = s.as_bytes();
    let mut evs: Vec<Ev> = Vec::new();
    let mut i = 0usize;
    let rest_line = |i: usize| -> (&str, usize) {
        let e = s[i..].find('\n').map(|x| i + x).unwrap_or(s.len());
        (&s[i..e], (e + 1).min(s.len()))
    };
    // the number a message cites; a word in front of it ("... at line 7") is skipped
    let parse_num = |t: &str| -> usize {
        let t = t.trim_start();
        let skip = t.chars().take_while(|c| c.is_ascii_alphabetic() || *c == ' ').count();
        let t = if skip <= 12 { &t[skip..] } else { t };
        t.split(|c: char| !c.is_ascii_digit()).next().unwrap_or("").parse::<usize>().unwrap_or(0)
    };
    while i < b.len() {
        let r = &s[i..];
        let out_char_at = |k: usize| -> Option<(u8, usize)> {
            if k >= b.len() {
                None
            } else if MARKERS.contains(&b[k]) {
                Some((b[k], 1))
            } else if (b[k] == 0xC2 || b[k] == 0xC3) && k + 1 < b.len() && b[k + 1] & 0xC0 == 0x80 {
                // U+0080..U+00FF: how Rust prints a byte >= 80h converted to char
                Some((((b[k] & 0x03) << 6) | (b[k + 1] & 0x3F), 2))
            } else {
                None
            }
        };
        let blanks = {
            let mut k = i;
            while k < b.len() && b[k] == b' ' {
                k += 1;
            }
            k - i
        };
        if out_char_at(i).is_some() || (blanks > 0 && out_char_at(i + blanks).is_some()) {
            let mut v = vec![b' '; blanks];
            i += blanks;
            while let Some((c, n)) = out_char_at(i) {
                v.push(c);
                i += n;
            }
            evs.push(Ev::Chars(v));
        } else if r.starts_with(">>> ") {
            evs.push(Ev::Prompt);
            i += 4;
        } else if r.starts_with("About to execute line ") {
            let (l, n) = rest_line(i);
            evs.push(Ev::About(parse_num(&l["About to execute line ".len()..])));
            i = n;
        } else if r.starts_with("Trap flag is set") {
            evs.push(Ev::TrapNote);
            i = rest_line(i).1;
        } else if r.starts_with("Int 3 at line ") {
            let (l, n) = rest_line(i);
            evs.push(Ev::Int3(parse_num(&l["Int 3 at line ".len()..])));
            i = n;
        } else if r.starts_with("Output of line ") {
            let (l, n) = rest_line(i);
            evs.push(Ev::PrintHdr(parse_num(&l["Output of line ".len()..])));
            i = n;
        } else if r.starts_with("AX : ") {
            // six lines (one blank in the middle)
            let mut lines: Vec<&str> = Vec::new();
            let mut j = i;
            while lines.len() < 6 && j < b.len() {
                let (l, n) = rest_line(j);
                j = n;
                if l.trim().is_empty() {
                    continue;
                }
                lines.push(l);
            }
            match crate::cli::parse_reg_dump(&lines) {
                Some(a) => evs.push(Ev::Regs(a)),
                None => return Err(format!("malformed register dump: {:?}", lines)),
            }
            i = j;
        } else if r.starts_with("OF : ") {
            let (l, n) = rest_line(i);
            match crate::cli::parse_flag_dump(l) {
                Some(f) => evs.push(Ev::Flags(f)),
                None => return Err(format!("malformed flag dump: {:?}", l)),
            }
            i = n;
        } else if r.starts_with("Exiting") {
            evs.push(Ev::Exiting);
            i = rest_line(i).1;
        } else if rest_line(i).0.to_ascii_lowercase().contains("divide") && rest_line(i).0.contains("int 0 at ") {
            // "Attempt to divide by 0 : int 0 at N : text" -- the divide-error report in whatever words, naming int 0 and a line
            let (l, n) = rest_line(i);
            let k = l.find("int 0 at ").unwrap() + "int 0 at ".len();
            evs.push(Ev::DivErr(parse_num(&l[k..])));
            i = n;
        } else if rest_line(i).0.to_ascii_lowercase().contains("error at line ") {
            // "Error at line N : text, ..." -- a run-time error report citing a line, whatever stands in front of it
            let (l, n) = rest_line(i);
            let k = l.to_ascii_lowercase().find("error at line ").unwrap() + "error at line ".len();
            evs.push(Ev::UnsupInt(parse_num(&l[k..])));
            i = n;
        } else if r.starts_with("Invalid input") {
            evs.push(Ev::Invalid);
            i = rest_line(i).1;
        } else if r.starts_with("Starting address is") || r.starts_with("Error : End address") || r.starts_with("Error : Starting address") || r.starts_with("Error : address") {
            evs.push(Ev::PrintRefused);
            i = rest_line(i).1;
        } else if r.starts_with("Internal Error") {
            evs.push(Ev::InternalError);
            // the message has a second line "Error : ..."
            i = rest_line(i).1;
            while i < b.len() && !s[i..].starts_with(">>> ") {
                let (l, n) = rest_line(i);
                if l.trim().is_empty() {
                    i = n;
                    break;
                }
                i = n;
            }
        } else if b[i] == b'\n' || b[i] == b'\r' {
            i += 1;
        } else if b[i].is_ascii_hexdigit() && i + 1 < b.len() && b[i + 1].is_ascii_hexdigit() && (i + 2 >= b.len() || matches!(b[i + 2], b'\t' | b' ' | b'\n' | b'\r')) && {
            // the whole line is made of two-digit hex cells (separated by tabs or blanks, with or without a trailing one)
            let t = rest_line(i).0.trim();
            !t.is_empty() && t.split_whitespace().all(|c| c.len() == 2 && c.chars().all(|x| x.is_ascii_hexdigit()))
        } {
            // memory dump rows until a line that is not a row
            let mut rows: Vec<&str> = Vec::new();
            let mut j = i;
            while j < b.len() {
                let (l, n) = rest_line(j);
                let t = l.trim();
                let is_row = !t.is_empty() && t.split_whitespace().all(|c| c.len() == 2 && c.chars().all(|x| x.is_ascii_hexdigit()));
                if !is_row {
                    break;
                }
                rows.push(l);
                j = n;
            }
            match crate::cli::parse_mem_dump(&rows) {
                Some((bytes, lens)) => {
                    // 16 per row, last row shorter
                    for (k, l) in lens.iter().enumerate() {
                        if (k + 1 < lens.len() && *l != 16) || *l > 16 {
                            return Err(format!("memory dump row {} has {} cells", k, l));
                        }
                    }
                    evs.push(Ev::Mem(bytes));
                }
                None => return Err(format!("malformed memory dump: {:?}", rows)),
            }
            i = j;
        } else {
            let (l, n) = rest_line(i);
            // A line that is none of the known messages but stands directly behind a prompt, or behind the header of a print
            // statement, is the emulator's answer to that command in other words (the statements do not fix the wording
            // of a refusal): the refusal of a print range when it speaks of addresses, memory or a range or answers a
            // print statement of the program, otherwise the "this is not a command" answer of the prompt.
            let t = l.to_ascii_lowercase();
            // further remarks between the announcement of a stepped instruction and its prompt are stepping chatter, like
            // "Trap flag is set"
            // (likewise a further remark between a run-time error report and the closing "Exiting")
            if matches!(evs.last(), Some(Ev::About(_)) | Some(Ev::TrapNote) | Some(Ev::DivErr(_)) | Some(Ev::UnsupInt(_))) && !l.trim().is_empty() && !t.contains("panick") {
                i = n;
                continue;
            }
            let behind_header = matches!(evs.last(), Some(Ev::PrintHdr(_)));
            if (behind_header || matches!(evs.last(), Some(Ev::Prompt))) && !l.trim().is_empty() && !t.contains("panick") {
                if behind_header || t.contains("address") || t.contains("memory") || t.contains("range") {
                    evs.push(Ev::PrintRefused);
                } else {
                    evs.push(Ev::Invalid);
                }
                i = n;
            } else {
                return Err(format!("unrecognised output: {:?}", l));
            }
        }
    }
    Ok(normalise(&evs))
}

/// C10 (b): generated whole programs are run, in-process and through the CLI; any
/// "Internal Error : Should not have reached here" text is a violation
pub fn c10_random_programs(ctx: &Ctx) {
    use crate::cli::*;
    use crate::clicheck::*;
    use crate::gen::*;
    use proptest::prelude::*;
    use serde_json::json;
    if !cli_available() {
        ctx.harness_error("CLI binary not built");
        return;
    }
    let mk = || {
        (gencfg_s(24, 4), proptest::collection::vec(any::<u8>(), 24), any::<bool>()).prop_map(|(mut g, ch, comments)| {
            g.with_prints = true;
            (g, ch, comments)
        })
    };
    let n = ctx.tier.pick(800usize, 20_000usize);
    run_cases(
        ctx,
        "c10-programs",
        n,
        mk,
        |(g, ch, comments)| {
            let prog = build_program(g);
            let r = render_program(&prog, &Layout { choices: ch.clone(), comments: *comments, trailing_newline: true, pack_lines: false });
            let out = run_cli(r.text.as_bytes(), Stdin::Closed, false, 4 << 20, 20_000);
            let replay = json!({"kind":"cli","source":r.text,"stdin":"","interpreted":false,"forbid":["Internal Error"]});
            if matches!(out.status, Status::Timeout | Status::SpawnError(_)) {
                return CaseOutcome::Inconclusive(format!("{:?}", out.status));
            }
            let s = out.out_str();
            if s.contains("Syntax Error") || s.contains("used but not defined") || s.contains("necessary label") {
                return CaseOutcome::Fail { key: "c10|programs|generator-rejected".into(), what: format!("generated program was not accepted: {}", s.lines().take(2).collect::<Vec<_>>().join(" / ")), replay };
            }
            if s.contains("Internal Error") {
                if s.contains("ret is encountered without corresponding call") {
                    return CaseOutcome::Known("c10|internal-error|ret-without-call".into());
                }
                return CaseOutcome::Fail { key: "c10|programs|internal-error".into(), what: format!("accepted program reached an internal-error path: {}", s.lines().filter(|l| l.contains("Error")).take(2).collect::<Vec<_>>().join(" / ")), replay };
            }
            if !out.clean() {
                return CaseOutcome::Fail { key: "c10|programs|abnormal-exit".into(), what: format!("status {:?} {}", out.status, out.err_str().lines().next().unwrap_or("")), replay };
            }
            let distinct = prog.code.len() >= 3;
            CaseOutcome::Pass { nontrivial: distinct, classes: vec!["c10/program-run".into()], digest: fnv_str(&r.text) }
        },
        |(g, ch, comments)| json!({"source": render_program(&build_program(g), &Layout { choices: ch.clone(), comments: *comments, trailing_newline: true, pack_lines: false }).text}),
    );
}
