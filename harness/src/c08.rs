//! C08 -- programs start at 'start', follow labels/calls/returns exactly, halt at the end.
use crate::asm::*;
use crate::cli::*;
use crate::clicheck::*;
use crate::common::*;
use crate::emu::*;
use crate::gen::*;
use crate::pipeline::*;
use crate::progs::*;
use crate::pt;
use crate::refmodel::*;
use emulator_8086_lib::VM;
use rayon::prelude::*;
use serde_json::json;

#[derive(Debug, Clone, PartialEq, Eq)]
pub enum RStop {
    Halt,
    DivErr,
    InternalError(String),
    Unsupported,
    StepLimit,
    Panic(String),
}

pub struct ReplicaOut {
    pub trace: Vec<usize>,
    pub stop: RStop,
    pub chars: Vec<u8>,
}

/// the run loop of driver.rs transcribed (no prompt, printing skipped, INT 21h/AH=2 emulated)
pub fn replica_run(asm: &mut Assembled, vm: &mut VM, max_steps: usize) -> ReplicaOut {
    let mut trace = Vec::new();
    let mut chars = Vec::new();
    let mut idx = match asm.code_label("start") {
        Some(s) => s,
        None => return ReplicaOut { trace, stop: RStop::InternalError("no start".into()), chars },
    };
    asm.code.push("hlt".to_owned());
    let mut steps = 0;
    let mut last_repeat = false;
    loop {
        if steps >= max_steps {
            return ReplicaOut { trace, stop: RStop::StepLimit, chars };
        }
        steps += 1;
        if idx >= asm.code.len() {
            return ReplicaOut { trace, stop: RStop::InternalError(format!("index {} outside the code", idx)), chars };
        }
        let line = asm.code[idx].clone();
        if !last_repeat {
            trace.push(idx);
        }
        last_repeat = false;
        match step(vm, &mut asm.ictx, idx, &line) {
            StepOut::Panic(p) => return ReplicaOut { trace, stop: RStop::Panic(p), chars },
            StepOut::Err(e) => return ReplicaOut { trace, stop: RStop::InternalError(e.lines().last().unwrap_or("").to_string()), chars },
            StepOut::State(s) => match s {
                St::Halt => return ReplicaOut { trace, stop: RStop::Halt, chars },
                St::Print | St::Next => idx += 1,
                St::Jmp(n) => idx = n,
                St::Repeat => last_repeat = true,
                St::Int(0) => return ReplicaOut { trace, stop: RStop::DivErr, chars },
                St::Int(3) => idx += 1,
                St::Int(0x21) => {
                    let ah = (vm.arch.ax >> 8) as u8;
                    if ah == 2 {
                        let dl = vm.arch.dx as u8;
                        chars.push(dl);
                        vm.arch.ax = (vm.arch.ax & 0xFF00) | dl as u16;
                        idx += 1;
                    } else {
                        return ReplicaOut { trace, stop: RStop::Unsupported, chars };
                    }
                }
                St::Int(_) => return ReplicaOut { trace, stop: RStop::Unsupported, chars },
            },
        }
    }
}

pub enum L2Verdict {
    Pass { nontrivial: bool, classes: Vec<String> },
    Rejected(String),
    Fail { aspect: String, detail: String },
}

/// L2: real Preprocessor + Interpreter under the replica loop versus the reference interpreter
pub fn check_l2(vm: &mut VM, prog: &Program, layout: &Layout) -> (L2Verdict, String) {
    let rendered = render_program(prog, layout);
    let src = strip_comments(&rendered.text);
    let flat = flatten(prog);
    let image = data_image(&prog.data);
    let lines: Vec<usize> = vec![0; flat.ops.len()];
    let cfg = RunCfg { interpreted: false, script: &[], lines: &lines, max_steps: 20_000, input_lines: None, buf_fill: None };
    let rr = ref_run(&flat, &image, &cfg, &Quirks::none());
    let mut asm = match assemble(&src) {
        Ok(a) => a,
        Err(e) => return (L2Verdict::Rejected(e), rendered.text),
    };
    for (_, l) in &asm.undefined {
        if asm.ictx.label_map.get(l).is_none() {
            return (L2Verdict::Rejected(format!("undefined label {}", l)), rendered.text);
        }
    }
    if asm.code.len() + 1 != flat.ops.len() {
        return (L2Verdict::Fail { aspect: "emitted-count".into(), detail: format!("expected {} emitted instructions, got {}: {:?}", flat.ops.len() - 1, asm.code.len(), asm.code) }, rendered.text);
    }
    // label resolution
    for (n, i) in &flat.labels {
        if asm.code_label(n) != Some(*i) {
            return (L2Verdict::Fail { aspect: "label-index".into(), detail: format!("label {} expected at instruction {}, assembler says {:?}", n, i, asm.code_label(n)) }, rendered.text);
        }
    }
    for (n, i) in &flat.procs {
        if asm.ictx.fn_map.get(n) != Some(i) {
            return (L2Verdict::Fail { aspect: "proc-index".into(), detail: format!("procedure {} expected at instruction {}, assembler says {:?}", n, i, asm.ictx.fn_map.get(n)) }, rendered.text);
        }
    }
    for x in vm.mem.iter_mut() {
        *x = 0;
    }
    let mut r0 = Regs::default();
    r0.r[FLAGS] = 0xF000;
    r0.r[CS] = 0xFFFF;
    load(vm, &r0);
    if let Err(e) = load_data(vm, &asm.data) {
        return (L2Verdict::Fail { aspect: "data-loader".into(), detail: e }, rendered.text);
    }
    let ro = replica_run(&mut asm, vm, 40_000);
    let exp_chars: Vec<u8> = rr.events.iter().flat_map(|e| if let Ev::Chars(c) = e { c.clone() } else { vec![] }).collect();
    // stop reason
    let stop_ok = match (&rr.stop, &ro.stop) {
        (Stop::Halt, RStop::Halt) => true,
        // the interpreter refuses the ret (whatever its wording); the trace comparison below ties it to the right instruction
        (Stop::RetWithoutCall, RStop::InternalError(e)) => e != "no start" && !(e.starts_with("index ") && e.ends_with(" outside the code")),
        (Stop::StepLimit, _) => true,
        _ => false,
    };
    if rr.stop == Stop::StepLimit {
        return (L2Verdict::Rejected("reference hit the step limit (generator bug)".into()), rendered.text);
    }
    if ro.trace != rr.trace {
        let k = ro.trace.iter().zip(rr.trace.iter()).position(|(a, b)| a != b).unwrap_or(ro.trace.len().min(rr.trace.len()));
        return (
            L2Verdict::Fail {
                aspect: "trace".into(),
                detail: format!(
                    "executed-instruction trace differs at position {}: expected index {:?} ({}), observed {:?} ({}); expected length {}, observed length {}",
                    k,
                    rr.trace.get(k),
                    rr.trace.get(k).map(|i| format!("{:?}", flat.ops[*i])).unwrap_or_default(),
                    ro.trace.get(k),
                    ro.trace.get(k).and_then(|i| asm.code.get(*i)).cloned().unwrap_or_default(),
                    rr.trace.len(),
                    ro.trace.len()
                ),
            },
            rendered.text,
        );
    }
    if !stop_ok {
        return (L2Verdict::Fail { aspect: "stop".into(), detail: format!("expected stop {:?}, observed {:?}", rr.stop, ro.stop) }, rendered.text);
    }
    if ro.chars != exp_chars {
        return (L2Verdict::Fail { aspect: "markers".into(), detail: format!("marker output expected {:?} observed {:?}", String::from_utf8_lossy(&exp_chars), String::from_utf8_lossy(&ro.chars)) }, rendered.text);
    }
    let obs = snap(vm);
    let mut e = rr.regs;
    e.r[IP] = obs.r[IP];
    if e != obs {
        return (L2Verdict::Fail { aspect: "final-state".into(), detail: e.diff(&obs).join("; ") }, rendered.text);
    }
    if vm.mem[..] != rr.mem[..] {
        let a = (0..MB).find(|i| vm.mem[*i] != rr.mem[*i]).unwrap();
        return (L2Verdict::Fail { aspect: "final-memory".into(), detail: format!("[{:05X}] expected {:02X} observed {:02X}", a, rr.mem[a], vm.mem[a]) }, rendered.text);
    }
    let f = features(prog, &rr.trace, &flat);
    let mut classes = Vec::new();
    if f.backward_jump {
        classes.push("c08/backward-jump-taken".to_string());
    }
    if f.call_depth2 {
        classes.push("c08/call-depth>=2".to_string());
    }
    if f.label_adjacent_special {
        classes.push("c08/label-adjacent-to-proc-print-or-eof".to_string());
    }
    if f.repeated_call {
        classes.push("c08/same-proc-called-twice".to_string());
    }
    if f.push_call_in_proc {
        classes.push("c08/nested-call-between-push-and-pop".to_string());
    }
    if f.ret_with_sp_above {
        classes.push("c08/ret-with-sp-above-its-value-at-the-call".to_string());
    }
    if f.ret_with_sp_below {
        classes.push("c08/ret-with-sp-below-its-value-at-the-call".to_string());
    }
    if rr.stop == Stop::RetWithoutCall {
        classes.push("c08/ret-without-call-stops-run".to_string());
    }
    if flat.labels.keys().any(|l| flat.procs.contains_key(l)) {
        classes.push("c08/label-shares-a-procedure-name".to_string());
    }
    if uses_vocab_names(prog) {
        classes.push("c08/labels-and-procedures-named-by-vocabulary-words".to_string());
    }
    let nt = f.backward_jump || f.call_depth2 || f.label_adjacent_special || f.repeated_call;
    (L2Verdict::Pass { nontrivial: nt, classes }, rendered.text)
}

/// the reduced token alphabet for the exhaustive small-scope enumeration
fn small_alphabet() -> Vec<Tok> {
    vec![
        Tok { kind: 0, a: 0, b: 0 },  // marker !
        Tok { kind: 0, a: 1, b: 0 },  // marker #
        Tok { kind: 3, a: 1, b: 0 },  // open loop n=2
        Tok { kind: 4, a: 0, b: 0 },  // open jmp-skip
        Tok { kind: 5, a: 5, b: 5 },  // cond skip (cc chosen by a+b)
        Tok { kind: 5, a: 3, b: 9 },  // cond skip, other outcome
        Tok { kind: 6, a: 0, b: 0 },  // close
        Tok { kind: 8, a: 0, b: 0 },  // call p_0
        Tok { kind: 8, a: 1, b: 0 },  // call p_1
        Tok { kind: 9, a: 0, b: 0 },  // extra label
        Tok { kind: 11, a: 0, b: 0 }, // hlt (top level, nothing open)
        Tok { kind: 12, a: 0, b: 0 }, // nop
        Tok { kind: 13, a: 0, b: 0 }, // jmp to the label before the first procedure (when present)
    ]
}

fn small_scope_cfg(toks: Vec<Tok>, variant: usize) -> GenCfg {
    GenCfg {
        toks_pre: if variant % 3 == 1 { vec![Tok { kind: 0, a: 2, b: 0 }] } else { vec![] },
        procs: vec![
            vec![Tok { kind: 0, a: 3, b: 0 }],
            vec![Tok { kind: 8, a: 0, b: 0 }, Tok { kind: 0, a: 4, b: 0 }, Tok { kind: 11, a: 0, b: 0 }, Tok { kind: 0, a: 5, b: 0 }],
        ],
        toks_main: toks,
        start_pos: (variant % 3) as u8,
        label_before_proc: variant % 2 == 0,
        trailing_label: variant % 2 == 1,
        with_prints: false,
        with_data: false,
        max_depth: 3,
        stepping: false,
        vocab: 0,
    }
}

#[derive(Clone, Debug)]
pub struct C8Case {
    pub g: GenCfg,
    pub layout_choices: Vec<u8>,
    pub comments: bool,
    pub pack: bool,
}

pub fn c8_s() -> impl proptest::strategy::Strategy<Value = C8Case> {
    use proptest::prelude::*;
    (gencfg_s(28, 4), proptest::collection::vec(any::<u8>(), 32), any::<bool>(), any::<bool>()).prop_map(|(mut g, layout_choices, comments, pack)| {
        g.with_prints = false;
        C8Case { g, layout_choices, comments, pack }
    })
}

pub fn eval_cli(c: &C8Case) -> CaseOutcome {
    let prog = build_program(&c.g);
    let layout = Layout { choices: c.layout_choices.clone(), comments: c.comments, trailing_newline: true, pack_lines: c.pack };
    let rendered = render_program(&prog, &layout);
    let flat = flatten(&prog);
    let image = data_image(&prog.data);
    let lines: Vec<usize> = vec![0; flat.ops.len()];
    let cfg = RunCfg { interpreted: false, script: &[], lines: &lines, max_steps: 20_000, input_lines: None, buf_fill: None };
    let rr = ref_run(&flat, &image, &cfg, &Quirks::none());
    let exp = crate::c17::blank_lines(&normalise(&rr.events));
    let out = run_cli(rendered.text.as_bytes(), Stdin::Closed, false, 1 << 20, 20_000);
    let replay = json!({"kind":"cli","source":rendered.text,"stdin":"","interpreted":false,"blank_line_numbers":true,
        "expected_events": exp.iter().map(|e| format!("{:?}", e)).collect::<Vec<_>>()});
    if matches!(out.status, Status::Timeout | Status::SpawnError(_)) {
        return CaseOutcome::Inconclusive(format!("{:?}", out.status));
    }
    if !out.clean() {
        return CaseOutcome::Fail { key: "c08|cli|abnormal-exit".into(), what: format!("status {:?} {}", out.status, out.err_str().lines().next().unwrap_or("")), replay };
    }
    let toks = match tokenize(&out.stdout) {
        Ok(t) => crate::c17::blank_lines(&t),
        Err(e) => return CaseOutcome::Fail { key: "c08|cli|unparsable-output".into(), what: e, replay },
    };
    if !events_match(&exp, &toks) {
        return CaseOutcome::Fail { key: "c08|cli|marker-trace".into(), what: crate::c17::first_diff(&exp, &toks), replay };
    }
    let f = features(&prog, &rr.trace, &flat);
    let nt = f.backward_jump || f.call_depth2 || f.label_adjacent_special || f.repeated_call;
    let mut classes = vec!["c08/cli".to_string()];
    if uses_vocab_names(&prog) {
        classes.push("c08/cli/labels-and-procedures-named-by-vocabulary-words".into());
    }
    if f.push_call_in_proc {
        classes.push("c08/cli/nested-call-between-push-and-pop".into());
    }
    if f.ret_with_sp_above {
        classes.push("c08/cli/ret-with-sp-above-its-value-at-the-call".into());
    }
    if f.ret_with_sp_below {
        classes.push("c08/cli/ret-with-sp-below-its-value-at-the-call".into());
    }
    CaseOutcome::Pass { nontrivial: nt, classes, digest: fnv_str(&rendered.text) }
}

/// "for any nesting and any number of calls": recursion to depth n, chains of n distinct procedures, n sequential
/// calls that return, n sequential calls that leave the procedure by a jump (stale return entries pile up)
pub fn deep_program(kind: u8, n: u16) -> Program {
    let i0 = |mn: &'static str, ops: Vec<Opd>| Item::Ins(Insn::new(mn, ops));
    let r = |x: R16| Opd::R16(x);
    let imm = |v: u16| Opd::Imm(v, ImmKind::SW);
    let name = |s: &str| Opd::Name(s.to_string());
    let mut code: Vec<Item> = Vec::new();
    match kind {
        0 => {
            code.push(Item::Proc {
                name: "rec".into(),
                body: vec![
                    i0("cmp", vec![r(R16::CX), imm(0)]),
                    i0("je", vec![name("base")]),
                    i0("add", vec![r(R16::AX), r(R16::CX)]),
                    i0("sub", vec![r(R16::CX), imm(1)]),
                    i0("call", vec![name("rec")]),
                    i0("add", vec![r(R16::BX), imm(1)]),
                    Item::Label("base".into()),
                ],
            });
            code.push(Item::Label("start".into()));
            code.push(i0("mov", vec![r(R16::AX), imm(0)]));
            code.push(i0("mov", vec![r(R16::BX), imm(0)]));
            code.push(i0("mov", vec![r(R16::CX), imm(n)]));
            code.push(i0("call", vec![name("rec")]));
        }
        7 => {
            // the recursive call is the last instruction of the procedure: every return address is the procedure's own
            // implied ret
            code.push(Item::Proc {
                name: "rec".into(),
                body: vec![
                    i0("cmp", vec![r(R16::CX), imm(0)]),
                    i0("je", vec![name("base")]),
                    i0("add", vec![r(R16::AX), r(R16::CX)]),
                    i0("sub", vec![r(R16::CX), imm(1)]),
                    i0("jmp", vec![name("go")]),
                    Item::Label("base".into()),
                    i0("ret", vec![]),
                    Item::Label("go".into()),
                    i0("call", vec![name("rec")]),
                ],
            });
            code.push(Item::Label("start".into()));
            code.push(i0("mov", vec![r(R16::AX), imm(0)]));
            code.push(i0("mov", vec![r(R16::BX), imm(0)]));
            code.push(i0("mov", vec![r(R16::CX), imm(n)]));
            code.push(i0("call", vec![name("rec")]));
        }
        1 => {
            // p_0 is the leaf, p_i calls p_{i-1} and counts the return
            for i in 0..n {
                let mut body = vec![i0("add", vec![r(R16::AX), imm(1)])];
                if i > 0 {
                    body.push(i0("call", vec![name(&format!("p_{}", i - 1))]));
                    body.push(i0("add", vec![r(R16::BX), imm(1)]));
                }
                code.push(Item::Proc { name: format!("p_{}", i), body });
            }
            code.push(Item::Label("start".into()));
            code.push(i0("mov", vec![r(R16::AX), imm(0)]));
            code.push(i0("mov", vec![r(R16::BX), imm(0)]));
            code.push(i0("call", vec![name(&format!("p_{}", n.max(1) - 1))]));
        }
        2 => {
            code.push(Item::Proc { name: "f".into(), body: vec![i0("add", vec![r(R16::AX), imm(3)]), i0("ret", vec![]), i0("add", vec![r(R16::AX), imm(100)])] });
            code.push(Item::Label("start".into()));
            code.push(i0("mov", vec![r(R16::AX), imm(0)]));
            code.push(i0("mov", vec![r(R16::CX), imm(n)]));
            code.push(Item::Label("again".into()));
            code.push(i0("call", vec![name("f")]));
            code.push(i0("add", vec![r(R16::BX), imm(1)]));
            code.push(i0("loop", vec![name("again")]));
        }
        4 | 6 => {
            // labels behind n never-executed instructions (instruction indices beyond 16 bits when n > 65535).  Every jump
            // of these programs is a LOOP with CX = 2, so that they terminate wherever a mis-resolved target leads.
            // kind 4: 'start' itself lies behind the block; kind 6: start first, a forward LOOP over the block
            code.push(Item::Proc { name: "early".into(), body: vec![i0("add", vec![r(R16::BX), imm(7)])] });
            if kind == 4 {
                for _ in 0..n {
                    code.push(i0("mov", vec![r(R16::DX), imm(1)]));
                }
                code.push(Item::Label("start".into()));
                code.push(i0("mov", vec![r(R16::CX), imm(2)]));
                code.push(i0("loop", vec![name("far_label")]));
                code.push(i0("mov", vec![r(R16::SI), imm(9)]));
            } else {
                code.push(Item::Label("start".into()));
                code.push(i0("mov", vec![r(R16::CX), imm(2)]));
                code.push(i0("loop", vec![name("far_label")]));
                for _ in 0..n {
                    code.push(i0("mov", vec![r(R16::DX), imm(1)]));
                }
            }
            code.push(Item::Label("far_label".into()));
            code.push(i0("add", vec![r(R16::AX), imm(5)]));
            code.push(i0("call", vec![name("early")]));
        }
        _ => {
            code.push(Item::Proc { name: "probe".into(), body: vec![i0("add", vec![r(R16::AX), imm(1)]), i0("jmp", vec![name("back")])] });
            code.push(Item::Label("start".into()));
            code.push(i0("mov", vec![r(R16::AX), imm(0)]));
            code.push(i0("mov", vec![r(R16::CX), imm(n)]));
            code.push(Item::Label("again".into()));
            code.push(i0("call", vec![name("probe")]));
            code.push(Item::Label("back".into()));
            code.push(i0("loop", vec![name("again")]));
        }
    }
    code.push(Item::Print(PrintStmt::Reg));
    Program { data: vec![], code }
}

/// every way a program can end: a written hlt / ret-less fall through / jump as the last instruction, followed by zero,
/// one or two labels at the very end of the file that are (or are not) jumped to, 'start' itself last; plain and -i
pub fn eof_programs() -> Vec<(String, Program)> {
    let i0 = |mn: &'static str, ops: Vec<Opd>| Item::Ins(Insn::new(mn, ops));
    let r = |x: R16| Opd::R16(x);
    let imm = |v: u16| Opd::Imm(v, ImmKind::SW);
    let name = |s: &str| Opd::Name(s.to_string());
    let mut v: Vec<(String, Program)> = Vec::new();
    for (lname, last) in [("hlt", Some("hlt")), ("nop", Some("nop")), ("stc", Some("stc")), ("none", None)] {
        for jump in ["jmp", "je", "jne", "loop", "none"] {
            for nlabels in [1usize, 2] {
                let mut code: Vec<Item> = vec![Item::Label("start".into())];
                code.push(i0("mov", vec![r(R16::AX), imm(1)]));
                code.push(i0("mov", vec![r(R16::CX), imm(2)]));
                code.push(i0("cmp", vec![r(R16::AX), imm(1)]));
                if jump != "none" {
                    code.push(i0(jump, vec![name(if nlabels == 2 { "done2" } else { "done" })]));
                }
                code.push(i0("add", vec![r(R16::BX), imm(5)]));
                code.push(Item::Print(PrintStmt::Reg));
                if let Some(l) = last {
                    code.push(i0(l, vec![]));
                }
                code.push(Item::Label("done".into()));
                if nlabels == 2 {
                    code.push(Item::Label("done2".into()));
                }
                v.push((format!("last={} jump={} labels={}", lname, jump, nlabels), Program { data: vec![], code }));
            }
        }
        // 'start' is the last thing in the file, behind dead code that ends in `last`
        let mut code: Vec<Item> = vec![i0("add", vec![r(R16::BX), imm(5)])];
        if let Some(l) = last {
            code.push(i0(l, vec![]));
        }
        code.push(Item::Label("start".into()));
        v.push((format!("last={} start-at-end", lname), Program { data: vec![], code }));
        // a while loop as the whole body of a procedure: the last instruction is an unconditional jump back, the exit
        // label stands directly before the closing brace (one or two labels), so leaving the loop is the implied ret
        for nlabels in [1usize, 2] {
            let mut body: Vec<Item> = vec![
                i0("mov", vec![r(R16::CX), imm(2)]),
                Item::Label("top".into()),
                i0("cmp", vec![r(R16::CX), imm(0)]),
                i0("je", vec![name(if nlabels == 2 { "done2" } else { "done" })]),
                i0("add", vec![r(R16::BX), imm(5)]),
                i0("sub", vec![r(R16::CX), imm(1)]),
                i0("jmp", vec![name("top")]),
                Item::Label("done".into()),
            ];
            if nlabels == 2 {
                body.push(Item::Label("done2".into()));
            }
            let mut code: Vec<Item> = vec![Item::Proc { name: "w".into(), body }, Item::Proc { name: "after_w".into(), body: vec![i0("mov", vec![r(R16::DX), imm(0xDEAD)])] }, Item::Label("start".into())];
            code.push(i0("call", vec![name("w")]));
            code.push(i0("add", vec![r(R16::BX), imm(1)]));
            code.push(Item::Print(PrintStmt::Reg));
            if let Some(l) = last {
                code.push(i0(l, vec![]));
            }
            v.push((format!("last={} while-loop-procedure labels={}", lname, nlabels), Program { data: vec![], code }));
        }
        // a procedure whose call is the last instruction; a label behind it
        let mut code: Vec<Item> = vec![Item::Proc { name: "f".into(), body: vec![i0("add", vec![r(R16::BX), imm(5)])] }, Item::Label("start".into())];
        code.push(i0("call", vec![name("f")]));
        if let Some(l) = last {
            code.push(i0(l, vec![]));
        }
        code.push(i0("jmp", vec![name("tail")]));
        code.push(i0("hlt", vec![]));
        code.push(Item::Label("tail".into()));
        v.push((format!("last={} call-then-jump-to-tail", lname), Program { data: vec![], code }));
    }
    v
}

pub fn eof_family(ctx: &Ctx, owner: &str) {
    let progs = eof_programs();
    let jobs: Vec<(usize, bool)> = (0..progs.len()).flat_map(|i| [(i, false), (i, true)]).collect();
    let outcomes: Vec<CaseOutcome> = jobs
        .par_iter()
        .map(|(i, interpreted)| {
            let (what, prog) = &progs[*i];
            let rendered = render_program(prog, &Layout { choices: vec![0], comments: false, trailing_newline: *i % 2 == 0, pack_lines: false });
            let flat = flatten(prog);
            let image = data_image(&prog.data);
            let lines: Vec<usize> = rendered.flat_offsets.iter().map(|o| rendered.line_of(*o)).collect();
            let script: Vec<PromptCmd> = (0..60).map(|_| PromptCmd::Next("n".into())).collect();
            let cfg = RunCfg { interpreted: *interpreted, script: if *interpreted { &script } else { &[] }, lines: &lines, max_steps: 1000, input_lines: None, buf_fill: None };
            let rr = ref_run(&flat, &image, &cfg, &Quirks::none());
            let exp = normalise(&rr.events);
            let stdin: Vec<u8> = if *interpreted { crate::c17::script_bytes(&script[..rr.stdin_used]) } else { vec![] };
            let out = run_cli(rendered.text.as_bytes(), if stdin.is_empty() { Stdin::Closed } else { Stdin::Data(&stdin) }, *interpreted, 1 << 20, 20_000);
            let replay = json!({"kind":"cli","source":rendered.text,"stdin":String::from_utf8_lossy(&stdin),"interpreted":interpreted,"stdin_closed":stdin.is_empty(),
                "expected_events": exp.iter().map(|e| format!("{:?}", e)).collect::<Vec<_>>()});
            if matches!(out.status, Status::Timeout | Status::SpawnError(_)) {
                return CaseOutcome::Inconclusive(format!("{}: {:?}", what, out.status));
            }
            if !out.clean() {
                return CaseOutcome::Fail { key: format!("{}|eof-shapes|abnormal-exit", owner), what: format!("program ending '{}'{}: status {:?} {}", what, if *interpreted { " (-i)" } else { "" }, out.status, out.err_str().lines().next().unwrap_or("")), replay };
            }
            match tokenize(&out.stdout) {
                Ok(t) if events_match(&exp, &t) => CaseOutcome::Pass { nontrivial: true, classes: vec![format!("{}/eof-shapes", owner)], digest: fnv_str(&rendered.text) ^ *interpreted as u64 },
                Ok(t) => CaseOutcome::Fail { key: format!("{}|eof-shapes|events", owner), what: format!("program ending '{}'{}: {}", what, if *interpreted { " (-i)" } else { "" }, crate::c17::first_diff(&exp, &t)), replay },
                Err(e) => CaseOutcome::Fail { key: format!("{}|eof-shapes|output", owner), what: format!("program ending '{}': {}", what, e.chars().take(200).collect::<String>()), replay },
            }
        })
        .collect();
    for o in outcomes {
        ctx.add_evals(1);
        match o {
            CaseOutcome::Pass { classes, digest, .. } => {
                for c in classes {
                    ctx.class(&c, 1);
                }
                ctx.nontrivial_digest(digest);
            }
            CaseOutcome::Fail { key, what, replay } => ctx.fail(Failure { key, what, replay }),
            CaseOutcome::Inconclusive(w) => ctx.inconclusive(&w),
            CaseOutcome::Known(_) => {}
        }
    }
}

fn deep_family(ctx: &Ctx) {
    let mut ns: Vec<u16> = vec![1, 2, 3, 100, 255, 256, 257, 300, 1000, 4000];
    if ctx.tier == Tier::Thorough {
        ns.extend([20_000u16, 65_535]);
    }
    let mut jobs: Vec<(u8, u16)> = Vec::new();
    for kind in [0u8, 1, 2, 5, 7] {
        for n in &ns {
            if kind == 1 && *n > 1000 {
                continue;
            }
            jobs.push((kind, *n));
        }
    }
    // recursion deeper than a 15-bit count
    jobs.push((0, 40_000));
    // long programs: a label behind n instructions
    for n in [100u16, 40_000, 65_534, 65_535] {
        jobs.push((4, n));
        jobs.push((6, n));
    }
    let outcomes: Vec<((u8, u16), CaseOutcome)> = jobs
        .par_iter()
        .map(|(kind, n)| {
            let prog = deep_program(*kind, *n);
            let rendered = render_program(&prog, &Layout::plain());
            let flat = flatten(&prog);
            let image = data_image(&prog.data);
            let lines: Vec<usize> = vec![0; flat.ops.len()];
            let cfg = RunCfg { interpreted: false, script: &[], lines: &lines, max_steps: 40 * (*n as usize) + 1000, input_lines: None, buf_fill: None };
            let rr = ref_run(&flat, &image, &cfg, &Quirks::none());
            let exp = crate::c17::blank_lines(&normalise(&rr.events));
            let out = run_cli(rendered.text.as_bytes(), Stdin::Closed, false, 1 << 20, 120_000);
            let name = ["recursion", "procedure-chain", "sequential-calls", "calls-left-by-jump", "start-behind-n-instructions", "calls-left-by-jump", "label-behind-n-instructions", "tail-position-recursion"][*kind as usize];
            let replay = json!({"kind":"cli","source":rendered.text,"stdin":"","interpreted":false,"blank_line_numbers":true,
                "expected_events": exp.iter().map(|e| format!("{:?}", e)).collect::<Vec<_>>()});
            let o = if matches!(out.status, Status::Timeout | Status::SpawnError(_)) {
                CaseOutcome::Inconclusive(format!("{} n={}: {:?}", name, n, out.status))
            } else if rr.stop != Stop::Halt {
                CaseOutcome::Inconclusive(format!("{} n={}: reference stopped with {:?}", name, n, rr.stop))
            } else if !out.clean() {
                CaseOutcome::Fail { key: format!("c08|deep|{}|abnormal-exit", name), what: format!("{} n={}: status {:?} {}", name, n, out.status, out.err_str().lines().next().unwrap_or("")), replay }
            } else {
                match tokenize(&out.stdout) {
                    Ok(t) if events_match(&exp, &crate::c17::blank_lines(&t)) => CaseOutcome::Pass { nontrivial: *n >= 100, classes: vec![format!("c08/deep/{}", name)], digest: fnv_str(&rendered.text) },
                    Ok(t) => CaseOutcome::Fail { key: format!("c08|deep|{}|final-state", name), what: format!("{} n={}: {}", name, n, crate::c17::first_diff(&exp, &crate::c17::blank_lines(&t))), replay },
                    Err(e) => CaseOutcome::Fail { key: format!("c08|deep|{}|output", name), what: format!("{} n={}: {}", name, n, e.chars().take(200).collect::<String>()), replay },
                }
            };
            ((*kind, *n), o)
        })
        .collect();
    for (_, o) in outcomes {
        ctx.add_evals(1);
        match o {
            CaseOutcome::Pass { nontrivial, classes, digest } => {
                for c in classes {
                    ctx.class(&c, 1);
                }
                if nontrivial {
                    ctx.nontrivial_digest(digest);
                }
            }
            CaseOutcome::Fail { key, what, replay } => ctx.fail(Failure { key, what, replay }),
            CaseOutcome::Inconclusive(w) => ctx.inconclusive(&w),
            CaseOutcome::Known(_) => {}
        }
    }
    ctx.sample(json!({"kind":"c08-deep","family":"recursion n=300","source": render_program(&deep_program(0, 300), &Layout::plain()).text}));
}

pub fn run(ctx: &Ctx) {
    ctx.set_rule("structured terminating programs (marker blocks = write one character with INT 21h/AH=2, forward jumps, counter-guarded backward jumps via LOOP and SUB/JNZ, conditional skips after CMP, procedures with explicit/early/implied ret calling earlier procedures, labels before/after instructions, before a procedure, at end of file, several in a row, 'start' first / after other code / as the last thing in the file): (1) all main bodies of <= 4 tokens over a 13-symbol alphabet x 6 structural variants enumerated exhaustively; (2) proptest-generated larger programs; L2: real Preprocessor + Interpreter under a transcribed driver loop, executed-instruction index trace, stop reason, marker output, final registers and memory compared with a reference interpreter over the AST; L3: the CLI's stdout compared with the reference marker trace.; one call in three between PUSH and POP, procedure bodies that pop what the caller pushed or leave something behind (return with SP above / below its value at the call), loops counted by a byte in memory Non-trivial = taken backward jump, call depth >= 2, label adjacent to procedure/print/end of file, or a procedure called twice; distinct by source text.");
    ctx.assume("a ret with no active call (label before a procedure, falling into a definition) stops the run with a diagnostic; only the trace up to that point is compared");
    ctx.set_exhaustive(false);
    // (1) exhaustive small scopes
    let alpha = small_alphabet();
    let k = alpha.len();
    let maxlen = ctx.tier.pick(3usize, 4usize);
    let mut seqs: Vec<Vec<usize>> = vec![vec![]];
    let mut frontier: Vec<Vec<usize>> = vec![vec![]];
    for _ in 0..maxlen {
        let mut next = Vec::new();
        for s in &frontier {
            for a in 0..k {
                let mut t = s.clone();
                t.push(a);
                next.push(t);
            }
        }
        seqs.extend(next.iter().cloned());
        frontier = next;
    }
    let variants = 6usize;
    let jobs: Vec<(usize, usize)> = (0..seqs.len()).flat_map(|i| (0..variants).map(move |v| (i, v))).collect();
    let results: Vec<(Local, Vec<Failure>)> = jobs
        .par_chunks(256)
        .map(|chunk| {
            let mut vm = VM::new();
            let mut local = Local::default();
            let mut fails = Vec::new();
            for (si, v) in chunk {
                let toks: Vec<Tok> = seqs[*si].iter().map(|a| alpha[*a].clone()).collect();
                let g = small_scope_cfg(toks, *v);
                let prog = build_program(&g);
                let (verdict, text) = check_l2(&mut vm, &prog, &Layout::plain());
                local.evals += 1;
                match verdict {
                    L2Verdict::Pass { nontrivial, classes } => {
                        if nontrivial {
                            local.nontrivial += 1;
                        }
                        for c in classes {
                            local.class(&c);
                        }
                    }
                    L2Verdict::Rejected(e) => {
                        local.class("c08/rejected");
                        if fails.len() < 2 {
                            fails.push(Failure { key: "c08|l2|generator-rejected".into(), what: format!("generated program rejected by the assembler: {} -- {:?}", e.lines().next().unwrap_or(""), text), replay: json!({"kind":"c08","source":text}) });
                        }
                    }
                    L2Verdict::Fail { aspect, detail } => {
                        if !fails.iter().any(|f| f.key.ends_with(&aspect)) {
                            fails.push(Failure { key: format!("c08|l2|{}", aspect), what: format!("{} -- program {:?}", detail, text), replay: json!({"kind":"c08","gen":gen_to_json(&g)}) });
                        }
                    }
                }
            }
            (local, fails)
        })
        .collect();
    for (l, fails) in results {
        l.merge_into(ctx);
        for f in fails {
            ctx.fail(f);
        }
    }
    ctx.extra("small_scope_programs", json!(jobs.len()));
    // (2) generated larger programs at L2
    let total: u32 = ctx.tier.pick(8_000, 200_000);
    let shards = 16u32;
    let results: Vec<(Local, Option<C8Case>)> = (0..shards)
        .into_par_iter()
        .map(|sh| {
            let vm = std::cell::RefCell::new(VM::new());
            let local = std::cell::RefCell::new(Local::default());
            let r = pt::run(ctx.sub_seed("c08-l2", sh as u64), total / shards, &c8_s(), |c, counting| {
                let prog = build_program(&c.g);
                let layout = Layout { choices: c.layout_choices.clone(), comments: c.comments, trailing_newline: true, pack_lines: c.pack };
                let (v, text) = check_l2(&mut vm.borrow_mut(), &prog, &layout);
                let mut l = local.borrow_mut();
                match v {
                    L2Verdict::Pass { nontrivial, classes } => {
                        if counting {
                            l.evals += 1;
                            for c in classes {
                                l.class(&c);
                            }
                            if nontrivial {
                                l.digests.push(fnv_str(&text));
                            }
                        }
                        Ok(())
                    }
                    L2Verdict::Rejected(e) => Err(format!("generator-rejected|{}", e)),
                    L2Verdict::Fail { aspect, detail } => Err(format!("{}|{}", aspect, detail)),
                }
            });
            (local.into_inner(), r.map(|(c, _)| c))
        })
        .collect();
    for (l, fail) in results {
        l.merge_into(ctx);
        if let Some(c) = fail {
            let prog = build_program(&c.g);
            let layout = Layout { choices: c.layout_choices.clone(), comments: c.comments, trailing_newline: true, pack_lines: c.pack };
            let mut vm = VM::new();
            let (v, text) = check_l2(&mut vm, &prog, &layout);
            match v {
                L2Verdict::Fail { aspect, detail } => ctx.fail(Failure { key: format!("c08|l2|{}", aspect), what: format!("{} -- program {:?}", detail, text), replay: json!({"kind":"c08","gen":gen_to_json(&c.g),"layout":c.layout_choices,"comments":c.comments,"pack":c.pack}) }),
                L2Verdict::Rejected(e) => ctx.fail(Failure { key: "c08|l2|generator-rejected".into(), what: format!("generated program rejected by the assembler: {} -- {:?}", e.lines().next().unwrap_or(""), text), replay: json!({"kind":"c08","gen":gen_to_json(&c.g),"layout":c.layout_choices,"comments":c.comments,"pack":c.pack}) }),
                _ => {}
            }
        }
    }
    // (3) L3
    if cli_available() {
        let n = ctx.tier.pick(400usize, 4_000usize);
        run_cases(ctx, "c08-cli", n, c8_s, eval_cli, |c| json!({"source": render_program(&build_program(&c.g), &Layout { choices: c.layout_choices.clone(), comments: c.comments, trailing_newline: true, pack_lines: c.pack }).text}));
        deep_family(ctx);
        eof_family(ctx, "c08");
    } else {
        ctx.harness_error("CLI binary not built");
    }
    for c in ["c08/backward-jump-taken", "c08/call-depth>=2", "c08/label-adjacent-to-proc-print-or-eof", "c08/same-proc-called-twice", "c08/ret-without-call-stops-run", "c08/label-shares-a-procedure-name", "c08/nested-call-between-push-and-pop", "c08/ret-with-sp-above-its-value-at-the-call", "c08/ret-with-sp-below-its-value-at-the-call"] {
        ctx.require_class(c, 20);
    }
}

pub fn gen_to_json(g: &GenCfg) -> serde_json::Value {
    let t = |v: &Vec<Tok>| v.iter().map(|t| json!([t.kind, t.a, t.b])).collect::<Vec<_>>();
    json!({"pre": t(&g.toks_pre), "procs": g.procs.iter().map(t).collect::<Vec<_>>(), "main": t(&g.toks_main), "start_pos": g.start_pos,
        "label_before_proc": g.label_before_proc, "trailing_label": g.trailing_label, "with_prints": g.with_prints, "with_data": g.with_data, "max_depth": g.max_depth, "stepping": g.stepping, "vocab": g.vocab})
}

pub fn gen_from_json(v: &serde_json::Value) -> GenCfg {
    let t = |x: &serde_json::Value| -> Vec<Tok> {
        x.as_array().map(|a| a.iter().map(|e| Tok { kind: e[0].as_u64().unwrap_or(0) as u8, a: e[1].as_u64().unwrap_or(0) as u8, b: e[2].as_u64().unwrap_or(0) as u8 }).collect()).unwrap_or_default()
    };
    GenCfg {
        toks_pre: t(&v["pre"]),
        procs: v["procs"].as_array().map(|a| a.iter().map(t).collect()).unwrap_or_default(),
        toks_main: t(&v["main"]),
        start_pos: v["start_pos"].as_u64().unwrap_or(0) as u8,
        label_before_proc: v["label_before_proc"].as_bool().unwrap_or(false),
        trailing_label: v["trailing_label"].as_bool().unwrap_or(false),
        with_prints: v["with_prints"].as_bool().unwrap_or(false),
        with_data: v["with_data"].as_bool().unwrap_or(false),
        max_depth: v["max_depth"].as_u64().unwrap_or(3) as u8,
        stepping: v["stepping"].as_bool().unwrap_or(false),
        vocab: v["vocab"].as_u64().unwrap_or(0) as u8,
    }
}

pub fn replay(v: &serde_json::Value) -> Result<String, String> {
    if v.get("gen").is_none() {
        return Err("replay file has no generator description".into());
    }
    let g = gen_from_json(&v["gen"]);
    let prog = build_program(&g);
    let layout = Layout {
        choices: v["layout"].as_array().map(|a| a.iter().map(|x| x.as_u64().unwrap_or(0) as u8).collect()).unwrap_or(vec![0]),
        comments: v["comments"].as_bool().unwrap_or(false),
        trailing_newline: true,
        pack_lines: v["pack"].as_bool().unwrap_or(false),
    };
    let mut vm = VM::new();
    let (verdict, text) = check_l2(&mut vm, &prog, &layout);
    match verdict {
        L2Verdict::Pass { .. } => Ok(format!("program {:?}: trace, stop reason, markers and final state agree with the reference", text)),
        L2Verdict::Rejected(e) => Err(format!("program {:?} rejected: {}", text, e)),
        L2Verdict::Fail { aspect, detail } => Err(format!("program {:?}: {}: {}", text, aspect, detail)),
    }
}
