//! Assembly front end shared by the source-level checks: AST, renderer (with spelling
//! choices and recorded token positions) and proptest strategies for instructions.
#![allow(dead_code)]
use proptest::prelude::*;
use serde_json::{json, Value};

#[derive(Clone, Copy, PartialEq, Eq, Debug, Hash, PartialOrd, Ord)]
pub enum R8 {
    AL,
    AH,
    BL,
    BH,
    CL,
    CH,
    DL,
    DH,
}
pub const R8S: [R8; 8] = [R8::AL, R8::AH, R8::BL, R8::BH, R8::CL, R8::CH, R8::DL, R8::DH];
impl R8 {
    pub fn name(self) -> &'static str {
        ["al", "ah", "bl", "bh", "cl", "ch", "dl", "dh"][self as usize]
    }
    /// (index of the 16-bit register in emu::Regs, is high half)
    pub fn parent(self) -> (usize, bool) {
        match self {
            R8::AL => (0, false),
            R8::AH => (0, true),
            R8::BL => (1, false),
            R8::BH => (1, true),
            R8::CL => (2, false),
            R8::CH => (2, true),
            R8::DL => (3, false),
            R8::DH => (3, true),
        }
    }
}

#[derive(Clone, Copy, PartialEq, Eq, Debug, Hash, PartialOrd, Ord)]
pub enum R16 {
    AX,
    BX,
    CX,
    DX,
    SP,
    BP,
    SI,
    DI,
}
pub const R16S: [R16; 8] = [R16::AX, R16::BX, R16::CX, R16::DX, R16::SP, R16::BP, R16::SI, R16::DI];
impl R16 {
    pub fn name(self) -> &'static str {
        ["ax", "bx", "cx", "dx", "sp", "bp", "si", "di"][self as usize]
    }
    pub fn idx(self) -> usize {
        self as usize
    }
}

#[derive(Clone, Copy, PartialEq, Eq, Debug, Hash, PartialOrd, Ord)]
pub enum Seg {
    ES,
    DS,
    SS,
    CS,
}
pub const SEGS: [Seg; 4] = [Seg::ES, Seg::DS, Seg::SS, Seg::CS];
impl Seg {
    pub fn name(self) -> &'static str {
        ["es", "ds", "ss", "cs"][self as usize]
    }
    pub fn idx(self) -> usize {
        match self {
            Seg::ES => crate::emu::ES,
            Seg::DS => crate::emu::DS,
            Seg::SS => crate::emu::SS,
            Seg::CS => crate::emu::CS,
        }
    }
}

#[derive(Clone, Copy, PartialEq, Eq, Debug, Hash)]
pub enum Shape {
    Direct(u16),
    /// register indirect through bx/bp/si/di
    Ind(R16),
    /// [bx|bp , disp]
    Based(R16, i32),
    /// [si|di , disp]
    Indexed(R16, i32),
    /// [bx|bp , si|di (, disp)]
    BasedIdx(R16, R16, Option<i32>),
}

#[derive(Clone, Copy, PartialEq, Eq, Debug, Hash)]
pub struct Mem {
    pub seg: Option<Seg>,
    pub shape: Shape,
}

impl Mem {
    pub fn shape_name(&self) -> &'static str {
        match self.shape {
            Shape::Direct(_) => "direct",
            Shape::Ind(_) => "indirect",
            Shape::Based(..) => "based",
            Shape::Indexed(..) => "indexed",
            Shape::BasedIdx(..) => "based-indexed",
        }
    }
    pub fn uses_bp(&self) -> bool {
        match self.shape {
            Shape::Ind(r) | Shape::Based(r, _) | Shape::BasedIdx(r, _, _) => r == R16::BP,
            _ => false,
        }
    }
    pub fn disp(&self) -> Option<i32> {
        match self.shape {
            Shape::Based(_, d) | Shape::Indexed(_, d) => Some(d),
            Shape::BasedIdx(_, _, d) => d,
            _ => None,
        }
    }
}

#[derive(Clone, Copy, PartialEq, Eq, Debug, Hash, PartialOrd, Ord)]
pub enum W {
    B,
    W,
}
impl W {
    pub fn bits(self) -> u32 {
        match self {
            W::B => 8,
            W::W => 16,
        }
    }
    pub fn kw(self) -> &'static str {
        match self {
            W::B => "byte",
            W::W => "word",
        }
    }
}

/// how an immediate may be written in this position
#[derive(Clone, Copy, PartialEq, Eq, Debug, Hash)]
pub enum ImmKind {
    /// signed-or-unsigned byte (s_byte_num)
    SB,
    /// signed-or-unsigned word (s_word_num)
    SW,
    /// unsigned byte (u_byte_num)
    UB,
    /// unsigned word (u_word_num)
    UW,
}

#[derive(Clone, PartialEq, Eq, Debug, Hash)]
pub enum Opd {
    R8(R8),
    R16(R16),
    Sr(Seg),
    /// bit pattern (masked to the width of the kind)
    Imm(u16, ImmKind),
    Mem(W, Mem),
    /// data label with width keyword
    Lab(W, String),
    /// code label / procedure name
    Name(String),
    /// the keyword byte/word alone (string instructions)
    Wd(W),
}

#[derive(Clone, PartialEq, Eq, Debug, Hash)]
pub struct Insn {
    /// optional repeat prefix as written in the source, lower case (rep, repe, repz, repne, repnz)
    pub prefix: Option<&'static str>,
    /// mnemonic as written in the source, lower case (synonyms kept: shl, jnbe, loopz ...)
    pub mn: &'static str,
    pub ops: Vec<Opd>,
}

impl Insn {
    pub fn new(mn: &'static str, ops: Vec<Opd>) -> Insn {
        Insn { prefix: None, mn, ops }
    }
    pub fn mem_operand(&self) -> Option<(W, Mem)> {
        for o in &self.ops {
            if let Opd::Mem(w, m) = o {
                return Some((*w, *m));
            }
        }
        None
    }
    pub fn label_operand(&self) -> Option<(W, &str)> {
        for o in &self.ops {
            if let Opd::Lab(w, n) = o {
                return Some((*w, n.as_str()));
            }
        }
        None
    }
    /// operand-form name for the class histogram
    pub fn form(&self) -> String {
        let mut s = String::new();
        for (i, o) in self.ops.iter().enumerate() {
            if i > 0 {
                s.push(',');
            }
            s.push_str(match o {
                Opd::R8(_) => "r8",
                Opd::R16(_) => "r16",
                Opd::Sr(_) => "sreg",
                Opd::Imm(_, _) => "imm",
                Opd::Mem(W::B, _) => "m8",
                Opd::Mem(W::W, _) => "m16",
                Opd::Lab(W::B, _) => "l8",
                Opd::Lab(W::W, _) => "l16",
                Opd::Name(_) => "name",
                Opd::Wd(W::B) => "byte",
                Opd::Wd(W::W) => "word",
            });
        }
        s
    }
    pub fn to_json(&self) -> Value {
        json!(canonical(self))
    }
}

/// canonical lower-case, single-space rendering (for messages and replay files)
pub fn canonical(i: &Insn) -> String {
    let mut ch = Choices::fixed();
    render_insn(i, &mut ch, &[])
}

/// stream of spelling choices; all zero = lower case, decimal, single blanks
#[derive(Clone, Debug)]
pub struct Choices {
    pub bytes: Vec<u8>,
    pub pos: usize,
    /// statistics about the choices actually taken
    pub n_upper: u32,
    pub n_radix: u32,
    pub n_sep: u32,
}

impl Choices {
    pub fn fixed() -> Choices {
        Choices { bytes: vec![], pos: 0, n_upper: 0, n_radix: 0, n_sep: 0 }
    }
    pub fn new(bytes: Vec<u8>) -> Choices {
        Choices { bytes, pos: 0, n_upper: 0, n_radix: 0, n_sep: 0 }
    }
    pub fn next(&mut self) -> u8 {
        if self.bytes.is_empty() {
            return 0;
        }
        let b = self.bytes[self.pos % self.bytes.len()];
        self.pos += 1;
        b
    }
}

/// keyword in upper or lower case
fn kw(s: &str, ch: &mut Choices) -> String {
    if ch.next() & 1 == 1 {
        ch.n_upper += 1;
        s.to_uppercase()
    } else {
        s.to_string()
    }
}

/// mandatory separator between two word-like tokens
fn sep1(ch: &mut Choices) -> String {
    let c = ch.next();
    match c % 16 {
        0..=9 => " ".to_string(),
        10 => {
            ch.n_sep += 1;
            "\t".to_string()
        }
        11 => {
            ch.n_sep += 1;
            "  ".to_string()
        }
        12 => {
            ch.n_sep += 1;
            " \t ".to_string()
        }
        13 => {
            ch.n_sep += 1;
            "\n".to_string()
        }
        14 => {
            ch.n_sep += 1;
            "\r\n".to_string()
        }
        _ => {
            ch.n_sep += 1;
            "\n\t".to_string()
        }
    }
}

/// optional separator around punctuation
fn sep0(ch: &mut Choices) -> String {
    let c = ch.next();
    match c % 8 {
        0..=3 => String::new(),
        4 => " ".to_string(),
        5 => {
            ch.n_sep += 1;
            "\t".to_string()
        }
        6 => {
            ch.n_sep += 1;
            "  ".to_string()
        }
        _ => {
            ch.n_sep += 1;
            "\n".to_string()
        }
    }
}

/// (label name, offset) pairs usable for `offset label` spellings
pub type OffsetLabels<'a> = &'a [(String, u16)];

pub fn render_unsigned(v: u32, ch: &mut Choices, labels: OffsetLabels) -> String {
    let c = ch.next();
    match c % 8 {
        0..=2 => format!("{}", v),
        // one hexadecimal / binary constant in four is zero-padded beyond the width of its operand
        3 => {
            ch.n_radix += 1;
            if ch.next() % 4 == 0 {
                format!("0x000{:x}", v)
            } else {
                format!("0x{:x}", v)
            }
        }
        4 => {
            ch.n_radix += 1;
            if ch.next() % 4 == 0 {
                format!("0X00{:X}", v)
            } else {
                format!("0X{:X}", v)
            }
        }
        5 => {
            ch.n_radix += 1;
            let pad = if ch.next() % 4 == 0 { "000" } else { "" };
            if ch.next() & 1 == 1 {
                format!("0b{}{:b}", pad, v)
            } else {
                format!("0B{}{:b}", pad, v)
            }
        }
        6 => {
            // OFFSET of a label with that offset, if one exists
            if let Some((n, _)) = labels.iter().find(|(_, o)| *o as u32 == v) {
                ch.n_radix += 1;
                format!("{}{}{}", kw("offset", ch), sep1(ch), n)
            } else {
                format!("{}", v)
            }
        }
        _ => {
            ch.n_radix += 1;
            format!("00{}", v)
        }
    }
}

pub fn render_imm(v: u16, k: ImmKind, ch: &mut Choices, labels: OffsetLabels) -> String {
    match k {
        ImmKind::UB => render_unsigned((v & 0xFF) as u32, ch, labels),
        ImmKind::UW => render_unsigned(v as u32, ch, labels),
        ImmKind::SB => {
            let v = v & 0xFF;
            if (v >= 0x80 || v == 0) && ch.next() % 3 == 0 {
                ch.n_radix += 1;
                if v == 0 {
                    "-0".to_string()
                } else {
                    format!("{}", v as i32 - 256)
                }
            } else {
                render_unsigned(v as u32, ch, labels)
            }
        }
        ImmKind::SW => {
            if (v >= 0x8000 || v == 0) && ch.next() % 3 == 0 {
                ch.n_radix += 1;
                if v == 0 {
                    "-0".to_string()
                } else {
                    format!("{}", v as i32 - 65536)
                }
            } else {
                render_unsigned(v as u32, ch, labels)
            }
        }
    }
}

/// displacement as written: -32768..=65535
fn render_disp(d: i32, ch: &mut Choices, labels: OffsetLabels) -> String {
    if d < 0 {
        format!("{}", d)
    } else {
        render_unsigned(d as u32, ch, labels)
    }
}

pub fn render_mem(m: &Mem, ch: &mut Choices, labels: OffsetLabels) -> String {
    let mut s = String::new();
    if let Some(sr) = m.seg {
        s.push_str(&kw(sr.name(), ch));
        s.push_str(&sep0(ch));
    }
    s.push('[');
    s.push_str(&sep0(ch));
    match m.shape {
        Shape::Direct(n) => s.push_str(&render_unsigned(n as u32, ch, labels)),
        Shape::Ind(r) => s.push_str(&kw(r.name(), ch)),
        Shape::Based(r, d) | Shape::Indexed(r, d) => {
            s.push_str(&kw(r.name(), ch));
            s.push_str(&sep0(ch));
            s.push(',');
            s.push_str(&sep0(ch));
            s.push_str(&render_disp(d, ch, labels));
        }
        Shape::BasedIdx(b, i, d) => {
            s.push_str(&kw(b.name(), ch));
            s.push_str(&sep0(ch));
            s.push(',');
            s.push_str(&sep0(ch));
            s.push_str(&kw(i.name(), ch));
            if let Some(d) = d {
                s.push_str(&sep0(ch));
                s.push(',');
                s.push_str(&sep0(ch));
                s.push_str(&render_disp(d, ch, labels));
            }
        }
    }
    s.push_str(&sep0(ch));
    s.push(']');
    s
}

pub fn render_opd(o: &Opd, ch: &mut Choices, labels: OffsetLabels) -> String {
    match o {
        Opd::R8(r) => kw(r.name(), ch),
        Opd::R16(r) => kw(r.name(), ch),
        Opd::Sr(s) => kw(s.name(), ch),
        Opd::Imm(v, k) => render_imm(*v, *k, ch, labels),
        Opd::Mem(w, m) => {
            let mut s = kw(w.kw(), ch);
            // a segment override is a word-like token: needs a separator; '[' does not
            if m.seg.is_some() {
                s.push_str(&sep1(ch));
            } else {
                s.push_str(&sep0(ch));
            }
            s.push_str(&render_mem(m, ch, labels));
            s
        }
        Opd::Lab(w, n) => format!("{}{}{}", kw(w.kw(), ch), sep1(ch), n),
        Opd::Name(n) => n.clone(),
        Opd::Wd(w) => kw(w.kw(), ch),
    }
}

pub fn render_insn(i: &Insn, ch: &mut Choices, labels: OffsetLabels) -> String {
    let mut s = String::new();
    if let Some(p) = i.prefix {
        s.push_str(&kw(p, ch));
        s.push_str(&sep1(ch));
    }
    s.push_str(&kw(i.mn, ch));
    for (k, o) in i.ops.iter().enumerate() {
        if k == 0 {
            s.push_str(&sep1(ch));
        } else {
            s.push_str(&sep0(ch));
            s.push(',');
            s.push_str(&sep0(ch));
        }
        s.push_str(&render_opd(o, ch, labels));
    }
    s
}

// ------------------------------------------------------------------ strategies

pub fn r8s() -> BoxedStrategy<R8> {
    proptest::sample::select(R8S.to_vec()).boxed()
}
pub fn r16s() -> BoxedStrategy<R16> {
    proptest::sample::select(R16S.to_vec()).boxed()
}
pub fn segs() -> BoxedStrategy<Seg> {
    proptest::sample::select(SEGS.to_vec()).boxed()
}
pub fn disp_s() -> BoxedStrategy<i32> {
    prop_oneof![
        2 => proptest::sample::select(vec![0i32, 1, 2, -1, -2, 0x7FFF, -0x8000, 0x8000, 0xFFFF, 0xFFFE, 255, 256, -255, -256]),
        1 => -0x8000i32..=0xFFFF,
        1 => -64i32..=64,
    ]
    .boxed()
}
pub fn shape_s() -> BoxedStrategy<Shape> {
    let base = proptest::sample::select(vec![R16::BX, R16::BP]);
    let idx = proptest::sample::select(vec![R16::SI, R16::DI]);
    let any4 = proptest::sample::select(vec![R16::BX, R16::BP, R16::SI, R16::DI]);
    prop_oneof![
        crate::pt::u16s().prop_map(Shape::Direct),
        any4.prop_map(Shape::Ind),
        (base.clone(), disp_s()).prop_map(|(b, d)| Shape::Based(b, d)),
        (idx.clone(), disp_s()).prop_map(|(i, d)| Shape::Indexed(i, d)),
        (base, idx, proptest::option::weighted(0.7, disp_s())).prop_map(|(b, i, d)| Shape::BasedIdx(b, i, d)),
    ]
    .boxed()
}
pub fn mem_s() -> BoxedStrategy<Mem> {
    (proptest::option::weighted(0.5, segs()), shape_s())
        .prop_map(|(seg, shape)| Mem { seg, shape })
        .boxed()
}

/// name of the data label used by single-instruction programs
pub const LBL: &str = "v_1";

fn imm_for(w: W, signed: bool) -> BoxedStrategy<Opd> {
    match (w, signed) {
        (W::B, true) => crate::pt::u8s().prop_map(|v| Opd::Imm(v as u16, ImmKind::SB)).boxed(),
        (W::B, false) => crate::pt::u8s().prop_map(|v| Opd::Imm(v as u16, ImmKind::UB)).boxed(),
        (W::W, true) => crate::pt::u16s().prop_map(|v| Opd::Imm(v, ImmKind::SW)).boxed(),
        (W::W, false) => crate::pt::u16s().prop_map(|v| Opd::Imm(v, ImmKind::UW)).boxed(),
    }
}

fn reg_for(w: W) -> BoxedStrategy<Opd> {
    match w {
        W::B => r8s().prop_map(Opd::R8).boxed(),
        W::W => r16s().prop_map(Opd::R16).boxed(),
    }
}
fn mem_for(w: W) -> BoxedStrategy<Opd> {
    mem_s().prop_map(move |m| Opd::Mem(w, m)).boxed()
}
fn lab_for(w: W) -> BoxedStrategy<Opd> {
    Just(Opd::Lab(w, LBL.to_string())).boxed()
}
fn ws() -> BoxedStrategy<W> {
    proptest::sample::select(vec![W::B, W::W]).boxed()
}

/// the 16 two-operand forms of syntax.md (binary arithmetic with signed immediates,
/// binary logic with unsigned immediates)
pub fn two_operand_forms(mns: Vec<&'static str>, signed_imm: bool) -> BoxedStrategy<Insn> {
    let mn = proptest::sample::select(mns);
    (mn, ws(), 0usize..8)
        .prop_flat_map(move |(mn, w, form)| {
            let (d, s): (BoxedStrategy<Opd>, BoxedStrategy<Opd>) = match form {
                0 => (reg_for(w), reg_for(w)),
                1 => (reg_for(w), mem_for(w)),
                2 => (reg_for(w), lab_for(w)),
                3 => (mem_for(w), reg_for(w)),
                4 => (lab_for(w), reg_for(w)),
                5 => (reg_for(w), imm_for(w, signed_imm)),
                6 => (mem_for(w), imm_for(w, signed_imm)),
                _ => (lab_for(w), imm_for(w, signed_imm)),
            };
            (Just(mn), d, s).prop_map(|(mn, d, s)| Insn::new(mn, vec![d, s]))
        })
        .boxed()
}

/// the unary forms: reg / mem / label x width
pub fn one_operand_forms(mns: Vec<&'static str>) -> BoxedStrategy<Insn> {
    let mn = proptest::sample::select(mns);
    (mn, ws(), 0usize..3)
        .prop_flat_map(|(mn, w, form)| {
            let o = match form {
                0 => reg_for(w),
                1 => mem_for(w),
                _ => lab_for(w),
            };
            (Just(mn), o).prop_map(|(mn, o)| Insn::new(mn, vec![o]))
        })
        .boxed()
}

/// the 12 shift/rotate forms
pub fn shift_forms() -> BoxedStrategy<Insn> {
    let mn = proptest::sample::select(vec!["sal", "shl", "sar", "shr", "rol", "ror", "rcl", "rcr"]);
    let count = prop_oneof![
        3 => proptest::sample::select(vec![0u8, 1, 2, 7, 8, 9, 15, 16, 17, 18, 31, 32, 33, 63, 64, 255]),
        2 => any::<u8>(),
    ];
    (mn, ws(), 0usize..3, any::<bool>(), count)
        .prop_flat_map(|(mn, w, form, cl, n)| {
            let o = match form {
                0 => reg_for(w),
                1 => mem_for(w),
                _ => lab_for(w),
            };
            let c = if cl { Opd::R8(R8::CL) } else { Opd::Imm(n as u16, ImmKind::UB) };
            (Just(mn), o, Just(c)).prop_map(|(mn, o, c)| Insn::new(mn, vec![o, c]))
        })
        .boxed()
}

pub fn singleton(mns: Vec<&'static str>) -> BoxedStrategy<Insn> {
    proptest::sample::select(mns).prop_map(|mn| Insn::new(mn, vec![])).boxed()
}

/// the 22 MOV forms of syntax.md
pub fn mov_forms() -> BoxedStrategy<Insn> {
    (0usize..14, ws())
        .prop_flat_map(|(form, w)| {
            let (d, s): (BoxedStrategy<Opd>, BoxedStrategy<Opd>) = match form {
                0 => (reg_for(w), reg_for(w)),
                1 => (reg_for(w), mem_for(w)),
                2 => (reg_for(w), lab_for(w)),
                3 => (mem_for(w), reg_for(w)),
                4 => (lab_for(w), reg_for(w)),
                5 => (reg_for(w), imm_for(w, true)),
                6 => (mem_for(w), imm_for(w, true)),
                7 => (lab_for(w), imm_for(w, true)),
                8 => (segs().prop_map(Opd::Sr).boxed(), reg_for(W::W)),
                9 => (reg_for(W::W), segs().prop_map(Opd::Sr).boxed()),
                10 => (segs().prop_map(Opd::Sr).boxed(), mem_for(W::W)),
                11 => (segs().prop_map(Opd::Sr).boxed(), lab_for(W::W)),
                12 => (mem_for(W::W), segs().prop_map(Opd::Sr).boxed()),
                _ => (lab_for(W::W), segs().prop_map(Opd::Sr).boxed()),
            };
            (d, s).prop_map(|(d, s)| Insn::new("mov", vec![d, s]))
        })
        .boxed()
}

/// the 10 XCHG forms
pub fn xchg_forms() -> BoxedStrategy<Insn> {
    (0usize..5, ws())
        .prop_flat_map(|(form, w)| {
            let (d, s): (BoxedStrategy<Opd>, BoxedStrategy<Opd>) = match form {
                0 => (reg_for(w), reg_for(w)),
                1 => (mem_for(w), reg_for(w)),
                2 => (reg_for(w), mem_for(w)),
                3 => (lab_for(w), reg_for(w)),
                _ => (reg_for(w), lab_for(w)),
            };
            (d, s).prop_map(|(d, s)| Insn::new("xchg", vec![d, s]))
        })
        .boxed()
}

pub fn push_pop_forms() -> BoxedStrategy<Insn> {
    let popseg = proptest::sample::select(vec![Seg::ES, Seg::DS, Seg::SS]);
    prop_oneof![
        r16s().prop_map(|r| Insn::new("push", vec![Opd::R16(r)])),
        segs().prop_map(|s| Insn::new("push", vec![Opd::Sr(s)])),
        mem_s().prop_map(|m| Insn::new("push", vec![Opd::Mem(W::W, m)])),
        Just(Insn::new("push", vec![Opd::Lab(W::W, LBL.to_string())])),
        r16s().prop_map(|r| Insn::new("pop", vec![Opd::R16(r)])),
        popseg.prop_map(|s| Insn::new("pop", vec![Opd::Sr(s)])),
        mem_s().prop_map(|m| Insn::new("pop", vec![Opd::Mem(W::W, m)])),
        Just(Insn::new("pop", vec![Opd::Lab(W::W, LBL.to_string())])),
        Just(Insn::new("pushf", vec![])),
        Just(Insn::new("popf", vec![])),
    ]
    .boxed()
}

pub fn lea_forms() -> BoxedStrategy<Insn> {
    prop_oneof![
        4 => (r16s(), mem_s()).prop_map(|(r, m)| Insn::new("lea", vec![Opd::R16(r), Opd::Mem(W::W, m)])),
        1 => r16s().prop_map(|r| Insn::new("lea", vec![Opd::R16(r), Opd::Lab(W::W, LBL.to_string())])),
    ]
    .boxed()
}

pub fn string_forms() -> BoxedStrategy<Insn> {
    let plain = (proptest::sample::select(vec!["movs", "lods", "stos", "cmps", "scas"]), ws())
        .prop_map(|(mn, w)| Insn::new(mn, vec![Opd::Wd(w)]));
    let rep = (proptest::sample::select(vec!["movs", "lods", "stos"]), ws())
        .prop_map(|(mn, w)| Insn { prefix: Some("rep"), mn, ops: vec![Opd::Wd(w)] });
    let repc = (
        proptest::sample::select(vec!["repe", "repz", "repne", "repnz"]),
        proptest::sample::select(vec!["cmps", "scas"]),
        ws(),
    )
        .prop_map(|(p, mn, w)| Insn { prefix: Some(p), mn, ops: vec![Opd::Wd(w)] });
    prop_oneof![2 => plain, 2 => rep, 3 => repc].boxed()
}

pub fn flagctl_forms() -> BoxedStrategy<Insn> {
    singleton(vec!["stc", "clc", "cmc", "std", "cld", "sti", "cli"])
}

pub fn choices_s(n: usize) -> BoxedStrategy<Vec<u8>> {
    prop_oneof![
        1 => Just(vec![0u8]),
        4 => proptest::collection::vec(any::<u8>(), n..=n),
    ]
    .boxed()
}

// ------------------------------------------------------------------ (de)serialisation

fn leak(s: &str) -> &'static str {
    Box::leak(s.to_string().into_boxed_str())
}

pub fn opd_to_json(o: &Opd) -> Value {
    match o {
        Opd::R8(r) => json!({"t":"r8","v":r.name()}),
        Opd::R16(r) => json!({"t":"r16","v":r.name()}),
        Opd::Sr(s) => json!({"t":"sr","v":s.name()}),
        Opd::Imm(v, k) => json!({"t":"imm","v":v,"k":format!("{:?}", k)}),
        Opd::Mem(w, m) => {
            let (sh, a, b, d): (&str, &str, &str, Value) = match m.shape {
                Shape::Direct(n) => ("direct", "", "", json!(n)),
                Shape::Ind(r) => ("ind", r.name(), "", Value::Null),
                Shape::Based(r, d) => ("based", r.name(), "", json!(d)),
                Shape::Indexed(r, d) => ("indexed", r.name(), "", json!(d)),
                Shape::BasedIdx(b, i, d) => ("basedidx", b.name(), i.name(), match d { Some(d) => json!(d), None => Value::Null }),
            };
            json!({"t":"mem","w":w.kw(),"seg":m.seg.map(|s| s.name()),"shape":sh,"a":a,"b":b,"d":d})
        }
        Opd::Lab(w, n) => json!({"t":"lab","w":w.kw(),"v":n}),
        Opd::Name(n) => json!({"t":"name","v":n}),
        Opd::Wd(w) => json!({"t":"wd","w":w.kw()}),
    }
}

fn r16_by_name(n: &str) -> R16 {
    R16S.iter().copied().find(|r| r.name() == n).unwrap_or(R16::AX)
}
fn w_by_name(n: &str) -> W {
    if n == "byte" { W::B } else { W::W }
}

pub fn opd_from_json(v: &Value) -> Opd {
    let t = v["t"].as_str().unwrap_or("");
    let s = |k: &str| v[k].as_str().unwrap_or("").to_string();
    match t {
        "r8" => Opd::R8(R8S.iter().copied().find(|r| r.name() == s("v")).unwrap_or(R8::AL)),
        "r16" => Opd::R16(r16_by_name(&s("v"))),
        "sr" => Opd::Sr(SEGS.iter().copied().find(|x| x.name() == s("v")).unwrap_or(Seg::DS)),
        "imm" => {
            let k = match s("k").as_str() { "SB" => ImmKind::SB, "SW" => ImmKind::SW, "UB" => ImmKind::UB, _ => ImmKind::UW };
            Opd::Imm(v["v"].as_u64().unwrap_or(0) as u16, k)
        }
        "mem" => {
            let seg = v["seg"].as_str().and_then(|n| SEGS.iter().copied().find(|x| x.name() == n));
            let d = v["d"].as_i64();
            let shape = match s("shape").as_str() {
                "direct" => Shape::Direct(d.unwrap_or(0) as u16),
                "ind" => Shape::Ind(r16_by_name(&s("a"))),
                "based" => Shape::Based(r16_by_name(&s("a")), d.unwrap_or(0) as i32),
                "indexed" => Shape::Indexed(r16_by_name(&s("a")), d.unwrap_or(0) as i32),
                _ => Shape::BasedIdx(r16_by_name(&s("a")), r16_by_name(&s("b")), d.map(|x| x as i32)),
            };
            Opd::Mem(w_by_name(&s("w")), Mem { seg, shape })
        }
        "lab" => Opd::Lab(w_by_name(&s("w")), s("v")),
        "name" => Opd::Name(s("v")),
        _ => Opd::Wd(w_by_name(&s("w"))),
    }
}

pub fn insn_to_json(i: &Insn) -> Value {
    json!({"prefix": i.prefix, "mn": i.mn, "ops": i.ops.iter().map(opd_to_json).collect::<Vec<_>>(), "text": canonical(i)})
}

pub fn insn_from_json(v: &Value) -> Insn {
    Insn {
        prefix: v["prefix"].as_str().map(leak),
        mn: leak(v["mn"].as_str().unwrap_or("nop")),
        ops: v["ops"].as_array().map(|a| a.iter().map(opd_from_json).collect()).unwrap_or_default(),
    }
}

// ------------------------------------------------------------------ shape enumeration

fn rep_mems() -> Vec<Mem> {
    let shapes = vec![
        Shape::Direct(5),
        Shape::Direct(0xFFFF),
        Shape::Ind(R16::BX),
        Shape::Ind(R16::BP),
        Shape::Ind(R16::SI),
        Shape::Ind(R16::DI),
        Shape::Based(R16::BX, 3),
        Shape::Based(R16::BP, -2),
        Shape::Based(R16::BX, 0xFFFF),
        Shape::Indexed(R16::SI, 1),
        Shape::Indexed(R16::DI, -32768),
        Shape::BasedIdx(R16::BX, R16::SI, None),
        Shape::BasedIdx(R16::BP, R16::DI, Some(4)),
        Shape::BasedIdx(R16::BX, R16::DI, Some(-7)),
        Shape::BasedIdx(R16::BP, R16::SI, None),
    ];
    let mut v = Vec::new();
    for s in shapes {
        v.push(Mem { seg: None, shape: s });
        for sg in SEGS {
            v.push(Mem { seg: Some(sg), shape: s });
        }
    }
    v
}

fn rep_regs(w: W, many: bool) -> Vec<Opd> {
    match (w, many) {
        (W::B, true) => R8S.iter().map(|r| Opd::R8(*r)).collect(),
        (W::B, false) => vec![Opd::R8(R8::AL), Opd::R8(R8::CH)],
        (W::W, true) => R16S.iter().map(|r| Opd::R16(*r)).collect(),
        (W::W, false) => vec![Opd::R16(R16::AX), Opd::R16(R16::BP), Opd::R16(R16::SI)],
    }
}

fn rep_imms(w: W, signed: bool) -> Vec<Opd> {
    match (w, signed) {
        (W::B, true) => [0u16, 1, 0x7F, 0x80, 0xFF].iter().map(|v| Opd::Imm(*v, ImmKind::SB)).collect(),
        (W::B, false) => [0u16, 1, 0x80, 0xFF].iter().map(|v| Opd::Imm(*v, ImmKind::UB)).collect(),
        (W::W, true) => [0u16, 1, 0x7FFF, 0x8000, 0xFFFF].iter().map(|v| Opd::Imm(*v, ImmKind::SW)).collect(),
        (W::W, false) => [0u16, 1, 0x8000, 0xFFFF].iter().map(|v| Opd::Imm(*v, ImmKind::UW)).collect(),
    }
}

fn two_op_shapes(mn: &'static str, signed: bool, out: &mut Vec<Insn>) {
    for w in [W::B, W::W] {
        let regs_many = rep_regs(w, true);
        let regs_few = rep_regs(w, false);
        let lab = Opd::Lab(w, LBL.to_string());
        for a in &regs_few {
            for b in &regs_many {
                out.push(Insn::new(mn, vec![a.clone(), b.clone()]));
            }
        }
        for m in rep_mems() {
            out.push(Insn::new(mn, vec![regs_few[0].clone(), Opd::Mem(w, m)]));
            out.push(Insn::new(mn, vec![Opd::Mem(w, m), regs_few[1].clone()]));
        }
        for r in &regs_many {
            out.push(Insn::new(mn, vec![r.clone(), lab.clone()]));
            out.push(Insn::new(mn, vec![lab.clone(), r.clone()]));
        }
        for i in rep_imms(w, signed) {
            for r in &regs_few {
                out.push(Insn::new(mn, vec![r.clone(), i.clone()]));
            }
            out.push(Insn::new(mn, vec![lab.clone(), i.clone()]));
        }
        let imms = rep_imms(w, signed);
        for (k, m) in rep_mems().into_iter().enumerate() {
            out.push(Insn::new(mn, vec![Opd::Mem(w, m), imms[k % imms.len()].clone()]));
        }
    }
}

fn one_op_shapes(mn: &'static str, out: &mut Vec<Insn>) {
    for w in [W::B, W::W] {
        for r in rep_regs(w, true) {
            out.push(Insn::new(mn, vec![r]));
        }
        for m in rep_mems() {
            out.push(Insn::new(mn, vec![Opd::Mem(w, m)]));
        }
        out.push(Insn::new(mn, vec![Opd::Lab(w, LBL.to_string())]));
    }
}

/// name of the code label / procedure used by enumerated shapes
pub const TGT: &str = "t_1";
pub const PROC: &str = "p_1";

/// The complete finite set of instruction shapes of syntax.md (canonical lower-case
/// mnemonics; the caller renders every token in both cases).
pub fn enumerate_shapes() -> Vec<Insn> {
    let mut out: Vec<Insn> = Vec::new();
    for mn in ["add", "adc", "sub", "sbb", "cmp"] {
        two_op_shapes(mn, true, &mut out);
    }
    for mn in ["and", "or", "xor", "test"] {
        two_op_shapes(mn, false, &mut out);
    }
    for mn in ["inc", "dec", "neg", "mul", "imul", "div", "idiv", "not"] {
        one_op_shapes(mn, &mut out);
    }
    for mn in ["sal", "shl", "sar", "shr", "rol", "ror", "rcl", "rcr"] {
        for w in [W::B, W::W] {
            let counts = vec![Opd::Imm(0, ImmKind::UB), Opd::Imm(1, ImmKind::UB), Opd::Imm(255, ImmKind::UB), Opd::R8(R8::CL)];
            for c in &counts {
                for r in rep_regs(w, true) {
                    out.push(Insn::new(mn, vec![r, c.clone()]));
                }
                out.push(Insn::new(mn, vec![Opd::Lab(w, LBL.to_string()), c.clone()]));
            }
            for (k, m) in rep_mems().into_iter().enumerate() {
                out.push(Insn::new(mn, vec![Opd::Mem(w, m), counts[k % 2].clone()]));
                out.push(Insn::new(mn, vec![Opd::Mem(w, m), Opd::R8(R8::CL)]));
            }
        }
    }
    // mov: the first 16 forms like two-operand arithmetic, then the segment register forms
    two_op_shapes("mov", true, &mut out);
    for s in SEGS {
        for r in R16S {
            out.push(Insn::new("mov", vec![Opd::Sr(s), Opd::R16(r)]));
            out.push(Insn::new("mov", vec![Opd::R16(r), Opd::Sr(s)]));
        }
        for m in rep_mems() {
            out.push(Insn::new("mov", vec![Opd::Sr(s), Opd::Mem(W::W, m)]));
            out.push(Insn::new("mov", vec![Opd::Mem(W::W, m), Opd::Sr(s)]));
        }
        out.push(Insn::new("mov", vec![Opd::Sr(s), Opd::Lab(W::W, LBL.to_string())]));
        out.push(Insn::new("mov", vec![Opd::Lab(W::W, LBL.to_string()), Opd::Sr(s)]));
    }
    // xchg
    for w in [W::B, W::W] {
        for a in rep_regs(w, false) {
            for b in rep_regs(w, true) {
                out.push(Insn::new("xchg", vec![a.clone(), b]));
            }
        }
        for r in rep_regs(w, false) {
            for m in rep_mems() {
                out.push(Insn::new("xchg", vec![Opd::Mem(w, m), r.clone()]));
                out.push(Insn::new("xchg", vec![r.clone(), Opd::Mem(w, m)]));
            }
            out.push(Insn::new("xchg", vec![Opd::Lab(w, LBL.to_string()), r.clone()]));
            out.push(Insn::new("xchg", vec![r.clone(), Opd::Lab(w, LBL.to_string())]));
        }
    }
    // push / pop
    for r in R16S {
        out.push(Insn::new("push", vec![Opd::R16(r)]));
        out.push(Insn::new("pop", vec![Opd::R16(r)]));
    }
    for s in SEGS {
        out.push(Insn::new("push", vec![Opd::Sr(s)]));
        if s != Seg::CS {
            out.push(Insn::new("pop", vec![Opd::Sr(s)]));
        }
    }
    for m in rep_mems() {
        out.push(Insn::new("push", vec![Opd::Mem(W::W, m)]));
        out.push(Insn::new("pop", vec![Opd::Mem(W::W, m)]));
    }
    out.push(Insn::new("push", vec![Opd::Lab(W::W, LBL.to_string())]));
    out.push(Insn::new("pop", vec![Opd::Lab(W::W, LBL.to_string())]));
    // lea
    for r in R16S {
        for m in rep_mems() {
            out.push(Insn::new("lea", vec![Opd::R16(r), Opd::Mem(W::W, m)]));
        }
        out.push(Insn::new("lea", vec![Opd::R16(r), Opd::Lab(W::W, LBL.to_string())]));
    }
    // singletons
    for mn in ["lahf", "sahf", "pushf", "popf", "xlat", "aaa", "aad", "aam", "aas", "daa", "das", "cbw", "cwd", "stc", "clc", "cmc", "std", "cld", "sti", "cli", "hlt", "nop", "ret"] {
        out.push(Insn::new(mn, vec![]));
    }
    // strings
    for w in [W::B, W::W] {
        for mn in ["movs", "lods", "stos", "cmps", "scas"] {
            out.push(Insn::new(mn, vec![Opd::Wd(w)]));
        }
        for mn in ["movs", "lods", "stos"] {
            out.push(Insn { prefix: Some("rep"), mn, ops: vec![Opd::Wd(w)] });
        }
        for p in ["repe", "repz", "repne", "repnz"] {
            for mn in ["cmps", "scas"] {
                out.push(Insn { prefix: Some(p), mn, ops: vec![Opd::Wd(w)] });
            }
        }
    }
    // jumps, loops, call, int
    for mn in crate::refmodel::JCC_SPELLINGS.iter().chain(crate::refmodel::LOOP_SPELLINGS.iter()) {
        out.push(Insn::new(mn, vec![Opd::Name(TGT.to_string())]));
    }
    out.push(Insn::new("call", vec![Opd::Name(PROC.to_string())]));
    for n in [3u16, 0x10, 0x21] {
        out.push(Insn::new("int", vec![Opd::Imm(n, ImmKind::UB)]));
    }
    out
}

/// render every token of an instruction in one fixed case, single blanks, numbers in the
/// given radix (0 decimal, 1 hex, 2 binary)
pub fn render_fixed(i: &Insn, upper: bool, radix: u8) -> String {
    // choice stream: kw() consumes 1 byte (odd = upper); separators consume 1 (0 = single blank / none)
    // numbers consume 1 (0 = decimal, 3 = hex, 5 = binary) -- emulate with a tiny custom renderer
    fn num(v: u32, radix: u8) -> String {
        match radix {
            1 => format!("0x{:X}", v),
            2 => format!("0b{:b}", v),
            _ => format!("{}", v),
        }
    }
    let k = |s: &str| if upper { s.to_uppercase() } else { s.to_string() };
    let disp = |d: i32| if d < 0 { format!("{}", d) } else { num(d as u32, radix) };
    let mem = |m: &Mem| {
        let mut s = String::new();
        if let Some(sr) = m.seg {
            s.push_str(&k(sr.name()));
            s.push(' ');
        }
        s.push('[');
        match m.shape {
            Shape::Direct(n) => s.push_str(&num(n as u32, radix)),
            Shape::Ind(r) => s.push_str(&k(r.name())),
            Shape::Based(r, d) | Shape::Indexed(r, d) => {
                s.push_str(&k(r.name()));
                s.push(',');
                s.push_str(&disp(d));
            }
            Shape::BasedIdx(b, x, d) => {
                s.push_str(&k(b.name()));
                s.push(',');
                s.push_str(&k(x.name()));
                if let Some(d) = d {
                    s.push(',');
                    s.push_str(&disp(d));
                }
            }
        }
        s.push(']');
        s
    };
    let mut s = String::new();
    if let Some(p) = i.prefix {
        s.push_str(&k(p));
        s.push(' ');
    }
    s.push_str(&k(i.mn));
    for (n, o) in i.ops.iter().enumerate() {
        s.push_str(if n == 0 { " " } else { "," });
        match o {
            Opd::R8(r) => s.push_str(&k(r.name())),
            Opd::R16(r) => s.push_str(&k(r.name())),
            Opd::Sr(x) => s.push_str(&k(x.name())),
            Opd::Imm(v, kind) => {
                let (bits, signed) = match kind {
                    ImmKind::SB => (8, true),
                    ImmKind::UB => (8, false),
                    ImmKind::SW => (16, true),
                    ImmKind::UW => (16, false),
                };
                let v = if bits == 8 { *v & 0xFF } else { *v };
                if signed && radix == 0 && (v as u32) >= (1 << (bits - 1)) && upper {
                    s.push_str(&format!("{}", v as i32 - (1 << bits)));
                } else {
                    s.push_str(&num(v as u32, radix));
                }
            }
            Opd::Mem(w, m) => {
                s.push_str(&k(w.kw()));
                s.push(' ');
                s.push_str(&mem(m));
            }
            Opd::Lab(w, n) => {
                s.push_str(&k(w.kw()));
                s.push(' ');
                s.push_str(n);
            }
            Opd::Name(n) => s.push_str(n),
            Opd::Wd(w) => s.push_str(&k(w.kw())),
        }
    }
    s
}
