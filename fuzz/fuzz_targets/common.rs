// shared by the fuzz targets (included with include!): panic capture with an allow-list so that a
// campaign is not ended by a crash that is already listed as a known finding.
use std::panic::{catch_unwind, AssertUnwindSafe};

thread_local! {
    static LAST: std::cell::RefCell<String> = std::cell::RefCell::new(String::new());
}

fn install_hook() {
    static ONCE: std::sync::Once = std::sync::Once::new();
    ONCE.call_once(|| {
        std::panic::set_hook(Box::new(|info| {
            let msg = if let Some(s) = info.payload().downcast_ref::<&str>() {
                s.to_string()
            } else if let Some(s) = info.payload().downcast_ref::<String>() {
                s.clone()
            } else {
                "panic".to_string()
            };
            let loc = info.location().map(|l| l.file().rsplit('/').next().unwrap_or("").to_string()).unwrap_or_default();
            LAST.with(|l| *l.borrow_mut() = format!("{} @{}", msg, loc));
        }));
    });
}

/// run f; a panic whose message contains one of the substrings in VFUZZ_ALLOW (separated by '|')
/// is tolerated (counted by the caller), any other panic aborts so that libFuzzer saves the input
fn guarded<F: FnOnce()>(what: &str, f: F) {
    install_hook();
    if catch_unwind(AssertUnwindSafe(f)).is_err() {
        let msg = LAST.with(|l| l.borrow().clone());
        let allow = std::env::var("VFUZZ_ALLOW").unwrap_or_default();
        if !allow.is_empty() && allow.split('|').any(|a| !a.is_empty() && msg.contains(a)) {
            return;
        }
        eprintln!("VFUZZ-PANIC {}: {}", what, msg);
        std::process::abort();
    }
}
