#![no_main]
use libfuzzer_sys::fuzz_target;
use emulator_8086_lib as lib;
use lib::{DataParser, VM};
include!("common.rs");

thread_local! {
    static P: DataParser = DataParser::new();
    static VMC: std::cell::RefCell<VM> = std::cell::RefCell::new(VM::new());
}

fuzz_target!(|data: &[u8]| {
    let s = match std::str::from_utf8(data) {
        Ok(s) => s,
        Err(_) => return,
    };
    guarded("data-loader", || {
        VMC.with(|v| {
            let mut vm = v.borrow_mut();
            vm.arch.ds = if s.len() % 3 == 0 { 0xFFFF } else { 0x1000 };
            for line in s.split('\n').take(16) {
                let mut ctr = (s.len() * 4099) % 70000;
                let _ = P.with(|p| p.parse(&mut vm, &mut ctr, line));
            }
        })
    });
});
