#![no_main]
// Preprocessor through the driver's diagnostic path: comment stripping as in driver.rs, then the
// parser (one object per process) and, on an error, the driver's own position arithmetic
// (get_err_pos + line slicing); every 32nd input also goes through the real preprocess().
use libfuzzer_sys::fuzz_target;
use emulator_8086_lib as lib;
use lalrpop_util::ParseError;
use lib::{LexerHelper, Preprocessor, PreprocessorContext, PreprocessorOutput};

#[path = "/repo/src/driver/error_helper.rs"]
mod error_helper;
#[path = "/repo/src/driver/preprocess.rs"]
mod preprocess;
include!("common.rs");

thread_local! {
    static PRE: Preprocessor = Preprocessor::new();
    static RE: regex::Regex = regex::Regex::new(r";.*\n?").unwrap();
}

fuzz_target!(|data: &[u8]| {
    let s = match std::str::from_utf8(data) {
        Ok(s) => s,
        Err(_) => return,
    };
    let input = RE.with(|r| r.replace_all(s, "\n").to_string());
    guarded("preprocessor", || {
        let mut ctx = PreprocessorContext::default();
        let mut out = PreprocessorOutput::default();
        let helper = LexerHelper::new(&input);
        let r = PRE.with(|p| p.parse(&mut ctx, &mut out, &input));
        match r {
            Err(ParseError::UnrecognizedToken { token: (start, _, _), .. }) => {
                let (_line, ls, le) = error_helper::get_err_pos(&helper, start);
                let _ = &input[ls..le];
                let _ = start - ls;
            }
            Err(ParseError::InvalidToken { location }) | Err(ParseError::UnrecognizedEOF { location, .. }) => {
                let (_line, ls, le) = error_helper::get_err_pos(&helper, location.saturating_sub(1));
                let _ = &input[ls..le];
            }
            Err(_) => {}
            Ok(()) => {
                // every recorded source position must be resolvable to a line of the input
                for (_, pos) in ctx.mapper.get_source_map() {
                    let (_l, ls, le) = error_helper::get_err_pos(&helper, pos);
                    let _ = &input[ls..le];
                }
                for (pos, _) in ctx.undefined_labels.iter() {
                    let (_l, ls, le) = error_helper::get_err_pos(&helper, *pos);
                    let _ = &input[ls..le];
                    let _ = *pos - ls;
                }
            }
        }
    });
    if data.len() > 1 && data[0] % 32 == 0 {
        guarded("preprocess()", || {
            let _ = preprocess::preprocess(&input);
        });
    }
});
