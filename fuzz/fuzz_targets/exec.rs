#![no_main]
// C01-C07, C09 as a coverage-guided differential target: the fuzzer's bytes are decoded by the harness
// (vcheck::fuzzdec) into one source instruction -- a shape of the enumerator with registers, immediates,
// displacement, segment override re-chosen from the bytes -- plus a machine state, address fix-up classes
// and spelling choices.  The instruction is assembled, executed on the prepared machine and compared with
// the reference model exactly as the proptest part of the checks does (all registers, all flag bits, all
// 1 MiB of memory, outcome).  Any verdict other than pass / assembler-rejected / listed known finding
// aborts, so libFuzzer saves the input; the harness re-executes the artifact through the same path.
use libfuzzer_sys::fuzz_target;
use std::cell::RefCell;
use vcheck::asm::{enumerate_shapes, Insn};
use vcheck::l1::{run_case, Verdict, Worker};
use vcheck::refmodel::Quirks;

thread_local! {
    static WK: RefCell<Worker> = RefCell::new(Worker::new());
    static SHAPES: Vec<Insn> = enumerate_shapes();
    // VFUZZ_MNS / VFUZZ_ASPECTS: comma separated mnemonics / failure aspects the running property owns (empty = all)
    static MNS: Vec<String> = std::env::var("VFUZZ_MNS").unwrap_or_default().split(',').filter(|s| !s.is_empty()).map(|s| s.to_string()).collect();
    static ASPECTS: Vec<String> = std::env::var("VFUZZ_ASPECTS").unwrap_or_default().split(',').filter(|s| !s.is_empty()).map(|s| s.to_string()).collect();
    static QUIRKS: Quirks = {
        let f = vcheck::common::load_findings();
        Quirks::from_keys(|k| f.iter().any(|x| x.open && x.key == k))
    };
}

fn init() {
    static ONCE: std::sync::Once = std::sync::Once::new();
    ONCE.call_once(|| {
        vcheck::emu::install_quiet_panic_hook();
        if let Err(e) = vcheck::refmodel::self_check() {
            eprintln!("VFUZZ-HARNESS-ERROR reference model self-check failed: {}", e);
            std::process::exit(0);
        }
    });
}

fuzz_target!(|data: &[u8]| {
    if data.len() < 16 {
        return;
    }
    init();
    let (case, stack) = SHAPES.with(|s| vcheck::fuzzdec::decode_case(data, s));
    if !MNS.with(|m| m.is_empty() || m.iter().any(|x| x == case.insn.mn)) {
        return;
    }
    let v = WK.with(|w| QUIRKS.with(|q| run_case(&mut w.borrow_mut(), &case, q, &stack)));
    if let Verdict::Fail { aspect, detail, .. } = v {
        if !ASPECTS.with(|a| a.is_empty() || a.iter().any(|x| *x == aspect)) {
            return;
        }
        eprintln!("VFUZZ-FAIL aspect={} {}", aspect, detail);
        std::process::abort();
    }
});
