#![no_main]
// C10 as a fuzz target: whatever the assembler accepts, the loaders accept.  The emitted data lines go
// to the DataParser, the emitted code lines to the Interpreter (in the context built from the same
// program, benign machine state), print lines to the print reader.
use libfuzzer_sys::fuzz_target;
use emulator_8086_lib as lib;
use lib::{DataParser, Interpreter, InterpreterContext, LabelType, Preprocessor, PreprocessorContext, PreprocessorOutput, State, VM};
#[allow(clippy::all, unused_imports, dead_code, unused_variables)]
#[path = "/repo/src/driver/print.rs"]
mod print;
include!("common.rs");

thread_local! {
    static PRE: Preprocessor = Preprocessor::new();
    static DP: DataParser = DataParser::new();
    static IP: Interpreter = Interpreter::new();
    static PP: print::PrintParser = print::PrintParser::new();
    static VMC: std::cell::RefCell<VM> = std::cell::RefCell::new(VM::new());
}

fuzz_target!(|data: &[u8]| {
    let s = match std::str::from_utf8(data) {
        Ok(s) => s,
        Err(_) => return,
    };
    guarded("compose", || {
        let mut ctx = PreprocessorContext::default();
        let mut out = PreprocessorOutput::default();
        if PRE.with(|p| p.parse(&mut ctx, &mut out, s)).is_err() {
            return;
        }
        // driver-level checks
        for (_, l) in ctx.undefined_labels.iter() {
            if ctx.label_map.get(l).is_none() {
                return;
            }
        }
        match ctx.label_map.get("start") {
            Some(l) if matches!(l.get_type(), LabelType::CODE) => {}
            _ => return,
        }
        let PreprocessorContext { label_map, fn_map, .. } = ctx;
        let mut ictx = InterpreterContext { fn_map, label_map, call_stack: vec![0], ..Default::default() };
        VMC.with(|v| {
            let mut vm = v.borrow_mut();
            let mut ctr = 0usize;
            for l in &out.data {
                if let Err(e) = DP.with(|p| p.parse(&mut vm, &mut ctr, l)) {
                    panic!("data loader refuses emitted line {:?}: {}", l, e);
                }
            }
            for (idx, l) in out.code.iter().enumerate() {
                // benign state: no divide errors (memory is not zero where a divisor may be read is not
                // guaranteed, so INT 0 outcomes are fine: only a refusal of the LINE is a failure)
                let a = &mut vm.arch;
                a.ax = 0x0102;
                a.bx = 0x0304;
                a.cx = 3;
                a.dx = 0;
                a.sp = 0x8000;
                a.bp = 0x0506;
                a.si = 0x0708;
                a.di = 0x090A;
                a.ds = 0x0100;
                a.ss = 0x0200;
                a.es = 0x0300;
                a.flag = 0xF002;
                ictx.call_stack = vec![0];
                if l.starts_with("print") {
                    if let Err(e) = PP.with(|p| p.parse(&vm, l)) {
                        panic!("print reader refuses emitted line {:?}: {}", l, e);
                    }
                }
                let mut n = 0;
                loop {
                    match IP.with(|p| p.parse(idx, &mut vm, &mut ictx, l)) {
                        Ok(State::REPEAT) if n < 8 => n += 1,
                        Ok(_) => break,
                        Err(e) => panic!("interpreter refuses emitted line {:?}: {}", l, e),
                    }
                }
            }
        })
    });
});
