#![no_main]
// Interpreter on arbitrary lines in a machine state decoded from the first bytes of the input
use libfuzzer_sys::fuzz_target;
use emulator_8086_lib as lib;
use lib::{Interpreter, InterpreterContext, Label, LabelType, State, VM};
include!("common.rs");

thread_local! {
    static P: Interpreter = Interpreter::new();
    static VMC: std::cell::RefCell<VM> = std::cell::RefCell::new(VM::new());
}

fuzz_target!(|data: &[u8]| {
    if data.len() < 28 {
        return;
    }
    let (st, text) = data.split_at(28);
    let s = match std::str::from_utf8(text) {
        Ok(s) => s,
        Err(_) => return,
    };
    let w = |k: usize| u16::from_le_bytes([st[2 * k], st[2 * k + 1]]);
    guarded("interpreter", || {
        VMC.with(|v| {
            let mut vm = v.borrow_mut();
            let a = &mut vm.arch;
            a.ax = w(0);
            a.bx = w(1);
            a.cx = w(2) & 0x03FF;
            a.dx = w(3);
            a.sp = w(4);
            a.bp = w(5);
            a.si = w(6);
            a.di = w(7);
            a.ds = w(8);
            a.es = w(9);
            a.ss = w(10);
            a.cs = w(11);
            a.flag = w(12) & !0x0100;
            let mut label_map = std::collections::HashMap::new();
            label_map.insert("l".to_string(), Label::new(LabelType::CODE, 0, 1));
            label_map.insert("v".to_string(), Label::new(LabelType::DATA, 0, w(13) as usize));
            let mut fn_map = std::collections::HashMap::new();
            fn_map.insert("f".to_string(), 0usize);
            let mut ctx = InterpreterContext { fn_map, label_map, call_stack: if st[27] & 1 == 1 { vec![3] } else { vec![] }, ..Default::default() };
            for line in s.split('\n').take(8) {
                let mut n = 0;
                loop {
                    match P.with(|p| p.parse(2, &mut vm, &mut ctx, line)) {
                        Ok(State::REPEAT) if n < 1100 => n += 1,
                        Ok(State::REPEAT) => panic!("REPEAT returned more often than CX allows"),
                        _ => break,
                    }
                }
            }
        })
    });
});
