#![no_main]
use libfuzzer_sys::fuzz_target;
use emulator_8086_lib as lib;
use lib::VM;
#[allow(clippy::all, unused_imports, dead_code, unused_variables)]
#[path = "/repo/src/driver/print.rs"]
mod print;
include!("common.rs");

thread_local! {
    static P: print::PrintParser = print::PrintParser::new();
    static VMC: std::cell::RefCell<VM> = std::cell::RefCell::new(VM::new());
}

fuzz_target!(|data: &[u8]| {
    let s = match std::str::from_utf8(data) {
        Ok(s) => s,
        Err(_) => return,
    };
    guarded("print-reader", || {
        VMC.with(|v| {
            let mut vm = v.borrow_mut();
            vm.arch.ds = if s.len() % 2 == 0 { 0xFFFF } else { 0x0010 };
            for line in s.split('\n').take(8) {
                // only short ranges are actually printed (stdout is /dev/null during campaigns)
                let _ = P.with(|p| p.parse(&vm, line));
            }
        })
    });
});
