#!/usr/bin/env python3
"""Development tool (not a registered command): apply one textual mutation to /repo in place, run a
check's quick tier, restore the tree.  usage: mut.py <Cxx[,Cyy]> <file relative to /repo> <old> <new> [occurrence]
Expects the check to exit 1 with a VIOLATION line; prints CAUGHT / MISSED."""
import subprocess, sys, os
checks, rel, old, new = sys.argv[1].split(','), sys.argv[2], sys.argv[3], sys.argv[4]
occ = int(sys.argv[5]) if len(sys.argv) > 5 else 0
path = os.path.join('/repo', rel)
src = open(path).read()
n = src.count(old)
if n == 0:
    print('pattern not found'); sys.exit(2)
idx = -1
for _ in range(occ + 1):
    idx = src.index(old, idx + 1)
mut = src[:idx] + new + src[idx + len(old):]
open(path, 'w').write(mut)
try:
    for c in checks:
        r = subprocess.run(['./check', c, 'quick'], cwd='/verif', capture_output=True, text=True)
        tail = [l for l in r.stdout.splitlines() if l.startswith(('VIOLATION', '  what', 'HARNESS', 'INCONCL'))][:4]
        print(('CAUGHT' if r.returncode == 1 and 'VIOLATION property=' in r.stdout else 'MISSED(exit %d)' % r.returncode), c, rel, repr(old[:50]), '->', repr(new[:50]))
        for l in tail: print('   ', l[:260])
finally:
    subprocess.run(['git', '-C', '/repo', 'checkout', '--', '.']); subprocess.run(['git', '-C', '/repo', 'clean', '-fdq', 'src'])
    subprocess.run(['rm', '-f'] + [os.path.join('/verif/replays', c, f) for c in checks for f in (os.listdir(os.path.join('/verif/replays', c)) if os.path.isdir(os.path.join('/verif/replays', c)) else []) if f.startswith('run-')])
