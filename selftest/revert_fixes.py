#!/usr/bin/env python3
"""Development tool: for every 'fixed:' entry of known_findings.txt, revert that commit in /repo's working tree
(git revert -n), run the owning property's quick check, expect a VIOLATION, restore the tree.
Entries whose revert conflicts with later commits are reported as 'conflict' and skipped.
usage: revert_fixes.py [Cxx ...]   (default: all)"""
import subprocess, sys, re, os, json
only = set(sys.argv[1:])
def sh(cmd, cwd=None):
    r = subprocess.run(cmd, shell=True, cwd=cwd, capture_output=True, text=True)
    return r.returncode, r.stdout + r.stderr
rc, o = sh('git -C /repo status --short')
if o.strip():
    print('/repo not clean'); sys.exit(2)
res = []
for line in open('/verif/known_findings.txt'):
    m = re.match(r'fixed: property=(C\d+) ([0-9a-f]{7,}) (.*)', line.strip())
    if not m: continue
    prop, commit, what = m.groups()
    if only and prop not in only: continue
    rc, o = sh('git -C /repo revert -n %s' % commit)
    if rc != 0:
        sh('git -C /repo revert --abort; git -C /repo reset -q --hard; git -C /repo clean -fdq src')
        res.append((prop, commit, 'conflict', what[:70])); print(prop, commit, 'conflict'); continue
    rc, o = sh('./check %s quick' % prop, '/verif')
    caught = rc == 1 and 'VIOLATION property=' in o
    res.append((prop, commit, 'CAUGHT' if caught else 'MISSED(exit %d)' % rc, what[:70]))
    print(prop, commit, res[-1][2], what[:70], flush=True)
    if not caught:
        print('   ', '\n    '.join(o.splitlines()[-4:]))
    sh('git -C /repo reset -q --hard')
    d = '/verif/replays/%s' % prop
    if os.path.isdir(d):
        for f in os.listdir(d):
            if f.startswith('run-'): os.remove(os.path.join(d, f))
json.dump(res, open('/verif/selftest/revert_fixes.result.json', 'w'), indent=1)
print(sum(1 for r in res if r[2] == 'CAUGHT'), 'caught of', len(res), '(', sum(1 for r in res if r[2] == 'conflict'), 'conflicts )')
