#!/usr/bin/env python3
"""merge the check results of tools/eval_ns.sh slots into /verif/seeded/*/meta.json (only the 'checks' entries)"""
import json, glob, os, sys
for d in sorted(glob.glob('/tmp/eval*/verif/seeded/C*-*')):
    dst = '/verif/seeded/' + os.path.basename(d) + '/meta.json'
    if not os.path.exists(d + '/meta.json') or not os.path.exists(dst): continue
    m = json.load(open(d + '/meta.json')); t = json.load(open(dst))
    new = m.get('checks', {})
    old = t.get('checks', {})
    ch = False
    for k, v in new.items():
        if old.get(k) != v and os.path.getmtime(d + '/meta.json') >= os.path.getmtime(dst) - 1:
            old[k] = v; ch = True
    if ch:
        t['checks'] = old
        json.dump(t, open(dst, 'w'), indent=1)
        print('updated', os.path.basename(d), {k: ('CAUGHT' if v.get('caught') else 'MISSED exit %s' % v.get('exit')) for k, v in new.items()})
