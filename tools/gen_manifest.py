#!/usr/bin/env python3
"""Generate /verif/MANIFEST.json from the table below (kept in one place so it stays valid)."""
import json, os, sys
HERE = os.path.dirname(os.path.dirname(os.path.abspath(__file__)))

CHECKS = {
 # id: (technique, level text, level note, design ref)
 "C01": ("differential testing against an independent reference ALU: exhaustive enumeration of the byte domain and word unary domain, lattice + proptest-generated word pairs (all 2^32 pairs in the thorough tier), and proptest-generated operand forms through assembler+interpreter with whole-machine comparison",
         "exploration; exhaustive over all byte operand pairs x carry-in x 4 prior flag words and all word INC/DEC/NEG values; word binary ops sampled in quick (boundary lattice squared + generated pairs) and enumerated over all 2^32 pairs x carry in thorough; operand forms sampled on stratified machine states with every register, every flag bit and all 1 MiB of memory compared",
         "trusted: reference ALU (bit-serial ripple adder self-checked against a wide-integer formulation at start-up), proptest, rustc; known findings quirk:incdec-cf and quirk:neg0-sf are excused only where the implementation equals the listed defect model exactly", "3/C01"),
 "C02": ("differential testing against a step-wise reference (count repetitions of the manual's single-bit step): exhaustive enumeration of all byte values x all 256 counts x carry-in for the 7 shift/rotate functions and all byte pairs for AND/OR/XOR/TEST, lattice (quick) / all 65536 word values (thorough) x 256 counts, and proptest-generated operand forms (register, memory, label; immediate and CL counts) with whole-machine comparison and panic capture",
         "exploration; exhaustive for the byte domain in both tiers and for word values x counts x carry in the thorough tier; operand forms sampled; 'no count makes the emulator fail' is decided by catch_unwind in a build with overflow checks",
         "trusted: step-wise shift reference self-checked against closed forms; OF compared only for count 1, AF not compared for logic/shift (undefined in the manual)", "3/C02"),
 "C03": ("differential testing against a 64-bit reference: exhaustive enumeration of all 2^16 AX x 256 operands for the byte MUL/IMUL/DIV/IDIV and of all AX x AF x CF for the adjusts, signed boundary lattice plus proptest-generated 48-bit triples with constructed quotient-overflow boundaries for the word forms, proptest-generated operand forms, accept sets where the 8086 documentation itself has two readings",
         "exploration; byte forms and adjusts exhaustive, word forms sampled on a boundary lattice and by generated triples whose quotient is within +-1 of the bounds by construction; divide error must come back as INT 0 (State::INT(0)), never as a panic or truncated quotient",
         "trusted: 64-bit reference arithmetic; undefined flags masked per manual; accept sets for DAA/DAS/AAM and the -128/-32768 quotient (AAA/AAS are held to the 8086 manual's AL+6, AH+1 formulation); known finding quirk:byte-imul-flags excused only where the output equals the defect model exactly", "3/C03"),
 "C04": ("differential testing of generated single instructions against a reference effective-address model on a position-dependent memory pattern: proptest generates addressing shape x override x base x index x displacement, registers and segments are constructed so that offset sums and physical addresses land on the 16-bit and 20-bit wrap boundaries, and the whole 1 MiB is compared after the step",
         "exploration; all 5 shapes x 5 override choices x both widths for loads, stores, read-modify-write and LEA, boundary classes constructed (and their population asserted), values sampled",
         "trusted: reference EA model (16-bit wrapping offset, SS default iff BP is the base, override replaces, phys mod 2^20, word = phys and phys+1); known finding quirk:lea-phys-minus-ds excused only where LEA's result equals the defect model exactly", "3/C04"),
 "C05": ("model-based testing: proptest-generated MOV/XCHG/PUSH/POP/PUSHF/POPF/LAHF/SAHF/XLAT single steps on stratified SS:SP states, and push/pop histories (vec(op,0..40)) executed in lock step with a reference stack machine, whole machine compared after every step",
         "exploration; every operand-kind pair of MOV/XCHG/PUSH/POP in syntax.md is generated (form histogram in the evidence), SS:SP boundary classes are constructed, histories are compared step by step with registers, flags and all memory",
         "trusted: reference machine model; PUSH SP may store old or new SP, POP SP result not compared, LAHF/SAHF compare the five defined bits", "3/C05"),
 "C06": ("exhaustive enumeration of all 2^16 flag words per jump spelling and all 2^16 CX values x ZF per LOOP/JCXZ spelling against a hand-written predicate table, plus table-independent synonym/complement relations over the outcome bitmaps",
         "exploration, exhaustive for the listed domain in both tiers: every jump/loop spelling of the grammar in both cases, assembled by the Preprocessor (forward and backward target) and executed by the Interpreter on every flag word / every CX; registers, flags and memory compared",
         "trusted: predicate table transcribed from the 8086 manual; known finding quirk:jle-and excused only where the outcome equals the defect model exactly", "3/C06"),
 "C07": ("model-based testing of the REPEAT protocol: enumeration of every string mnemonic x width x DF x prefix x every CX in 0..=64 x 6 address configurations (disjoint, DS!=ES, overlapping both ways, offset wrap, 2^20 wrap) x constructed first-(non-)match positions, plus proptest-generated string cases, each driven to completion exactly as the driver does and compared with a reference string model (registers, flags, whole memory)",
         "exploration; CX 0..=64 enumerated for every prefix/mnemonic/width/DF combination (larger CX generated), termination position of REPE/REPNE placed by construction, iteration cap CX+2 turns a runaway REPEAT into a violation",
         "trusted: reference string model (DS:SI source, ES:DI destination, little-endian words, CMPS = source-destination, SCAS = accumulator-destination, REP protocol from the manual); a word element straddling offset FFFFh may use either reading", "3/C07"),
 "C09": ("proptest-driven search over the complete instruction-shape enumeration x adversarial machine states (registers from the boundary set, segments FFFFh/F001h/FFF0h, operand addresses and SS:SP/DS:SI/ES:DI/DS:BX+AL constructed onto the 2^20 and 2^16 wrap points, counts 0..255, divisors 0/1/-1, empty/non-empty call stack) in a build with integer-overflow checks, panics captured with catch_unwind, every changed memory byte compared with the reference model's wrapped addresses",
         "exploration; every shape of the enumerator is executed several times (quick) / hundreds of times (thorough) in adversarial states; totality = no panic and a defined outcome; 'wraps rather than indexes outside' is decided by equality of the whole memory with the wrapped reference, not only by absence of a bounds panic",
         "trusted: shape enumerator (cross-checked against the terminals of the working tree's grammar), reference machine model; value-level disagreements are left to C01-C07", "3/C09"),
 "C10": ("exhaustive enumeration of the finite shape set of the source grammar (every mnemonic spelling x every operand-kind alternative x representative registers x 15 addressing shapes x 5 override choices, in both cases and three radices) plus every directive and print form, each assembled and every emitted line fed to the downstream parser it is destined for; proptest-generated whole programs are additionally run",
         "exploration, exhaustive over the enumerated shape set (about 24 000 programs per run); accept => DataParser/Interpreter/print parser accept; a documented form that the assembler rejects is reported as well",
         "trusted: shape enumerator (its vocabulary is compared at run time with the terminals extracted from the working tree's preprocessor.lalrpop; unknown terminals are listed in the evidence)", "3/C10"),
 "C17": ("model-based testing through the CLI: proptest-generated programs establish a random machine state and print it (in the program and at an INT 3 prompt); stdout is tokenised back into register/flag/memory events and compared with the reference machine; prints removed vs present must end in the same state; ranges leaving the 1 MiB space must be reported",
         "exploration; about 10^3 (quick) / 2*10^4 (thorough) CLI runs with ~10 print observations each, boundary range lengths and DS-relative ranges constructed, output format (four upper-case hex digits, 0/1 flags, two-digit cells, 16 per row) enforced by the parser",
         "trusted: reference machine for MOV/PUSH/POPF/SAHF/flag control, output tokenizer; layout (tabs/blank separators) normalised", "3/C17"),
 "C08": ("model-based testing of control flow: exhaustive enumeration of small structured programs (all main bodies of <= 3/4 tokens over a 13-symbol alphabet x 6 structural variants) plus proptest-generated larger ones; the executed-instruction index trace, stop reason, marker output and final machine of the real Preprocessor+Interpreter under a transcribed driver loop are compared with a reference interpreter over the AST, and the CLI's stdout with the reference marker trace",
         "exploration; small scopes exhaustive (about 1.4*10^4 programs quick, 1.8*10^5 thorough), larger programs sampled at L2 and through the real driver loop (CLI); labels before/after instructions, before procedures, at end of file, 'start' first/middle/last are generated by construction and their population asserted",
         "trusted: reference interpreter over the AST (flattening rule: one instruction per source instruction plus an implied ret per procedure and the driver's final hlt), structured generator (terminating by construction); the transcribed loop is tied to the real loop by the CLI part", "3/C08"),
 "C20": ("model-based testing through the CLI with scripted stdin: proptest-generated terminating programs x stepping mode (-i, trap flag set/cleared in mid-program, INT 3) x prompt scripts (next/print/garbage/quit, premature end of input); tokenised stdout must equal the reference event sequence; differential check of -i with all prompts answered n against the plain run; output cap turns a spinning prompt into a violation",
         "exploration; about 1.1*10^3 (quick) / 2.3*10^4 (thorough) CLI runs; prompt discipline (exactly one announcement per executed instruction naming its line, prints do not advance, n advances one instruction, q/quit/EOF terminate with status 0) decided by event-sequence equality",
         "trusted: reference interpreter incl. prompt protocol, stdout tokenizer; stdin is a pipe or closed; an extra 'Exiting' line at end of input is accepted", "3/C20"),
 "C12": ("model-based testing of the data section: proptest-generated SET/DB/DW definition sequences (all four kinds, labels, every radix and OFFSET spellings, lengths and segment totals steered onto the 64 KiB boundary, segments wrapping the 1 MiB space) assembled and loaded, whole 1 MiB image compared with an independently computed image, label offsets and loads through label operands / OFFSET checked in-process and through the CLI (DS=0000 at start)",
         "exploration; 8*10^3 (quick) / 1.6*10^5 (thorough) generated data sections in-process plus a deterministic boundary family (totals 65533..131072, string limits, SET resets) and 3*10^2 / 4*10^3 CLI runs; > 64 KiB per segment must be a diagnostic (no abort, no accepted program)",
         "trusted: reference image/offset computation in the harness; a total of exactly 65536 bytes and strings beyond the assembler's documented single-string limit may be accepted or refused", "3/C12"),
 "C11": ("round-trip and metamorphic testing of the assembler: proptest-generated programs over all instruction classes are rendered from an AST under two independent random spellings (case per token, radix / negative decimal / OFFSET per constant, separators, line packing, trailing newline); every emitted line is decoded by an independent hand-written reader and compared structurally with the AST item; both spellings must emit identical lists and maps; label renaming and case-variant labels; ';' comments added to CLI programs must not change the run",
         "exploration; 2.4*10^4 (quick) / 8*10^5 (thorough) programs x 3 assemblies each, every instruction class and operand form of syntax.md is generated (forms from the shared AST strategies), 3*10^2 / 4*10^3 CLI pairs for the comment layer",
         "trusted: the independent IR reader and the AST normalisation (documented folding: Intel synonyms, XCHG operand order, based-indexed displacement 0, constants modulo operand width); macros are C13's subject", "3/C11"),
 "C13": ("differential testing against a reference macro expander: proptest-generated macro libraries (parameter names that are prefixes/substrings of each other and of body tokens, operands abstracted into parameters, nested and macro-valued uses, back edges, self recursion, unknown names, late definitions, uses inside procedures) are expanded by an independent textual reference (whole-identifier substitution, explicit cycle check); the assembler's output for the program with macros must equal its output for the hand-expanded program, rejection iff the reference rejects or the expansion is invalid, diagnostic on the line of the outermost use; cyclic cases and chains up to depth 64 / 4096 run in a resource-limited child process",
         "exploration; 3.2*10^3 (quick) / 10^5 (thorough) macro libraries, each assembled twice (with macros / hand-expanded); population of nesting depth >= 2, macro-valued parameters, substring parameter names, recursion, unknown macros, override arguments asserted; termination on deep and cyclic chains decided by the child's exit status (signal = violation, watchdog = inconclusive)",
         "trusted: the textual reference expander in the harness; argument kinds are those the statement lists; equal argument and parameter counts; the documented space before the bracket of a macro-valued parameter", "3/C13"),
 "C14": ("mutation-based negative testing: proptest-generated valid, terminating parent programs (marker written by the first executed instructions, a never-executed block of random instructions of every class); every applicable single semantic mutation of the property's list is applied, one mutant per site and in rotation at a live position, inside a procedure and at the end of the file; each mutant is assembled in-process with the driver's undefined-label / start checks replicated, and a seeded subset is run through the CLI (diagnostic present, no marker, no program output, status 0); the parent must be accepted and print its marker",
         "exploration; 4*10^2 (quick) / 1.2*10^4 (thorough) parents x ~120 mutants each in-process (17 error classes, population per class asserted), 2.4*10^3 / 6*10^4 mutants through the real driver",
         "trusted: the mutation operators produce programs that are invalid by the statement's own list (definitive width mismatches only; constants exactly one past a range; forward calls and negative constants for unsigned operands are not used)", "3/C14"),
 "C15": ("robustness fuzzing with an explicit no-abort oracle: proptest-generated texts (valid programs from four generators and ~160 hand-picked fragments under 0-3 byte-level and token-level mutations, incl. multi-byte characters, NUL, CR-LF, truncation, stripped final newline, raw high bytes) are given to the driver's own preprocess() and to the data loader, interpreter and print reader (whole and line by line) under catch_unwind in an overflow-checked build; a seeded subset and all fragments go to the CLI as raw files; 14 size/depth families with n doubling run in a child with wait4 resource accounting (deterministic output / peak-memory proportionality bounds); thorough tier adds coverage-guided libFuzzer campaigns on the four parsers",
         "exploration; 1.6*10^4 (quick) / 6*10^5 (thorough) texts x 4 parsers in-process, 1.3*10^3 / 2*10^4 CLI files, families to n=8000 / 64000; a panic, signal, exit status other than 0 (1 for unreadable files), silent exit or disproportionate output/memory is a violation; watchdog and CPU-growth only ever yield 'inconclusive'",
         "trusted: catch_unwind + panic hook, the child runner; mutated programs given to the CLI have start renamed so that they cannot begin to run (a mutated program may legitimately loop)", "3/C15"),
 "C19": ("metamorphic / differential testing of the implementation against itself under different histories: repeated CLI runs of generated valid and multiply-invalid programs must be byte-identical; proptest-generated interleavings of two instruction streams on two machines sharing one Interpreter object versus each stream alone on fresh objects; fresh versus used parser objects (all four parser types, histories with errors); new-machine state checked before and after; 16 concurrent threads versus sequential",
         "exploration; 4*10^2 (quick) / 5*10^3 (thorough) programs x 5 processes, 5*10^3 / 10^5 interleavings (switch points also inside REP iterations), 2.4*10^3 / 4*10^4 parser histories; registers, whole memory, call stack, per-instruction outcomes, emitted lists and maps compared",
         "trusted: none beyond the harness plumbing (the oracle is equality of two runs of the code under test); schedules of real threads are executed, not enumerated", "3/C19"),
 "C18": ("model-based testing through the CLI with piped stdin: proptest-generated programs of 1-4 console interrupt calls (INT 21h AH=1/2/0Ah, INT 10h AH=0Ah/13h) with generated register, segment and flag values, buffers and strings placed mid-memory, at segment ends, ending at FFFFFh and wrapping past it, capacities 0..255, input lines empty/shorter/equal/longer than the capacity, stdin complete / without final newline / ending early / closed; after every call registers, flags and the pre-filled buffer region are printed and compared event by event with the reference machine; the stored count of AH=0Ah is read back and checked against the documented bound; exhaustive enumeration of all 256 AH values for both interrupts",
         "exploration; 10^3 (quick) / 3*10^4 (thorough) programs plus 512 enumerated AH programs per run; characters written, AL results, every other register, all flags and memory (buffer interior, 2 bytes before, 8 after) compared; exit status 0 and no panic for every register and input content generated",
         "trusted: reference machine and stdout tokenizer; bytes >= 80h are accepted as the UTF-8 of that code point; a line terminator right after the stored characters is accepted; AH=1 on an empty line and offset wrap inside a segment are not generated (unspecified)", "3/C18"),
 "C16": ("position oracle from generator-known offsets: proptest-generated programs (procedures, macros nested 1-2 deep at top level and in procedures, prints, INT 3, trap-flag stepping, faulting division / unsupported interrupt) rendered under random layouts with recorded statement offsets; (A) every source-map entry converted with the driver's get_err_pos must give the statement's line and exact line bounds; (B) single-token corruption at generated token positions (unexpected token, invalid character, truncation) and C14's one-line semantic mutants must be diagnosed with that line, column and text, in-process through the driver's preprocess() and through the CLI; (C) every line-citing run-time message of the CLI must name the line and text of the statement the reference interpreter executes; (D) undefined-label report line/column/text",
         "exploration; 6*10^3 (quick) / 2*10^5 (thorough) programs for the source map, 3*10^3 / 6*10^4 token corruptions, 2*10^3 / 4*10^4 semantic mutants, 9.5*10^2 / 1.15*10^4 CLI runs; first/middle/last line, last line without trailing newline, macro-made, implied ret populations asserted",
         "trusted: the renderer's recorded offsets and the reference interpreter's executed-statement sequence; for a duplicate definition either line is acceptable (not checked); wording of messages is not compared", "3/C16"),
}

# additions of the second build round, appended to the technique / level text of the table above
L3 = "; model-based whole programs through the real CLI (L3 family programs: blocks that establish a complete machine state with MOV/PUSH/POPF, execute one proptest-generated instruction of the family and print registers, flags and the memory the reference wrote; stdout tokenised and compared event by event with the reference machine)"
FZ = "; thorough tier: coverage-guided libFuzzer campaign on the `exec` target (fuzzer bytes decoded into instruction shape, operands, machine state; same differential oracle, value-profile guided)"
EXTRA_TECH = {
 "C01": L3 + FZ, "C02": L3 + FZ, "C03": L3 + FZ, "C04": L3 + FZ, "C05": L3 + FZ, "C07": L3 + FZ,
 "C06": "; the same jumps and loops inside whole programs through the real CLI (forward targets, self-targeting LOOPx, counted backward loops, flags set with PUSH/POPF) compared with the reference machine",
 "C08": "; deep families through the CLI (recursion to depth n, chains of n procedures, n sequential calls returning or leaving by a jump, n up to 4000 quick / 65535 thorough)",
 "C09": FZ + "; the console interrupt services pointed at the last bytes of the address space through the CLI (C18's reference as oracle), in the optimised build and in the one cargo makes by default (overflow-checked)",
 "C11": "; a third rendering in which immediates reach their instruction as macro arguments; OFFSET-versus-number family through the CLI",
 "C15": "; keyboard/screen programs (C18's generator) and a share of the text mutants also in the unoptimised, overflow-checked build of the emulator",
 "C18": "; every program also in the unoptimised, overflow-checked build (must end normally with byte-identical output); RLIMIT_CPU on these straight-line programs so that a spinning emulator is a kernel signal, not a watchdog timeout",
 "C10": "; name probes (every identifier-like terminal that a downstream grammar of the working tree knows and the assembler does not, plausible program vocabulary, keywords with one character added -- used as code label, data label, procedure, macro name, macro parameter), boundary probes on both sides of every acceptance range and C14's near misses through the CLI; thorough tier: libFuzzer `compose` target",
 "C17": "; deterministic family of print commands on both sides of every bound of the print reader typed at INT 3 and -i prompts with DS from 0 to FFFFh",
 "C20": "; stepping while the program reads the keyboard (prompt answers and INT 21h input interleaved on one stdin in the order the reference consumes them); print commands on both sides of every bound of the print reader at the prompt",
 "C19": "; Default-constructed machines; a Preprocessor context reused after clear(); histories with macro chains beyond the nesting limit; several undefined jumps out of one macro use; brand-new objects after a long never-reset history compared with a brand-new process",
}
for k, v in EXTRA_TECH.items():
    t, a, b, c = CHECKS[k]
    CHECKS[k] = (t + v, a, b, c)
# additions of the seventh round
EXTRA7 = {
 "C06": "; every ordered pair of jump spellings assembled adjacent / behind a label / after a CMP: the second must be emitted as when it stands alone (metamorphic: emission is context free); conditional jumps closing loops that are counted in memory",
 "C08": "; calls between PUSH and POP, procedures that pop what the caller pushed or leave something behind (return with SP above / below its value at the call); loops counted in memory",
 "C09": "; C08's structured programs incl. procedures that return with SP away from its value at the call",
 "C13": "; family of programs whose macro recursion only appears through a redefinition or after a successful use of a by-name parameter (child process, both builds)",
 "C15": "; the late-recursion family of C13 (refused with a diagnostic, never a stack overflow)",
 "C16": "; end of input behind a final newline / blank lines; undefined jumps behind and between nested macro uses",
 "C17": "; the same print statements executed again in a loop after DS, a register, memory and the flags changed; programs with procedures",
 "C18": "; histories of 3-6 calls over a palette of 2-3 calls (the same service again with the same DL / AL / CX after another one ran)",
 "C19": "; the two programs of an isolation case define the same code label names at different places and jump to them",
 "C20": "; a repeated string instruction before the program sets the trap flag",
}
for k, v in EXTRA7.items():
    t, a, b, c = CHECKS[k]
    CHECKS[k] = (t + v, a, b, c)
# additions of the eighth round
EXTRA8 = {
 "C08": "; labels and procedures of one generated program in four are named by vocabulary words (program vocabulary and downstream-only keywords in three letter cases, filtered by what the working tree's assembler accepts): metamorphic relation 'a name is a name' against the name-blind reference",
 "C10": "; boundary probes with data definitions of every kind ending below, at, across and behind the end of the 1 MiB space and filling a segment (accepted => loadable, in-process and through the CLI)",
 "C15": "; the print reader behind the real prompt: ~3000 lines (print commands over a number lattice around 2^16 .. 2^64 and beyond in four radix spellings, long digit strings, token soups, non-ASCII, over-long words) typed in batches at the prompt of a stepped program in both builds, failing batch narrowed to one line",
 "C17": "; print constants in every accepted spelling (0x / 0X, 0b / 0B, zero-padded); commands at the prompt in lower, upper and capitalised spelling",
 "C20": "; comments with multi-byte characters in the stepped programs (character and byte offsets of a line differ); vocabulary-named labels",
}
for k, v in EXTRA8.items():
    t, a, b, c = CHECKS[k]
    CHECKS[k] = (t + v, a, b, c)

REASON_WIP = "check not built yet in this revision of /verif (work in progress; see DESIGN.md section 7 for the order of work)"
ALL = ["C%02d" % i for i in range(1, 21)]

def main():
    checks = []
    for pid in ALL:
        if pid not in CHECKS:
            continue
        tech, text, note, ref = CHECKS[pid]
        checks.append({
            "property_id": pid,
            "quick_cmd": "./check %s quick" % pid,
            "thorough_cmd": "./check %s thorough" % pid,
            "evidence_file": "/verif/evidence/%s.json" % pid,
            "replay_cmd_template": "./check replay {path}",
            "engine": "vcheck",
            "level_claimed": {"category": "exploration", "text": text, "design_ref": "DESIGN.md section " + ref},
            "level_note": note,
            "technique": tech,
        })
    m = {
        "version": 1,
        "setup_cmd": "./check setup",
        "hooks": {
            "guard": "yjdoc2_8086_emulator_verif",
            "enable": "no source hooks are needed: every observation point (public instruction functions, the four parser types, the driver's pure modules, the CLI binary) exists in the unmodified tree; checks build /repo as it is",
            "baseline_off_cmd": "cd /repo && cargo test --workspace --no-fail-fast --offline",
            "source_commits": [],
            "add_only": True,
        },
        "engines": [
            {"name": "vcheck", "path": "/verif/harness", "serves_properties": [c["property_id"] for c in checks],
             "kind_free_text": "Rust harness (proptest + exhaustive enumeration + reference model of the 8086 subset) linked against the library built from /repo's working tree; CLI-level checks drive the emulator_8086 binary built from the same tree in child processes"},
            {"name": "vfuzz", "path": "/verif/fuzz", "serves_properties": ["C01", "C02", "C03", "C04", "C05", "C07", "C09", "C10", "C15"],
             "kind_free_text": "cargo-fuzz / libFuzzer targets (pre, data, interp, print, compose, exec) linked against the same library and against the harness crate; run by the thorough tiers with fixed run counts, artifacts re-executed through the plain harness path before anything is reported"},
        ],
        "checks": checks,
        "not_applicable": [{"property_id": p, "reason": REASON_WIP} for p in ALL if p not in CHECKS],
        "notes": "All checks: exit 0 held / 1 VIOLATION / 2 inconclusive / 3 harness error; VERIF_SEED selects the proptest seeds; known findings in /verif/known_findings.txt (read-only at run time).",
    }
    with open(os.path.join(HERE, "MANIFEST.json"), "w") as f:
        json.dump(m, f, indent=1)
        f.write("\n")

if __name__ == "__main__":
    main()
