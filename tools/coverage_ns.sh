#!/bin/bash
# development tool (not a registered command): source coverage of /repo reached by the quick tiers.
# Builds harness and CLI with -C instrument-coverage (nightly) in a private mount namespace whose /repo and /verif are
# copies, runs the given checks (default: all 20, quick), merges the profiles and writes reports to /tmp/cov/report.
# usage: coverage_ns.sh [Cxx ...]
d=/tmp/cov
rm -rf $d; mkdir -p $d/prof $d/report
rsync -a --exclude target /repo/ $d/repo/
rsync -a --exclude fuzz/target --exclude .build /verif/ $d/verif/
# children of the harness get a profile file too (the harness clears their environment)
sed -i 's|cmd.env("RUST_BACKTRACE", "0");|cmd.env("RUST_BACKTRACE", "0"); cmd.env("LLVM_PROFILE_FILE", "/tmp/cov/prof/cli-%8m.profraw");|' $d/verif/harness/src/cli.rs
sed -i 's|cargo build|cargo +nightly build|g' $d/verif/check
checks="$*"; [ -z "$checks" ] && checks=$(seq -f "C%02g" 1 20 | tr "\n" " ")
unshare -m bash -c "mount --bind $d/repo /repo && mount --bind $d/verif /verif && cd /verif && export RUSTFLAGS='-C instrument-coverage' && for c in $checks; do LLVM_PROFILE_FILE=/tmp/cov/prof/h-\$c-%8m.profraw ./check \$c quick 2>&1 | grep -E 'quick seed|VIOLATION|HARNESS|NOTE'; done"
B=/root/.rustup/toolchains/nightly-x86_64-unknown-linux-gnu/lib/rustlib/x86_64-unknown-linux-gnu/bin
$B/llvm-profdata merge -sparse $d/prof/h-*.profraw -o $d/report/harness.profdata
$B/llvm-profdata merge -sparse $d/prof/cli-*.profraw -o $d/report/cli.profdata
$B/llvm-cov report $d/verif/.build/harness/release/vcheck -instr-profile=$d/report/harness.profdata -path-equivalence=/repo,$d/repo 2>/dev/null | grep -E "^/repo|^Filename|repo/" > $d/report/harness_files.txt
$B/llvm-cov report $d/verif/.build/cli/release/emulator_8086 -instr-profile=$d/report/cli.profdata 2>/dev/null | grep -E "^Filename|repo/|^src|driver" > $d/report/cli_files.txt
echo "reports in $d/report"
