#!/usr/bin/env python3
"""descriptions of the round-8 seeded changes (21 = two cooperating sites, 22 = an unusual but valid input), taken from
the machine-readable SUMMARY lines that close each sub-agent's report"""
import json, re, os
ROUND, NUMS = 8, (21, 22)
RULES = {21: 'two cooperating sites that each look fine alone', 22: 'an unusual but valid input (rare spelling, form, layout or legal extreme)'}
for i in range(1, 21):
    for n in NUMS:
        d = '/verif/seeded/C%02d-%d' % (i, n)
        if not os.path.exists(d + '/meta.json'): print('missing', d); continue
        txt = open(d + '/agent_report.md').read() if os.path.exists(d + '/agent_report.md') else ''
        meta = json.load(open(d + '/meta.json'))
        m = re.search(r'^\s*SUMMARY %d \| (.*?) \| (.*)$' % n, txt, re.M)
        if m:
            meta['change'] = m.group(1).strip()[:400]
            meta['needs_to_manifest'] = m.group(2).strip()[:500]
        else:
            print('no SUMMARY line:', d)
        meta['round'] = ROUND
        meta['rule'] = RULES[n]
        json.dump(meta, open(d + '/meta.json', 'w'), indent=1)
