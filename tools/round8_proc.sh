#!/bin/bash
# development tool (round 8): confirm the three changes of one property in its scratch worktree, then evaluate them in a
# mount-namespace slot.  usage: round7_proc.sh <Cxx> <slot> [extra checks, comma separated]
c=$1; slot=$2; ks=${3:+:$3}
cd /verif
for n in 21 22; do python3 tools/seed2.py $c $n --base /tmp/seed8 --confirm-only 2>&1 | tail -1; done > /tmp/seed8/$c.confirm.log
SEED_BASE=/tmp/seed8 tools/eval_ns.sh $slot quick $c:21$ks $c:22$ks > /tmp/seed8/eval.$c.log 2>&1
