#!/usr/bin/env python3
"""descriptions of the round-7 seeded changes (18 = history, 19 = position / order, 20 = coincidence of two values), taken from
the machine-readable SUMMARY lines that close each sub-agent's report"""
import json, re, os
ROUND, NUMS = 7, (18, 19, 20)
RULES = {18: 'a history: stale / cached / not reset state, three or more steps', 19: 'position or order in the source or input', 20: 'a coincidence of two independently chosen values'}
for i in range(1, 21):
    for n in NUMS:
        d = '/verif/seeded/C%02d-%d' % (i, n)
        if not os.path.exists(d + '/meta.json'): print('missing', d); continue
        txt = open(d + '/agent_report.md').read() if os.path.exists(d + '/agent_report.md') else ''
        meta = json.load(open(d + '/meta.json'))
        m = re.search(r'^\s*SUMMARY %d \| (.*?) \| (.*)$' % n, txt, re.M)
        if m:
            meta['change'] = m.group(1).strip()[:400]
            meta['needs_to_manifest'] = m.group(2).strip()[:500]
        else:
            print('no SUMMARY line:', d)
        meta['round'] = ROUND
        meta['rule'] = RULES[n]
        json.dump(meta, open(d + '/meta.json', 'w'), indent=1)
