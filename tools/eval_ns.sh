#!/bin/bash
# development tool: evaluate seeded changes in parallel, each slot in a private mount namespace whose /repo and /verif are
# copies (so the registered commands run unmodified and /repo itself is never touched).
# usage: eval_ns.sh <slot> <tier> <Cxx:n[:Cyy,Czz]> ...     (checks default to the property's own)
# results: /tmp/eval<slot>/verif/seeded/<Cxx>-<n>/meta.json (merge with tools/merge_eval.py)
slot=$1; tier=$2; shift 2
d=/tmp/eval$slot
rm -rf $d; mkdir -p $d
rsync -a --exclude target /repo/ $d/repo/
rsync -a --exclude fuzz/target --exclude .build/fuzz-run --exclude .build/logs --exclude .build/fuzz /verif/ $d/verif/
unshare -m bash -c "mount --bind $d/repo /repo && mount --bind $d/verif /verif && cd /verif && for x in $*; do IFS=: read c n ks <<< \"\$x\"; python3 /verif/tools/seed2.py \$c \$n --base ${SEED_BASE:-/tmp/seed2} --no-confirm --tier $tier \${ks//,/ }; done"
