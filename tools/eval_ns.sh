#!/bin/bash
# development tool: evaluate seeded changes in parallel, each slot in a private mount namespace whose /repo and /verif are
# copies (so the registered commands run unmodified and /repo itself is never touched).
# usage: eval_ns.sh <slot> <tier> <Cxx:n> [<Cxx:n> ...]     results: /tmp/eval<slot>/verif/seeded/<Cxx>-<n>/meta.json
slot=$1; tier=$2; shift 2
d=/tmp/eval$slot
rm -rf $d; mkdir -p $d
rsync -a --exclude target /repo/ $d/repo/
rsync -a --exclude fuzz/target --exclude .build/fuzz-run --exclude .build/logs /verif/ $d/verif/
unshare -m bash -c "mount --bind $d/repo /repo && mount --bind $d/verif /verif && cd /verif && for x in $*; do c=\${x%%:*}; n=\${x##*:}; python3 /verif/tools/seed2.py \$c \$n --no-confirm --tier $tier; done"
