#!/usr/bin/env python3
"""descriptions of the round-5 seeded changes (12 = bug fix gone wrong, 13 = refactoring, 14 = defensive programming gone
too far), taken from the sub-agents' own reports: the heading of the change and its 'needed to manifest' paragraph"""
import json, re, os, sys
def section(txt, n):
    m = re.search(r'^##+ *Change %d\b.*$' % n, txt, re.M | re.I)
    if not m: return None, None
    rest = txt[m.end():]
    m2 = re.search(r'^##+ *Change \d+', rest, re.M | re.I)
    body = rest[:m2.start()] if m2 else rest
    head = re.sub(r'^##+ *Change %d *[-—–:]* *' % n, '', m.group(0), flags=re.I).strip()
    return head, body
def para(body, key):
    m = re.search(r'(%s)[^:]*:\**' % key, body, re.I)
    if not m: return None
    t = body[m.end():]
    t = re.split(r'\n\s*\n|\n\s*[*-] +\**[A-Z]', t, 1)[0]
    return ' '.join(t.split()).strip(' *')
for i in range(1, 21):
    for n in (12, 13, 14):
        d = '/verif/seeded/C%02d-%d' % (i, n)
        txt = open(d + '/agent_report.md').read()
        head, body = section(txt, n)
        meta = json.load(open(d + '/meta.json'))
        if head:
            meta['change'] = head[:300]
            need = para(body, r'Needed to manifest|Needs to manifest|What it needs|Needs|Trigger')
            if need: meta['needs_to_manifest'] = need[:400]
            else: print('no needs paragraph:', d)
        else:
            print('no section:', d)
        meta['round'] = 5
        meta['rule'] = {12: 'a bug fix gone wrong', 13: 'a refactoring that is not quite behaviour preserving', 14: 'defensive programming gone too far'}[n]
        json.dump(meta, open(d + '/meta.json', 'w'), indent=1)
