#!/bin/bash
# development tool (round 7): confirm the three changes of one property in its scratch worktree, then evaluate them in a
# mount-namespace slot.  usage: round7_proc.sh <Cxx> <slot> [extra checks, comma separated]
c=$1; slot=$2; ks=${3:+:$3}
cd /verif
for n in 18 19 20; do python3 tools/seed2.py $c $n --base /tmp/seed7 --confirm-only 2>&1 | tail -1; done > /tmp/seed7/$c.confirm.log
SEED_BASE=/tmp/seed7 tools/eval_ns.sh $slot quick $c:18$ks $c:19$ks $c:20$ks > /tmp/seed7/eval.$c.log 2>&1
