#!/bin/bash
# development tool: every quick check under several seeds on the unchanged tree, inside a private mount namespace (copies of
# /repo and /verif), so that it neither disturbs nor is disturbed by work in /verif.
# usage: multiseed_ns.sh <seed> ...     result: /tmp/evalM/multiseed.out
d=/tmp/evalM
rm -rf $d; mkdir -p $d
rsync -a --exclude target /repo/ $d/repo/
rsync -a --exclude fuzz/target --exclude .build/fuzz-run --exclude .build/logs --exclude .build/fuzz /verif/ $d/verif/
unshare -m bash -c "mount --bind $d/repo /repo && mount --bind $d/verif /verif && cd /verif && mkdir -p .build/logs && for s in $*; do for i in \$(seq -w 1 20); do st=\$(date +%s); VERIF_SEED=\$s ./check C\$i quick > .build/logs/C\$i.s\$s.log 2>&1; e=\$?; echo \"seed=\$s C\$i exit=\$e t=\$(( \$(date +%s)-st ))s \$(grep -E 'VIOLATION|HARNESS-ERROR|INCONCLUSIVE|  what' .build/logs/C\$i.s\$s.log | head -3 | cut -c1-300 | tr '\n' ' ')\" >> $d/multiseed.out; done; done"
