#!/usr/bin/env python3
"""descriptions of the round-6 seeded changes (15 = feature interaction, 16 = threshold / scale, 17 = rarely taken path), taken from the sub-agents' own reports: the heading of the change and its 'needed to manifest' paragraph"""
import json, re, os, sys
ROUND, NUMS = 6, (15, 16, 17)
RULES = {15: 'a feature interaction', 16: 'a threshold or scale change', 17: 'a change in a rarely taken path'}
def section(txt, n):
    m = re.search(r'^##+ *Change %d\b.*$' % n, txt, re.M | re.I)
    if not m: return None, None
    rest = txt[m.end():]
    m2 = re.search(r'^##+ *Change \d+', rest, re.M | re.I)
    body = rest[:m2.start()] if m2 else rest
    head = re.sub(r'^##+ *Change %d *[-—–:]* *' % n, '', m.group(0), flags=re.I).strip()
    return head, body
def para(body, key):
    m = re.search(r'(%s)[^:]*:\**' % key, body, re.I)
    if not m: return None
    t = body[m.end():]
    t = re.split(r'\n\s*\n|\n\s*[*-] +\**[A-Z]', t, 1)[0]
    return ' '.join(t.split()).strip(' *')
for i in range(1, 21):
    for n in NUMS:
        d = '/verif/seeded/C%02d-%d' % (i, n)
        txt = open(d + '/agent_report.md').read()
        head, body = section(txt, n)
        meta = json.load(open(d + '/meta.json'))
        if head:
            meta['change'] = head[:300]
            need = para(body, r'Needed to manifest|Needs to manifest|What it needs|Needs|Trigger')
            if need: meta['needs_to_manifest'] = need[:400]
            else: print('no needs paragraph:', d)
        else:
            print('no section:', d)
        meta['round'] = ROUND
        meta['rule'] = RULES[n]
        json.dump(meta, open(d + '/meta.json', 'w'), indent=1)
