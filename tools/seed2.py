#!/usr/bin/env python3
"""Development tool (seeded round 2 and later): confirm a seeded change produced by a sub-agent and run checks against it.
usage: seed2.py <Cxx> <n> [--base /tmp/seed2] [--tier quick] [--no-confirm] [check ids ...]
 Layout produced by the agent: <base>/<Cxx> (scratch worktree), <base>/<Cxx>.out/{changeN.diff, demoN.sh, demoN.s|rs, REPORT.md}
 1. confirm in the scratch worktree: apply changeN.diff, repository tests stay at 68 passed, demoN.sh <worktree> exits non-zero;
    undo the change, demoN.sh exits 0;
 2. apply the change to /repo, run the given tier of the given checks (default: the property's own), undo;
 3. store /verif/seeded/<Cxx>-<n>/{patch.diff, demo.sh, demo.s|rs, agent_report.md, meta.json}."""
import subprocess, sys, os, json, shutil, glob
args = sys.argv[1:]
base, tier, confirm, confirm_only = '/tmp/seed2', 'quick', True, False
pos = []
i = 0
while i < len(args):
    if args[i] == '--base': base = args[i + 1]; i += 2
    elif args[i] == '--tier': tier = args[i + 1]; i += 2
    elif args[i] == '--no-confirm': confirm = False; i += 1
    elif args[i] == '--confirm-only': confirm_only = True; i += 1
    else: pos.append(args[i]); i += 1
cid, n = pos[0], pos[1]
checks = pos[2:] or [cid]
wt, out = '%s/%s' % (base, cid), '%s/%s.out' % (base, cid)
patch = '%s/change%s.diff' % (out, n)
dst = '/verif/seeded/%s-%s' % (cid, n)
if not os.path.exists(patch) and os.path.exists(dst + '/patch.diff'):
    patch = dst + '/patch.diff'  # re-evaluation of a stored change
def sh(cmd, cwd=None, timeout=7200):
    r = subprocess.run(cmd, shell=True, cwd=cwd, capture_output=True, text=True, timeout=timeout)
    return r.returncode, r.stdout + r.stderr
meta = {}
if os.path.exists(dst + '/meta.json'):
    meta = json.load(open(dst + '/meta.json'))
meta.setdefault('property', cid)
meta.setdefault('breaks_property', cid)
meta['origin'] = 'written by an independent sub-agent that saw only the property text and a scratch worktree (nothing from /verif)'
if confirm:
    def clean():
        sh('git checkout -- . && git clean -fdq src tests examples', wt)
    clean()
    rc, o = sh('git apply --check %s' % patch, wt)
    if rc != 0:
        print('patch does not apply:', o); sys.exit(2)
    sh('git apply %s' % patch, wt)
    rc, o = sh('cargo test --offline 2>&1 | grep -E "^test result" | head -1', wt)
    tests_ok = '68 passed; 0 failed' in o
    rc1, o1 = sh('sh %s/demo%s.sh %s' % (out, n, wt))
    clean()
    rc0, o0 = sh('sh %s/demo%s.sh %s' % (out, n, wt))
    clean()
    ok = tests_ok and rc1 != 0 and rc0 == 0
    meta['ran'] = ['with change: cargo test --offline -> %s' % o.strip(), 'with change: sh demo%s.sh <worktree> -> exit %d' % (n, rc1),
                   'without change: sh demo%s.sh <worktree> -> exit %d' % (n, rc0)]
    meta['demo_output_with_change'] = o1[-1200:]
    meta['confirmed'] = ok
    rcc, oc = sh('git -C %s rev-parse --short HEAD' % wt)
    meta['evaluated_on_repo_commit'] = oc.strip()
    print(cid, n, 'tests green:', tests_ok, '| demo with change exit', rc1, '| without exit', rc0, '=> confirmed' if ok else '=> NOT confirmed')
    if not ok:
        print(o1[-600:]); print('---- without:'); print(o0[-600:])
def store():
    os.makedirs(dst, exist_ok=True)
    if os.path.abspath(patch) != os.path.abspath(dst + '/patch.diff'): shutil.copy(patch, dst + '/patch.diff')
    for f in glob.glob('%s/demo%s*' % (out, n)):
        if os.path.isfile(f): shutil.copy(f, dst + '/' + os.path.basename(f))
    rep = out + '/REPORT.md'
    if os.path.exists(rep): shutil.copy(rep, dst + '/agent_report.md')
    json.dump(meta, open(dst + '/meta.json', 'w'), indent=1)
if confirm_only:
    store(); sys.exit(0)
rc, o = sh('git -C /repo status --short')
if o.strip():
    print('/repo is not clean, aborting'); sys.exit(2)
results = meta.get('checks', {})
rc, o = sh('git -C /repo apply %s' % patch)
if rc != 0:
    print('patch does not apply to /repo:', o); sys.exit(2)
try:
    for c in checks:
        rc, o = sh('./check %s %s' % (c, tier), '/verif')
        viol = [l for l in o.splitlines() if l.startswith(('VIOLATION', '  what'))]
        key = c if tier == 'quick' else '%s/%s' % (c, tier)
        results[key] = {'exit': rc, 'caught': rc == 1 and any(l.startswith('VIOLATION') for l in viol), 'lines': [l[:300] for l in viol[:4]]}
        print(c, tier, 'exit', rc, 'CAUGHT' if results[key]['caught'] else 'MISSED')
        for l in viol[:3]: print('   ', l[:260])
        if rc not in (0, 1): print(o[-1500:])
finally:
    sh('git -C /repo checkout -- . && git -C /repo clean -fdq src tests')
    for c in checks:
        for f in glob.glob('/verif/replays/%s/run-*' % c): os.remove(f)
    sh('git -C /verif checkout -- evidence')
meta['checks'] = results
store()
