#!/bin/bash
# development tool (mini round 9: one change, number 23, per text-facing property): confirm in the scratch worktree, then
# evaluate in a mount-namespace slot.  usage: round9_proc.sh <Cxx> <slot>
c=$1; slot=$2
cd /verif
python3 tools/seed2.py $c 23 --base /tmp/seed9 --confirm-only 2>&1 | tail -1 > /tmp/seed9/$c.confirm.log
SEED_BASE=/tmp/seed9 tools/eval_ns.sh $slot quick $c:23 > /tmp/seed9/eval.$c.log 2>&1
cp /tmp/eval$slot/verif/seeded/$c-23/meta.json /tmp/seed9/$c.meta.json 2>/dev/null
