#!/bin/bash
# development tool: run every quick check under several seeds on the unchanged tree; prints one line per run
cd /verif; mkdir -p .build/logs
for s in "$@"; do for i in $(seq -w 1 20); do st=$(date +%s); VERIF_SEED=$s ./check C$i quick > .build/logs/C$i.s$s.log 2>&1; e=$?; echo "seed=$s C$i exit=$e t=$(( $(date +%s)-st ))s $(grep -E 'VIOLATION|HARNESS-ERROR|INCONCLUSIVE' .build/logs/C$i.s$s.log | head -2 | tr '\n' ' ')"; done; done
git checkout -- evidence
