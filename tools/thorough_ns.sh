#!/bin/bash
# development tool: run the thorough tier of the given checks (default all) on the unchanged tree inside a private mount
# namespace (copies of /repo and /verif), so that it neither disturbs nor is disturbed by work in /verif.
# usage: thorough_ns.sh [Cxx ...]    log: /tmp/evalT/verif/.build/logs/thorough.out
d=/tmp/evalT
rm -rf $d; mkdir -p $d
rsync -a --exclude target /repo/ $d/repo/
rsync -a --exclude fuzz/target --exclude .build/fuzz-run --exclude .build/logs /verif/ $d/verif/
list="$*"; [ -z "$list" ] && list=$(seq -f "C%02g" 1 20 | tr "\n" " ")
unshare -m nice -n 10 bash -c "mount --bind $d/repo /repo && mount --bind $d/verif /verif && cd /verif && mkdir -p .build/logs && for c in $list; do s=\$(date +%s); ./check \$c thorough > .build/logs/\$c.thorough.log 2>&1; e=\$?; echo \"\$c exit=\$e t=\$(( \$(date +%s)-s ))s \$(grep -E 'VIOLATION|HARNESS-ERROR|INCONCLUSIVE' .build/logs/\$c.thorough.log | head -3 | tr '\n' ' ')\" >> .build/logs/thorough.out; cp evidence/\$c.json .build/logs/\$c.thorough.evidence.json; done"
