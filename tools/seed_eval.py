#!/usr/bin/env python3
"""Development tool: confirm a seeded change produced by a sub-agent and run the checks against it.
usage: seed_eval.py <Cxx> <n> [check ids ...]
 1. in the scratch worktree /tmp/seed/<Cxx>: apply changeN.diff, run the repository's tests (must stay green),
    run the demonstration (must fail), undo the change, run the demonstration again (must pass);
 2. apply the change to /repo, run the quick tier of the given checks (default: the property's own), undo;
 3. store /verif/seeded/<Cxx>-<n>/{patch.diff, demo.*, meta.json}."""
import subprocess, sys, os, json, shutil, re
cid, n = sys.argv[1], sys.argv[2]
checks = sys.argv[3:] or [cid]
wt, out = '/tmp/seed/%s' % cid, '/tmp/seed/%s.out' % cid
patch = '%s/change%s.diff' % (out, n)
def sh(cmd, cwd=None, timeout=3600):
    r = subprocess.run(cmd, shell=True, cwd=cwd, capture_output=True, text=True, timeout=timeout)
    return r.returncode, r.stdout + r.stderr
meta = {'property': cid, 'change': os.path.basename(patch), 'ran': []}
demo_rs = '%s/demo%s.rs' % (out, n)
demo_s = '%s/demo%s.s' % (out, n)
sh('git checkout -- . && git clean -fdq tests', wt)
rc, o = sh('git apply --check %s' % patch, wt)
if rc != 0:
    print('patch does not apply:', o); sys.exit(2)
def demo(tag):
    if os.path.exists(demo_rs):
        os.makedirs(wt + '/tests', exist_ok=True)
        shutil.copy(demo_rs, wt + '/tests/seed_demo.rs')
        rc, o = sh('cargo test --offline --test seed_demo 2>&1 | tail -15', wt)
        os.remove(wt + '/tests/seed_demo.rs')
        ok = 'test result: ok' in o
        meta['ran'].append('%s: cargo test --test seed_demo -> %s' % (tag, 'pass' if ok else 'FAIL'))
        return ok, o
    elif os.path.exists(demo_s):
        rc, o = sh('cargo run --offline -q -- %s < /dev/null 2>&1 | head -60' % demo_s, wt)
        meta['ran'].append('%s: cargo run -- demo.s (output compared between the two trees)' % tag)
        return None, o
    return None, ''
sh('git apply %s' % patch, wt)
rc, o = sh('cargo test --offline 2>&1 | grep -E "^test result" | head -1', wt)
tests_ok = '68 passed; 0 failed' in o
meta['ran'].append('with change: cargo test --offline -> %s' % o.strip())
d_with, o_with = demo('with change')
sh('git checkout -- . && git clean -fdq src', wt)
d_without, o_without = demo('without change')
sh('git clean -fdq tests; rmdir tests 2>/dev/null', wt)
if d_with is None:
    confirmed = tests_ok and o_with != o_without
    meta['demo_output_with_change'] = o_with[-1500:]
    meta['demo_output_without_change'] = o_without[-1500:]
else:
    confirmed = tests_ok and (d_with is False) and (d_without is True)
meta['confirmed'] = confirmed
print('tests stay green:', tests_ok, '| demo fails with change:', d_with is False if d_with is not None else 'outputs differ: %s' % (o_with != o_without), '| demo passes without:', d_without)
if not confirmed:
    print(o_with[-800:]); print('----'); print(o_without[-800:])
# run the checks against /repo with the change applied
results = {}
rc, o = sh('git -C /repo status --short')
if o.strip():
    print('/repo is not clean, aborting'); sys.exit(2)
sh('git -C /repo apply %s' % patch)
try:
    for c in checks:
        rc, o = sh('./check %s quick' % c, '/verif', timeout=7200)
        viol = [l for l in o.splitlines() if l.startswith(('VIOLATION', '  what'))]
        results[c] = {'exit': rc, 'caught': rc == 1 and any(l.startswith('VIOLATION') for l in viol), 'lines': [l[:300] for l in viol[:4]]}
        print(c, 'exit', rc, 'CAUGHT' if results[c]['caught'] else 'MISSED')
        for l in viol[:3]: print('   ', l[:240])
finally:
    sh('git -C /repo checkout -- . && git -C /repo clean -fdq src')
    for c in checks:
        d = '/verif/replays/%s' % c
        if os.path.isdir(d):
            for f in os.listdir(d):
                if f.startswith('run-'): os.remove(os.path.join(d, f))
meta['checks'] = results
dst = '/verif/seeded/%s-%s' % (cid, n)
os.makedirs(dst, exist_ok=True)
shutil.copy(patch, dst + '/patch.diff')
for f in (demo_rs, demo_s):
    if os.path.exists(f): shutil.copy(f, dst + '/demo' + os.path.splitext(f)[1])
rep = out + '/REPORT.md'
if os.path.exists(rep): shutil.copy(rep, dst + '/agent_report.md')
json.dump(meta, open(dst + '/meta.json', 'w'), indent=1)
