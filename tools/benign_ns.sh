#!/bin/bash
# development tool: run the quick tier of every check (or of $CHECKS) against property-preserving changes of /repo, each
# slot in a private mount namespace whose /repo and /verif are copies (so /repo itself is never touched).
# usage: benign_ns.sh <slot> <patch.diff> ...      results: /tmp/benign/results/<patch name>.txt
# a patch named like I-C17-2.diff (written by a sub-agent for property C17) is also run against that property's check
slot=$1; shift
d=/tmp/benignslot$slot
rm -rf $d; mkdir -p $d /tmp/benign/results
rsync -a --exclude target /repo/ $d/repo/
rsync -a --exclude fuzz/target --exclude .build/fuzz-run --exclude .build/logs --exclude .build/fuzz /verif/ $d/verif/
checks="${CHECKS:-C01 C02 C03 C04 C05 C06 C07 C08 C09 C10 C11 C12 C13 C14 C15 C16 C17 C18 C19 C20}"
unshare -m bash -c "mount --bind $d/repo /repo && mount --bind $d/verif /verif && cd /verif && for p in $*; do n=\$(basename \$p .diff); r=/tmp/benign/results/\$n.txt; : > \$r; git -C /repo checkout -q -- . ; git -C /repo clean -fdq src tests ; git -C /repo apply \$p || { echo 'patch does not apply' >> \$r; continue; }; own=\$(echo \$n | grep -o 'C[0-9][0-9]' | head -1); for c in \$(echo \$own $checks | tr ' ' '\n' | awk '!s[\$0]++'); do ./check \$c quick > /tmp/benign/results/\$n.\$c.log 2>&1; e=\$?; echo \"\$c exit=\$e known=\$(grep -c KNOWN-FINDING /tmp/benign/results/\$n.\$c.log) \$(grep -E 'VIOLATION|HARNESS-ERROR|NOTE:' /tmp/benign/results/\$n.\$c.log | head -3 | tr '\n' ' ')\" >> \$r; done; git -C /repo checkout -q -- . ; git -C /repo clean -fdq src tests ; done"
rm -rf $d
