#!/usr/bin/env python3
"""development tool: copy the quick-tier results of tools/benign_ns.sh (/tmp/benign/results/<name>.txt) into /verif/benign/<name>/meta.json"""
import json, os, glob
for d in sorted(glob.glob('/verif/benign/B*')):
    n = os.path.basename(d)
    rf = '/tmp/benign/results/%s.txt' % n
    if not os.path.exists(rf): continue
    meta = json.load(open(d + '/meta.json'))
    res = {}
    for l in open(rf):
        p = l.split()
        if len(p) >= 3 and p[0].startswith('C'):
            res[p[0]] = {'exit': int(p[1].split('=')[1]), 'known_finding_lines': int(p[2].split('=')[1])}
    meta['final_results_quick_tier'] = res
    json.dump(meta, open(d + '/meta.json', 'w'), indent=1)
    bad = [c for c, v in res.items() if v['exit'] != 0]
    print(n, len(res), 'checks', 'ALARMS: %s' % bad if bad else 'silent')
