#!/usr/bin/env python3
"""confirm a seeded change whose demonstration is a shell script (demoN.sh <worktree>): fails with the change, passes without;
updates /verif/seeded/<Cxx>-<n>/meta.json"""
import subprocess, sys, json, os, shutil
cid, n = sys.argv[1], sys.argv[2]
wt, out = '/tmp/seed/%s' % cid, '/tmp/seed/%s.out' % cid
def sh(cmd, cwd=None):
    r = subprocess.run(cmd, shell=True, cwd=cwd, capture_output=True, text=True)
    return r.returncode, r.stdout + r.stderr
sh('git checkout -- . && git clean -fdq src', wt)
sh('git apply %s/change%s.diff' % (out, n), wt)
rc, o = sh('cargo test --offline 2>&1 | grep -E "^test result" | head -1', wt)
tests_ok = '68 passed; 0 failed' in o
rc1, o1 = sh('sh %s/demo%s.sh %s' % (out, n, wt))
sh('git checkout -- . && git clean -fdq src', wt)
rc0, o0 = sh('sh %s/demo%s.sh %s' % (out, n, wt))
ok = tests_ok and rc1 != 0 and rc0 == 0
print(cid, n, 'tests green:', tests_ok, '| demo with change exit', rc1, '| without exit', rc0, '=> confirmed' if ok else '=> NOT confirmed')
dst = '/verif/seeded/%s-%s' % (cid, n)
if os.path.isdir(dst):
    m = json.load(open(dst + '/meta.json'))
    m['confirmed'] = ok
    m['ran'] = ['with change: cargo test --offline -> %s' % o.strip(), 'with change: sh demo%s.sh -> exit %d' % (n, rc1), 'without change: sh demo%s.sh -> exit %d' % (n, rc0)]
    json.dump(m, open(dst + '/meta.json', 'w'), indent=1)
    shutil.copy('%s/demo%s.sh' % (out, n), dst + '/demo.sh')
